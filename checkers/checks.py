"""Configuration of the checks: per property the stages (harness binary, mode, sanitizer flavour, case counts per tier)."""

CHECKS = {
    "C20": {
        "level": "exploration",
        "technique": "runtime monitoring: sorted-array reference oracle over randomized lists/thresholds/queries, under ASan+UBSan",
        "claim": "Held on the generated lists only: every percentile/median, every histogram bin (count, mean, median), every bin(v) query and ml::store_stats agreed with a reference computed from a sorted copy; exploration is the right level because the input space (lists x thresholds x real queries) is unbounded and the oracle is cheap and exact.",
        "note": "Trusted: the harness' 20-line reference (position p*(n-1)/100, counting rule v>=threshold goes right); gcc 12 ASan/UBSan. Not covered: lists longer than 500, non-finite values.",
        "assumptions": ["the reference uses the position formula p*(n-1)/100 and the counting rule 'v >= threshold goes right' of the statement",
                        "the deviation statistic of ml::store_stats is judged by C11, not here"],
        "stages": [
            {"harness": "c20_orderstats", "flavour": "asan", "quick": 20000, "thorough": 200000},
            {"harness": "c20_orderstats", "flavour": "fast", "quick": 0, "thorough": 2000000},
        ],
    },
}
