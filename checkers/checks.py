"""Configuration of the checks: one JSON file per property under checks.d/ (stages = harness binary, mode,
sanitizer flavour, case counts per tier; plus the texts that go into MANIFEST.json)."""
import json
import os

CHECKS = {}
_d = os.path.join(os.path.dirname(os.path.abspath(__file__)), "checks.d")
for _f in sorted(os.listdir(_d)):
    if _f.endswith(".json"):
        CHECKS[_f[:-5]] = json.load(open(os.path.join(_d, _f)))

# properties whose harness is still under construction: not registered in MANIFEST.json, not built by `vf setup`
_nr = os.path.join(os.path.dirname(os.path.abspath(__file__)), "not_ready.txt")
NOT_READY = set(open(_nr).read().split()) if os.path.exists(_nr) else set()
