// C02 - every solver returns an honest, self-consistent result within a bounded budget.
//
// Monitor: the user function handed to the solver is wrapped by a counting function (evaluations counted by the harness,
// hard logical cap => "does not terminate" is decided in evaluations); the returned state is compared against a fresh
// re-evaluation of the un-wrapped function at the returned point; ASan/UBSan watch underneath (solver-specific
// parameters are fuzzed over their whole declared domains, which is how small bundle sizes are reached).
#include "common/solver_util.h"
#include <nano/solver/augmented.h>
#include <nano/solver/penalty.h>
#include <regex>

using namespace nano;
using namespace vfs;

namespace
{
const rfunctions_t& registered_functions()
{
    static const auto functions = function_t::make({1, 32, convexity::ignore, smoothness::ignore, 20}, std::regex(".+"));
    return functions;
}

struct solver_entry_t
{
    std::string id;
    double      weight;
    int         max_dims;
};

std::vector<solver_entry_t> make_solver_list()
{
    std::vector<solver_entry_t> list;
    for (const auto& id : solver_t::all().ids())
    {
        double w    = 1.0;
        int    dims = 32;
        if (id == "gs" || id == "ags" || id == "gs-lbfgs" || id == "ags-lbfgs")
        {
            w    = 0.12;
            dims = 8;
        }
        else if (id == "rqb" || id == "fpba1" || id == "fpba2")
        {
            w    = 0.35;
            dims = 16;
        }
        else if (id == "ellipsoid" || id == "osga")
        {
            w = 0.7;
        }
        list.push_back({id, w, dims});
    }
    list.push_back({"linear-penalty", 0.5, 16});
    list.push_back({"quadratic-penalty", 0.5, 16});
    list.push_back({"augmented-lagrangian", 0.5, 16});
    return list;
}

rsolver_t make_solver(const std::string& id)
{
    if (id == "linear-penalty")
    {
        return std::make_unique<solver_linear_penalty_t>();
    }
    if (id == "quadratic-penalty")
    {
        return std::make_unique<solver_quadratic_penalty_t>();
    }
    if (id == "augmented-lagrangian")
    {
        return std::make_unique<solver_augmented_lagrangian_t>();
    }
    return solver_t::all().get(id);
}

void run_case(vf::ctx_t& c)
{
    auto&             rng     = c.rng;
    static const auto solvers = make_solver_list();
    nano::verif::rng_seed().store(c.seed | 1U);

    // solver (cost-weighted)
    double total = 0;
    for (const auto& s : solvers)
    {
        total += s.weight;
    }
    double             pick  = rng.uniform(0.0, total);
    const solver_entry_t* entry = &solvers.back();
    for (const auto& s : solvers)
    {
        if (pick < s.weight)
        {
            entry = &s;
            break;
        }
        pick -= s.weight;
    }
    const auto forced = c.args.get("solver");
    if (!forced.empty())
    {
        for (const auto& s : solvers)
        {
            if (s.id == forced)
            {
                entry = &s;
            }
        }
    }
    // mode "cheap": only the solvers whose runs cost milliseconds (no gradient sampling, no bundle QPs, no outer loops),
    // on small problems with small budgets - buys ~10x the runs per solver for defects that show in a few percent of runs
    const bool cheap = c.args.mode == "cheap";
    if (cheap && forced.empty())
    {
        std::vector<const solver_entry_t*> pool;
        for (const auto& s : solvers)
        {
            if (s.weight >= 0.7 && s.id != "linear-penalty" && s.id != "quadratic-penalty" && s.id != "augmented-lagrangian")
            {
                pool.push_back(&s);
            }
        }
        entry = pool[static_cast<size_t>(rng.integer(0, static_cast<int64_t>(pool.size()) - 1))];
    }
    // mode "gsample": only the four gradient-sampling solvers (a QP per iteration: expensive in the default mix, where
    // they get ~1 % of the cases), on tiny problems with small budgets, always with fuzzed solver parameters
    const bool gsample = c.args.mode == "gsample";
    if (gsample && forced.empty())
    {
        std::vector<const solver_entry_t*> pool;
        for (const auto& s : solvers)
        {
            if (s.id == "gs" || s.id == "ags" || s.id == "gs-lbfgs" || s.id == "ags-lbfgs")
            {
                pool.push_back(&s);
            }
        }
        entry = pool[static_cast<size_t>(rng.integer(0, static_cast<int64_t>(pool.size()) - 1))];
    }
    const auto& id     = entry->id;
    auto        solver = make_solver(id);
    if (!solver)
    {
        c.violation("C02|factory|" + id, vf::json_t().kv("solver", id));
        return;
    }
    const bool constrained = solver->type() == solver_type::constrained;
    const bool line_search = solver->type() == solver_type::line_search;

    // function: registered benchmark or harness-owned
    rfunction_t function;
    std::string fname;
    const auto& registered = registered_functions();
    if (rng.chance(0.65))
    {
        for (int attempt = 0; attempt < 50 && !function; ++attempt)
        {
            const auto& f = *registered[static_cast<size_t>(rng.integer(0, static_cast<int64_t>(registered.size()) - 1))];
            if (f.size() <= (gsample ? 4 : (cheap ? 8 : entry->max_dims)))
            {
                function = f.clone();
                fname    = f.name();
            }
        }
    }
    if (!function)
    {
        using K            = harness_function_t::kind;
        const auto kinds   = std::vector<K>{K::quadratic, K::logquadratic, K::maxaffine, K::l1, K::linf, K::l1quad, K::linfquad, K::walled, K::nanwalled};
        const auto k       = rng.pick(kinds);
        const auto n       = static_cast<int>(rng.integer(1, gsample ? 4 : (cheap ? 8 : std::min(entry->max_dims, 16))));
        function           = std::make_unique<harness_function_t>(k, n, rng);
        fname              = std::string("harness:") + kind_name(k) + "[" + std::to_string(n) + "D]";
    }
    const auto n = function->size();

    // settings
    const auto max_evals = rng.chance(0.1) ? 10 : rng.integer(10, gsample ? 300 : (cheap ? 700 : 5000));
    const auto epsilon   = rng.loguniform(1e-12, 1e-2);
    solver->parameter("solver::epsilon")   = epsilon;
    solver->parameter("solver::max_evals") = max_evals;
    std::string config;
    bool        lsearch_fuzzed = false;
    if (gsample || rng.chance(0.6))
    {
        config = fuzz_parameters(*solver, rng,
                                 [&](const string_t& name)
                                 {
                                     if (name == "solver::epsilon" || name == "solver::max_evals")
                                     {
                                         return true;
                                     }
                                     // the bundle quantifier of C03: sizes in [2, 100] (huge bundles only cost time)
                                     return false;
                                 },
                                 0.5, 98);
        // solver::tolerance feeds the line-search (c1, c2)
        lsearch_fuzzed = config.find("solver::tolerance") != std::string::npos;
        // outer iteration counts of the constrained solvers are part of the budget, keep them as drawn
    }
    if (line_search && rng.chance(0.6))
    {
        const auto l0 = lsearch0_t::all().ids();
        const auto lk = lsearchk_t::all().ids();
        const auto i0 = rng.pick(l0);
        const auto ik = rng.pick(lk);
        solver->lsearch0(i0);
        solver->lsearchk(ik);
        config += "lsearch0=" + i0 + " lsearchk=" + ik + " ";
        if (rng.chance(0.3))
        {
            auto ls0 = solver->lsearch0().clone();
            auto lsk = solver->lsearchk().clone();
            config += fuzz_parameters(*ls0, rng, [](const string_t& nm) { return nm == "lsearch0::epsilon"; }, 0.5, 200);
            config += fuzz_parameters(*lsk, rng, [](const string_t& nm) { return nm == "lsearchk::tolerance"; }, 0.5, 200);
            solver->lsearch0(*ls0);
            solver->lsearchk(*lsk);
            lsearch_fuzzed = true;
        }
    }

    const auto radius = rng.loguniform(1e-3, 10.0);
    vector_t   x0{n};
    for (tensor_size_t i = 0; i < n; ++i)
    {
        x0(i) = radius * rng.uniform(-1.0, 1.0);
    }
    vector_t   g0{n};
    const auto f0 = function->vgrad(x0, g0);
    if (!std::isfinite(f0))
    {
        c.inconclusive("start-not-finite");
        return;
    }

    // the budget the statement allows, and the logical cap that decides "does not terminate"
    int64_t outers = 1;
    if (constrained)
    {
        const auto pname = id == "augmented-lagrangian" ? "solver::augmented::max_outer_iters" : "solver::penalty::max_outer_iters";
        outers           = solver->parameter(pname).value<int64_t>() + 1;
    }
    const int64_t bound = outers * (max_evals + 1100 + 8 * n);
    const int64_t cap   = 20 * bound * (lsearch_fuzzed ? 50 : 1);
    auto          cf    = counting_function_t{*function, cap};

    const auto witness = [&](const solver_state_t* state)
    {
        vf::json_t j;
        j.kv("solver", id).kv("function", fname).kv("dims", static_cast<long long>(n)).kv("max_evals", static_cast<long long>(max_evals)).kv("epsilon", epsilon);
        j.kv("radius", radius).kv("f0", f0).kv("config", config).kv("performed_f", static_cast<long long>(cf.m_f)).kv("performed_g", static_cast<long long>(cf.m_g));
        if (state != nullptr)
        {
            j.kv("status", status_name(state->status())).kv("fx", state->fx()).kv("reported_fcalls", static_cast<long long>(state->fcalls()));
            j.kv("reported_gcalls", static_cast<long long>(state->gcalls()));
        }
        return j;
    };

    if (c.args.verbose)
    {
        vf::out_t::line("INFO about-to-solve " + witness(nullptr).str());
    }
    solver_state_t state;
    try
    {
        state = solver->minimize(cf, x0, make_null_logger());
    }
    catch (const budget_exceeded_t&)
    {
        c.violation("C02|termination|evaluation-cap|" + id, witness(nullptr).kv("cap", static_cast<long long>(cap)));
        return;
    }
    catch (const std::exception& e)
    {
        c.violation("C02|exception|" + id, witness(nullptr).kv("what", std::string(e.what()).substr(0, 300)));
        return;
    }
    c.count("solves");
    c.count(std::string("status:") + status_name(state.status()));
    c.count("solver:" + id);

    const auto status    = state.status();
    const auto performed = cf.m_f + cf.m_g;

    c.count("clause_dimension");
    if (state.x().size() != n)
    {
        c.violation("C02|dimension|" + id, witness(&state));
        return;
    }
    c.count("clause_status");
    if (status != solver_status::converged && status != solver_status::max_iters && status != solver_status::failed)
    {
        c.violation("C02|status|" + id, witness(&state));
    }
    c.count("clause_counts");
    if (state.fcalls() > cf.m_f || state.gcalls() > cf.m_g || state.fcalls() < 0 || state.gcalls() < 0)
    {
        c.violation("C02|counts-exceed-performed|" + id, witness(&state));
    }
    if (!lsearch_fuzzed)
    {
        c.count("clause_budget");
        c.maxc("overshoot_beyond_max_evals", performed - outers * max_evals);
        if (performed > bound)
        {
            c.violation("C02|budget-overshoot|" + id, witness(&state).kv("bound", static_cast<long long>(bound)));
        }
    }

    // fresh re-evaluation of the un-wrapped function at the returned point
    vector_t   gx{n};
    const auto fx = function->vgrad(state.x(), gx);
    if (status != solver_status::failed)
    {
        c.count("clause_finite");
        if (!state.x().all_finite() || !std::isfinite(state.fx()))
        {
            c.violation("C02|non-finite-result|" + id, witness(&state));
        }
        const bool in_class = line_search ? function->smooth() : (id == "rqb" ? function->convex() : true);
        // like the budget clause, the monotonicity clause is judged with the line-search objects in their default
        // configuration (any lsearch0 x lsearchk pairing): the 5e-4 allowance of the statement is CG_DESCENT's with its
        // default epsilon, and e.g. `lsearchk::max_iterations = 1` or `cgdescent::epsilon = 8e4` are outside C02's
        // quantifier (solver-specific parameters); those runs are still judged on every other clause
        if (lsearch_fuzzed)
        {
            c.count("monotone_clause_skipped_fuzzed_linesearch");
        }
        else if (in_class && std::fabs(f0) < 1e8 && g0.lpNorm<Eigen::Infinity>() < 1e8)
        {
            const bool cg    = (line_search && solver->lsearchk().type_id() == "cgdescent") || constrained;
            const auto allow = cg ? 5e-4 * (1 + std::fabs(f0)) : 0.0;
            c.count(cg ? "clause_monotone_cgdescent_allowance" : "clause_monotone_exact");
            if (state.fx() > f0 + allow)
            {
                c.violation("C02|value-above-start|" + id, witness(&state).kv("increase", state.fx() - f0).kv("allowance", allow));
            }
        }
    }
    if (std::isfinite(fx) || std::isfinite(state.fx()))
    {
        c.count("clause_fx");
        if (!(std::fabs(fx - state.fx()) <= 1e-14 * (1 + std::fabs(fx))))
        {
            c.violation("C02|fx-mismatch|" + id, witness(&state).kv("recomputed_fx", fx));
        }
    }
    if (line_search && gx.all_finite() && state.gx().size() == n && state.gx().all_finite())
    {
        c.count("clause_gx");
        if ((gx.vector() - state.gx().vector()).cwiseAbs().maxCoeff() > 1e-14 * (1 + gx.lpNorm<Eigen::Infinity>()))
        {
            c.violation("C02|gx-mismatch|" + id, witness(&state));
        }
    }
    else if (line_search && state.gx().size() != n)
    {
        c.violation("C02|gx-dimension|" + id, witness(&state));
    }

    if (performed >= 6 && (state.x().vector() - x0.vector()).norm() > 0)
    {
        uint64_t h = vf::hash_str(id.c_str());
        h          = vf::mix(h, vf::hash_str(fname.c_str()));
        h          = vf::mix(h, vf::hash_str(config.c_str()));
        h          = vf::hash_bytes(x0.data(), static_cast<size_t>(n) * sizeof(double), h);
        h          = vf::hash_double(epsilon, vf::mix(h, static_cast<uint64_t>(max_evals)));
        c.nontrivial(h);
    }
    if (c.want_sample())
    {
        c.sample(witness(&state));
    }
}
} // namespace

int main(int argc, char** argv)
{
    const auto args = vf::parse_args(argc, argv);
    return vf::run(args, "C02",
                   "case = (solver id of the 36 registered + 3 constrained, cost-weighted; function = registered benchmark at 1..32 dims or "
                   "harness quadratic/log-quadratic/max-affine/l1/linf/walled; x0 radius 1e-3..10; epsilon 1e-12..1e-2; max_evals 10..5000; "
                   "solver parameters fuzzed in their declared domains; lsearch0/lsearchk pairing); non-trivial: >= 6 evaluations performed and "
                   "the returned point differs from x0; distinct by hash(solver, function, configuration, x0, epsilon, max_evals)",
                   run_case);
}
