#!/usr/bin/env python3
"""Regenerate /verif/MANIFEST.json from checkers/checks.py (run after editing the configuration)."""
import json, os, subprocess, sys
ROOT = os.path.dirname(os.path.dirname(os.path.abspath(__file__)))
sys.path.insert(0, os.path.join(ROOT, "checkers"))
from checks import CHECKS, NOT_READY
props = [json.loads(l) for l in open(os.path.join(ROOT, "properties.jsonl"))]
hook_commits = subprocess.run(["git", "-C", "/repo", "log", "--format=%H %s"], capture_output=True, text=True).stdout.splitlines()
hook_commits = [l.split()[0] for l in hook_commits if "verif hooks" in l]
m = {
    "version": 1,
    "setup_cmd": "./vf setup",
    "hooks": {
        "guard": "NANO_VERIF",
        "enable": "-DNANO_VERIF in CMAKE_CXX_FLAGS of the three build flavours (asan, tsan, fast) that ./vf configures under /verif/.build",
        "baseline_off_cmd": "/verif/baseline_off.sh",
        "source_commits": hook_commits,
        "add_only": True,
    },
    "engines": [{"name": "vf", "path": "/verif/vf", "serves_properties": sorted(set(CHECKS) - NOT_READY),
                 "kind_free_text": "runtime monitoring: randomized/enumerated workloads against the real library built with ASan+UBSan / TSan / plain, judged by independent oracles in /verif/harness, driven by /verif/vf"}],
    "checks": [],
    "not_applicable": [],
    "notes": "Every check rebuilds the needed flavour of /repo's working tree (ninja + ccache) before it runs. Exit 0 held / 1 violation (VIOLATION line + replay file) / 2 harness failure. known_findings.json is read-only at run time.",
}
for p in props:
    pid = p["id"]
    if pid in CHECKS and pid not in NOT_READY:
        c = CHECKS[pid]
        m["checks"].append({
            "property_id": pid,
            "quick_cmd": "./vf check %s --tier quick" % pid,
            "thorough_cmd": "./vf check %s --tier thorough" % pid,
            "evidence_file": "/verif/evidence/%s.json" % pid,
            "replay_cmd_template": "./vf replay {path}",
            "engine": "vf",
            "level_claimed": {"category": c["level"], "text": c["claim"], "design_ref": c.get("design_ref", "DESIGN.md section 3, " + pid)},
            "level_note": c["note"],
            "technique": c["technique"],
        })
    else:
        m["not_applicable"].append({"property_id": pid, "reason": "no check is registered for it in this tree yet (harness under construction); nothing is claimed"})
json.dump(m, open(os.path.join(ROOT, "MANIFEST.json"), "w"), indent=1)
print("MANIFEST.json: %d checks, %d not_applicable" % (len(m["checks"]), len(m["not_applicable"])))
