// Common harness machinery: deterministic case generation, the worker <-> driver line protocol,
// a tiny JSON builder.  Header-only, no dependency on the library under test.
//
// Protocol (every line starts with "@@", the library may log to stdout as well):
//   @@CASE <index> <seed-hex>          announced (and flushed) before a case starts
//   @@V <key>\t<json>                  a violation of the property (key = stable identifier of WHAT failed)
//   @@NT <hash-hex>                    the current case is non-trivial by the harness' rule (hash = decoded case)
//   @@S <json>                         a sample case, written out
//   @@C <name> <count>                 counter increment (flushed periodically and at the end)
//   @@INC <reason>                     the current case is inconclusive (premise not met, ...)
//   @@RULE <text>                      the non-triviality rule of this harness/mode (once)
//   @@DONE <cases-run>                 clean end of the worker
#pragma once

#include <cmath>
#include <cstdint>
#include <cstdio>
#include <cstdlib>
#include <cstring>
#include <exception>
#include <functional>
#include <map>
#include <string>
#include <typeinfo>
#include <unistd.h>
#include <vector>

namespace vf
{
inline uint64_t splitmix64(uint64_t& state)
{
    uint64_t z = (state += 0x9E3779B97F4A7C15ULL);
    z          = (z ^ (z >> 30U)) * 0xBF58476D1CE4E5B9ULL;
    z          = (z ^ (z >> 27U)) * 0x94D049BB133111EBULL;
    return z ^ (z >> 31U);
}

inline uint64_t mix(uint64_t a, uint64_t b)
{
    uint64_t s = a ^ (b * 0xD6E8FEB86659FD93ULL + 0x2545F4914F6CDD1DULL);
    splitmix64(s);
    return splitmix64(s);
}

inline uint64_t hash_str(const char* s)
{
    uint64_t h = 1469598103934665603ULL;
    for (; *s != 0; ++s)
    {
        h = (h ^ static_cast<unsigned char>(*s)) * 1099511628211ULL;
    }
    return h;
}

inline uint64_t hash_bytes(const void* data, size_t size, uint64_t h = 1469598103934665603ULL)
{
    const auto* p = static_cast<const unsigned char*>(data);
    for (size_t i = 0; i < size; ++i)
    {
        h = (h ^ p[i]) * 1099511628211ULL;
    }
    return h;
}

inline uint64_t hash_double(double v, uint64_t h)
{
    return hash_bytes(&v, sizeof(v), h);
}

///
/// \brief deterministic PRNG (splitmix64 stream), one per case.
///
struct rng_t
{
    using result_type = uint64_t;

    uint64_t m_state{0};

    explicit rng_t(uint64_t seed = 0)
        : m_state(seed)
    {
    }

    static constexpr uint64_t min() { return 0; }

    static constexpr uint64_t max() { return ~0ULL; }

    uint64_t operator()() { return splitmix64(m_state); }

    uint64_t next() { return splitmix64(m_state); }

    // uniform in [0, 1)
    double u01() { return static_cast<double>(next() >> 11U) * (1.0 / 9007199254740992.0); }

    double uniform(double lo, double hi) { return lo + (hi - lo) * u01(); }

    double loguniform(double lo, double hi) { return std::exp(uniform(std::log(lo), std::log(hi))); }

    // inclusive bounds
    int64_t integer(int64_t lo, int64_t hi)
    {
        if (hi <= lo)
        {
            return lo;
        }
        // unsigned arithmetic: hi - lo may not fit int64_t (e.g. [-2^62, 2^62]); same values as before wherever it did fit
        const auto span = static_cast<uint64_t>(hi) - static_cast<uint64_t>(lo) + 1ULL;
        const auto draw = next();
        return static_cast<int64_t>(static_cast<uint64_t>(lo) + (span == 0ULL ? draw : draw % span));
    }

    bool chance(double p) { return u01() < p; }

    double normal()
    {
        // Box-Muller (one value per call, deterministic)
        double u1 = u01();
        while (u1 <= 1e-300)
        {
            u1 = u01();
        }
        const double u2 = u01();
        return std::sqrt(-2.0 * std::log(u1)) * std::cos(6.283185307179586476925 * u2);
    }

    template <class T>
    const T& pick(const std::vector<T>& values)
    {
        return values[static_cast<size_t>(integer(0, static_cast<int64_t>(values.size()) - 1))];
    }

    rng_t fork() { return rng_t{next()}; }
};

///
/// \brief minimal JSON object/array builder (enough for samples and witnesses).
///
class json_t
{
public:
    static std::string esc(const std::string& s)
    {
        std::string o;
        o.reserve(s.size() + 2);
        for (const char ch : s)
        {
            const auto c = static_cast<unsigned char>(ch);
            if (c == '"' || c == '\\')
            {
                o += '\\';
                o += ch;
            }
            else if (c == '\n')
            {
                o += "\\n";
            }
            else if (c == '\t')
            {
                o += "\\t";
            }
            else if (c < 0x20 || c >= 0x7f)
            {
                char b[8];
                std::snprintf(b, sizeof(b), "\\u%04x", c);
                o += b;
            }
            else
            {
                o += ch;
            }
        }
        return o;
    }

    static std::string num(double v)
    {
        if (std::isnan(v))
        {
            return "\"nan\"";
        }
        if (std::isinf(v))
        {
            return v > 0 ? "\"inf\"" : "\"-inf\"";
        }
        char b[40];
        std::snprintf(b, sizeof(b), "%.17g", v);
        return b;
    }

    json_t& raw(const std::string& name, const std::string& value)
    {
        m_body += (m_body.empty() ? "" : ",");
        m_body += "\"" + esc(name) + "\":" + value;
        return *this;
    }

    json_t& kv(const std::string& name, const std::string& v) { return raw(name, "\"" + esc(v) + "\""); }

    json_t& kv(const std::string& name, const char* v) { return kv(name, std::string(v)); }

    json_t& kv(const std::string& name, double v) { return raw(name, num(v)); }

    json_t& kv(const std::string& name, float v) { return raw(name, num(static_cast<double>(v))); }

    json_t& kv(const std::string& name, long double v) { return raw(name, num(static_cast<double>(v))); }

    json_t& kv(const std::string& name, bool v) { return raw(name, v ? "true" : "false"); }

    json_t& kv(const std::string& name, int v) { return raw(name, std::to_string(v)); }

    json_t& kv(const std::string& name, long v) { return raw(name, std::to_string(v)); }

    json_t& kv(const std::string& name, long long v) { return raw(name, std::to_string(v)); }

    json_t& kv(const std::string& name, unsigned v) { return raw(name, std::to_string(v)); }

    json_t& kv(const std::string& name, unsigned long v) { return raw(name, std::to_string(v)); }

    json_t& kv(const std::string& name, unsigned long long v) { return raw(name, std::to_string(v)); }

    json_t& kv(const std::string& name, const json_t& v) { return raw(name, v.str()); }

    template <class T>
    json_t& arr(const std::string& name, const T* data, size_t size, size_t limit = 64)
    {
        std::string s = "[";
        for (size_t i = 0; i < size && i < limit; ++i)
        {
            s += (i ? "," : "");
            s += num(static_cast<double>(data[i]));
        }
        if (size > limit)
        {
            s += ",\"...(" + std::to_string(size) + ")\"";
        }
        return raw(name, s + "]");
    }

    template <class V>
    json_t& vec(const std::string& name, const V& v, size_t limit = 64)
    {
        std::string s = "[";
        size_t      i = 0;
        const auto  n = static_cast<size_t>(v.size());
        for (; i < n && i < limit; ++i)
        {
            s += (i ? "," : "");
            s += num(static_cast<double>(v(static_cast<decltype(v.size())>(i))));
        }
        if (n > limit)
        {
            s += ",\"...(" + std::to_string(n) + ")\"";
        }
        return raw(name, s + "]");
    }

    json_t& strs(const std::string& name, const std::vector<std::string>& v)
    {
        std::string s = "[";
        for (size_t i = 0; i < v.size(); ++i)
        {
            s += (i ? "," : "");
            s += "\"" + esc(v[i]) + "\"";
        }
        return raw(name, s + "]");
    }

    std::string str() const { return "{" + m_body + "}"; }

private:
    std::string m_body;
};

struct args_t
{
    uint64_t    seed{1};
    std::string tier{"quick"};
    std::string mode{"default"};
    int64_t     shard{0};
    int64_t     nshards{1};
    int64_t     cases{100};
    int64_t     from{0};  ///< first case index to consider (restart after a crash)
    int64_t     only{-1}; ///< replay exactly this case
    bool        verbose{false};
    int64_t     threads{0}; ///< free parameter for some harnesses
    std::map<std::string, std::string> extra;

    bool thorough() const { return tier == "thorough"; }

    std::string get(const std::string& name, const std::string& def = "") const
    {
        const auto it = extra.find(name);
        return it == extra.end() ? def : it->second;
    }
};

inline args_t parse_args(int argc, char** argv)
{
    args_t a;
    for (int i = 1; i < argc; ++i)
    {
        const std::string k = argv[i];
        const auto        v = [&]() -> std::string { return (i + 1 < argc) ? std::string(argv[++i]) : std::string(); };
        if (k == "--seed")
        {
            a.seed = std::strtoull(v().c_str(), nullptr, 0);
        }
        else if (k == "--tier")
        {
            a.tier = v();
        }
        else if (k == "--mode")
        {
            a.mode = v();
        }
        else if (k == "--shard")
        {
            a.shard = std::atoll(v().c_str());
        }
        else if (k == "--nshards")
        {
            a.nshards = std::max<int64_t>(1, std::atoll(v().c_str()));
        }
        else if (k == "--cases")
        {
            a.cases = std::atoll(v().c_str());
        }
        else if (k == "--from")
        {
            a.from = std::atoll(v().c_str());
        }
        else if (k == "--only")
        {
            a.only = std::atoll(v().c_str());
        }
        else if (k == "--threads")
        {
            a.threads = std::atoll(v().c_str());
        }
        else if (k == "--verbose")
        {
            a.verbose = true;
        }
        else if (k.rfind("--", 0) == 0)
        {
            a.extra[k.substr(2)] = v();
        }
    }
    return a;
}

///
/// \brief writer of protocol lines (stdout, line-buffered by hand so a sanitizer abort loses nothing).
///
class out_t
{
public:
    static void line(const std::string& s)
    {
        std::string l = "@@" + s + "\n";
        size_t      o = 0;
        std::fflush(stdout);
        while (o < l.size())
        {
            const auto w = ::write(1, l.data() + o, l.size() - o);
            if (w <= 0)
            {
                break;
            }
            o += static_cast<size_t>(w);
        }
    }
};

///
/// \brief per-case context handed to the case function.
///
class ctx_t
{
public:
    ctx_t(const args_t& args, int64_t index, uint64_t seed, std::map<std::string, int64_t>& counters,
          int64_t& samples_left, int64_t& nt_left)
        : args(args)
        , index(index)
        , seed(seed)
        , rng(seed)
        , m_counters(counters)
        , m_samples_left(samples_left)
        , m_nt_left(nt_left)
    {
    }

    const args_t& args;
    int64_t       index;
    uint64_t      seed;
    rng_t         rng;

    void violation(const std::string& key, const json_t& details)
    {
        ++m_violations;
        json_t j;
        j.kv("case", static_cast<long long>(index));
        char b[32];
        std::snprintf(b, sizeof(b), "0x%016llx", static_cast<unsigned long long>(seed));
        j.kv("case_seed", b);
        j.kv("mode", args.mode);
        j.kv("details", details);
        out_t::line("V " + key + "\t" + j.str());
    }

    void nontrivial(uint64_t hash)
    {
        count("nontrivial");
        if (m_nt_left > 0)
        {
            --m_nt_left;
            char b[32];
            std::snprintf(b, sizeof(b), "NT %016llx", static_cast<unsigned long long>(hash));
            out_t::line(b);
        }
        else
        {
            count("nontrivial_not_hashed");
        }
    }

    void count(const std::string& name, int64_t n = 1) { m_counters[name] += n; }

    void maxc(const std::string& name, int64_t v)
    {
        auto& c = m_counters["max:" + name];
        c       = std::max(c, v);
    }

    bool want_sample() const { return m_samples_left > 0 || args.verbose; }

    void sample(const json_t& j)
    {
        if (want_sample())
        {
            --m_samples_left;
            json_t s;
            s.kv("case", static_cast<long long>(index));
            s.kv("mode", args.mode);
            s.kv("decoded", j);
            out_t::line("S " + s.str());
        }
    }

    void inconclusive(const std::string& reason)
    {
        count("inconclusive");
        count("inconclusive:" + reason);
        out_t::line("INC " + reason);
    }

    int64_t violations() const { return m_violations; }

private:
    std::map<std::string, int64_t>& m_counters;
    int64_t&                        m_samples_left;
    int64_t&                        m_nt_left;
    int64_t                         m_violations{0};
};

inline void flush_counters(std::map<std::string, int64_t>& counters)
{
    for (auto& [name, value] : counters)
    {
        if (value != 0)
        {
            out_t::line((name.rfind("max:", 0) == 0 ? "M " + name.substr(4) : "C " + name) + " " +
                        std::to_string(value));
            if (name.rfind("max:", 0) != 0)
            {
                value = 0;
            }
        }
    }
}

inline uint64_t case_seed(const args_t& args, const char* property, int64_t index)
{
    return mix(mix(args.seed, hash_str(property) ^ hash_str(args.mode.c_str())), static_cast<uint64_t>(index));
}

///
/// \brief run the cases of this shard; `fn` is called once per case.
///
inline int run(const args_t& args, const char* property, const char* rule, const std::function<void(ctx_t&)>& fn)
{
    std::map<std::string, int64_t> counters;
    int64_t                        samples_left = 2;
    int64_t                        nt_left      = 40000;
    int64_t                        done         = 0;

    if (args.shard == 0 && args.from == 0)
    {
        out_t::line(std::string("RULE ") + rule);
    }

    const auto run_one = [&](int64_t index)
    {
        const auto seed = case_seed(args, property, index);
        char       b[64];
        std::snprintf(b, sizeof(b), "CASE %lld %016llx", static_cast<long long>(index),
                      static_cast<unsigned long long>(seed));
        out_t::line(b);
        ctx_t ctx(args, index, seed, counters, samples_left, nt_left);
        try
        {
            fn(ctx);
        }
        catch (const std::exception& e)
        {
            // an exception nobody expected: the harness catches every exception the property allows
            json_t j;
            j.kv("what", std::string(e.what()).substr(0, 400));
            j.kv("type", typeid(e).name());
            ctx.violation(std::string("unexpected-exception|") + typeid(e).name(), j);
        }
        ++done;
        counters["cases"] += 1;
        if ((done % 128) == 0)
        {
            flush_counters(counters);
        }
    };

    if (args.only >= 0)
    {
        run_one(args.only);
    }
    else
    {
        for (int64_t index = args.from; index < args.cases; ++index)
        {
            if ((index % args.nshards) == args.shard)
            {
                run_one(index);
            }
        }
    }
    flush_counters(counters);
    out_t::line("DONE " + std::to_string(done));
    std::fflush(stdout);
    return 0;
}
} // namespace vf
