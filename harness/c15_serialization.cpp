// C15 - serialization round-trips objects; truncated / corrupted streams are rejected.
//
// Monitor: every object is written through a recording streambuf (which logs every write call, so that tensor
// headers and payloads can be located inside any stream), read back into a fresh object and compared
// (parameters, fitted state, bit-identical predictions, byte-identical re-serialisation).  Then EVERY strict prefix
// of the stream and EVERY single-byte change (all 255 other values) of EVERY tensor payload byte is fed to the
// reader: it must end in an exception or a failed stream.  Tensor header bytes are corrupted too; those are judged
// on safety only (ASan/UBSan underneath, accepted tensors are touched element by element).
//
// modes: tensor | objects | models
#include "common/vf.h"
#include <array>
#include <cstdlib>
#include <cstring>
#include <istream>
#include <limits>
#include <memory>
#include <new>
#include <ostream>
#include <set>
#include <sstream>
#include <streambuf>
#include <nano/core/random.h>
#include <nano/core/stream.h>
#include <nano/dataset.h>
#include <nano/datasource.h>
#include <nano/feature.h>
#include <nano/gboost/enums.h>
#include <nano/gboost/model.h>
#include <nano/generator/elemwise_identity.h>
#include <nano/linear.h>
#include <nano/logger.h>
#include <nano/loss.h>
#include <nano/lsearch0.h>
#include <nano/lsearchk.h>
#include <nano/machine/params.h>
#include <nano/parameter.h>
#include <nano/solver.h>
#include <nano/splitter.h>
#include <nano/tensor/stream.h>
#include <nano/tuner.h>
#include <nano/wlearner.h>
#include <nano/wlearner/affine.h>
#include <nano/wlearner/criterion.h>
#include <nano/wlearner/dtree.h>
#include <nano/wlearner/hinge.h>
#include <nano/wlearner/stump.h>
#include <nano/wlearner/table.h>

// ------------------------------------------------------------------------------------------------
// global allocation functions: throw std::bad_alloc above 64 MiB (DESIGN 2.2); ASan's own operator new cannot throw.
// They forward to malloc/free, which ASan still intercepts and red-zones.
namespace
{
constexpr std::size_t g_alloc_cap = std::size_t(64) << 20;

void* capped_alloc(std::size_t n)
{
    if (n > g_alloc_cap)
    {
        throw std::bad_alloc{};
    }
    void* p = std::malloc(n != 0 ? n : 1);
    if (p == nullptr)
    {
        throw std::bad_alloc{};
    }
    return p;
}

void* capped_alloc(std::size_t n, std::size_t alignment)
{
    if (n > g_alloc_cap)
    {
        throw std::bad_alloc{};
    }
    void* p = nullptr;
    if (alignment < sizeof(void*))
    {
        alignment = sizeof(void*);
    }
    if (::posix_memalign(&p, alignment, n != 0 ? n : 1) != 0 || p == nullptr)
    {
        throw std::bad_alloc{};
    }
    return p;
}
} // namespace

void* operator new(std::size_t n)
{
    return capped_alloc(n);
}

void* operator new[](std::size_t n)
{
    return capped_alloc(n);
}

void* operator new(std::size_t n, const std::nothrow_t&) noexcept
{
    try
    {
        return capped_alloc(n);
    }
    catch (...)
    {
        return nullptr;
    }
}

void* operator new[](std::size_t n, const std::nothrow_t&) noexcept
{
    try
    {
        return capped_alloc(n);
    }
    catch (...)
    {
        return nullptr;
    }
}

void* operator new(std::size_t n, std::align_val_t a)
{
    return capped_alloc(n, static_cast<std::size_t>(a));
}

void* operator new[](std::size_t n, std::align_val_t a)
{
    return capped_alloc(n, static_cast<std::size_t>(a));
}

void operator delete(void* p) noexcept
{
    std::free(p);
}

void operator delete[](void* p) noexcept
{
    std::free(p);
}

void operator delete(void* p, std::size_t) noexcept
{
    std::free(p);
}

void operator delete[](void* p, std::size_t) noexcept
{
    std::free(p);
}

void operator delete(void* p, const std::nothrow_t&) noexcept
{
    std::free(p);
}

void operator delete[](void* p, const std::nothrow_t&) noexcept
{
    std::free(p);
}

void operator delete(void* p, std::align_val_t) noexcept
{
    std::free(p);
}

void operator delete[](void* p, std::align_val_t) noexcept
{
    std::free(p);
}

void operator delete(void* p, std::size_t, std::align_val_t) noexcept
{
    std::free(p);
}

void operator delete[](void* p, std::size_t, std::align_val_t) noexcept
{
    std::free(p);
}

using namespace nano;

namespace
{
// ------------------------------------------------------------------------------------------------
// streams

///
/// \brief output buffer that keeps the bytes and logs (offset, size) of every write call of the library.
///
class rec_buf_t final : public std::streambuf
{
public:
    std::string                            m_bytes;
    std::vector<std::pair<size_t, size_t>> m_writes;

protected:
    std::streamsize xsputn(const char* s, std::streamsize n) override
    {
        m_writes.emplace_back(m_bytes.size(), static_cast<size_t>(n));
        m_bytes.append(s, static_cast<size_t>(n));
        return n;
    }

    int_type overflow(int_type ch) override
    {
        if (!traits_type::eq_int_type(ch, traits_type::eof()))
        {
            m_writes.emplace_back(m_bytes.size(), 1U);
            m_bytes.push_back(traits_type::to_char_type(ch));
        }
        return traits_type::not_eof(ch);
    }
};

///
/// \brief input buffer over a memory block (no copy).
///
class mem_buf_t final : public std::streambuf
{
public:
    mem_buf_t(const char* data, size_t size)
    {
        auto* p = const_cast<char*>(data); // NOLINT: the get area is never written
        setg(p, p, p + size);
    }

    size_t remaining() const { return static_cast<size_t>(egptr() - gptr()); }
};

struct stream_t
{
    std::string                            m_bytes;
    std::vector<std::pair<size_t, size_t>> m_writes;
    bool                                   m_good{false};
    bool                                   m_threw{false};
    std::string                            m_what;
};

template <class twriter>
stream_t record(const twriter& writer)
{
    rec_buf_t    buf;
    std::ostream os(&buf);
    stream_t     s;
    try
    {
        writer(os);
    }
    catch (const std::exception& e)
    {
        s.m_threw = true;
        s.m_what  = e.what();
    }
    s.m_good   = static_cast<bool>(os) && !s.m_threw;
    s.m_bytes  = std::move(buf.m_bytes);
    s.m_writes = std::move(buf.m_writes);
    return s;
}

enum class outcome_t
{
    accepted,
    failed,
    exception
};

const char* name(outcome_t o)
{
    return o == outcome_t::accepted ? "accepted" : o == outcome_t::failed ? "failed-stream" : "exception";
}

///
/// \brief feed the given bytes to the reader: did it report a failure?
///
template <class treader>
outcome_t attempt(const char* data, size_t size, const treader& reader, size_t* remaining = nullptr)
{
    mem_buf_t    buf(data, size);
    std::istream is(&buf);
    try
    {
        reader(is);
    }
    catch (const std::exception&)
    {
        return outcome_t::exception;
    }
    catch (...)
    {
        return outcome_t::exception;
    }
    if (remaining != nullptr)
    {
        *remaining = buf.remaining();
    }
    return static_cast<bool>(is) ? outcome_t::accepted : outcome_t::failed;
}

std::string hex(const unsigned char* p, size_t n, size_t limit = 48)
{
    static const char* digits = "0123456789abcdef";
    std::string        s;
    for (size_t i = 0; i < n && i < limit; ++i)
    {
        s += digits[p[i] >> 4U];
        s += digits[p[i] & 15U];
    }
    if (n > limit)
    {
        s += "...";
    }
    return s;
}

// ------------------------------------------------------------------------------------------------
// the content hash of the wire format, re-implemented (include/nano/core/hash.h): only used to (a) recognise tensors
// inside object streams with certainty and (b) tell a hash COLLISION (the altered payload hashes to the stored value:
// weakness of the format) from a reader that does not verify the hash at all.  Never used to decide acceptance.
uint64_t ref_hash(const unsigned char* p, size_t count, size_t ssize, bool sign_extend)
{
    uint64_t h = 0;
    for (size_t i = 0; i < count; ++i, p += ssize)
    {
        uint64_t v = 0;
        std::memcpy(&v, p, ssize); // little endian host
        if (sign_extend && ssize < 8 && ((v >> (8 * ssize - 1)) & 1U) != 0U)
        {
            v |= ~uint64_t(0) << (8 * ssize);
        }
        h = h ^ (v + 0x9e3779b9 + (h << 6U) + (h >> 2U));
    }
    return h;
}

struct tensor_loc_t
{
    size_t   m_begin{0};        ///< offset of the version field
    size_t   m_hash{0};         ///< offset of the hash field
    size_t   m_payload{0};      ///< offset of the content
    size_t   m_payload_size{0}; ///<
    uint32_t m_rank{0};         ///<
    uint32_t m_ssize{0};        ///< sizeof(scalar)
    bool     m_sign_extend{false};
    bool     m_hash_known{false}; ///< the stored hash equals the reference hash of the content
};

///
/// \brief locate the serialized tensors from the logged write calls: version(4)=0, rank(4), rank x dim(4), sizeof(4),
///     hash(8), content(one write of exactly prod(dims)*sizeof bytes); accepted only if the stored hash verifies.
///
std::vector<tensor_loc_t> locate_tensors(const stream_t& s, int64_t& unverified)
{
    std::vector<tensor_loc_t> locs;
    const auto&               w = s.m_writes;
    const auto*               b = reinterpret_cast<const unsigned char*>(s.m_bytes.data()); // NOLINT
    const auto                u32 = [&](size_t off)
    {
        uint32_t v = 0;
        std::memcpy(&v, b + off, 4);
        return v;
    };
    for (size_t i = 0; i + 4 < w.size(); ++i)
    {
        if (w[i].second != 4 || u32(w[i].first) != 0U || w[i + 1].second != 4)
        {
            continue;
        }
        const auto rank = u32(w[i + 1].first);
        if (rank < 1 || rank > 8 || i + 4 + rank > w.size())
        {
            continue;
        }
        bool     ok    = true;
        uint64_t count = 1;
        for (uint32_t k = 0; k < rank && ok; ++k)
        {
            const auto& wd = w[i + 2 + k];
            int32_t     d  = 0;
            if (wd.second != 4)
            {
                ok = false;
                break;
            }
            std::memcpy(&d, b + wd.first, 4);
            ok = d >= 0 && d < (1 << 20);
            count *= static_cast<uint64_t>(std::max(d, 0));
            ok = ok && count < (uint64_t(1) << 32U);
        }
        if (!ok)
        {
            continue;
        }
        const auto& ws = w[i + 2 + rank];
        const auto& wh = w[i + 3 + rank];
        if (ws.second != 4 || wh.second != 8)
        {
            continue;
        }
        const auto ssize = u32(ws.first);
        if (ssize != 1 && ssize != 2 && ssize != 4 && ssize != 8)
        {
            continue;
        }
        tensor_loc_t loc;
        loc.m_begin        = w[i].first;
        loc.m_hash         = wh.first;
        loc.m_payload      = wh.first + 8;
        loc.m_payload_size = static_cast<size_t>(count) * ssize;
        loc.m_rank         = rank;
        loc.m_ssize        = ssize;
        if (loc.m_payload + loc.m_payload_size > s.m_bytes.size())
        {
            continue;
        }
        if (loc.m_payload_size > 0)
        {
            const auto ip = i + 4 + rank;
            if (ip >= w.size() || w[ip].first != loc.m_payload || w[ip].second != loc.m_payload_size)
            {
                continue;
            }
        }
        uint64_t stored = 0;
        std::memcpy(&stored, b + loc.m_hash, 8);
        if (stored == ref_hash(b + loc.m_payload, static_cast<size_t>(count), ssize, false))
        {
            loc.m_hash_known = true;
        }
        else if (stored == ref_hash(b + loc.m_payload, static_cast<size_t>(count), ssize, true))
        {
            loc.m_hash_known  = true;
            loc.m_sign_extend = true;
        }
        if (!loc.m_hash_known)
        {
            ++unverified;
            continue;
        }
        locs.push_back(loc);
        i += 3 + rank;
    }
    return locs;
}

// ------------------------------------------------------------------------------------------------
// per-case reporting: one violation line per key and case, the rest is counted

struct case_t
{
    explicit case_t(vf::ctx_t& c)
        : m_c(c)
    {
    }

    void violation(const std::string& key, const vf::json_t& details)
    {
        m_c.count("violations_seen");
        if (m_keys.insert(key).second)
        {
            m_c.violation(key, details);
        }
    }

    vf::ctx_t&            m_c;
    std::set<std::string> m_keys;
};

enum class header_values
{
    all,   ///< all 255 other values of every header byte
    masks, ///< four bit patterns and one random value per header byte
};

///
/// \brief the fault clauses: every strict prefix, every single-byte change of every tensor payload byte (exhaustive),
///     single-byte changes of every tensor header byte (safety only).
///
/// `reader(std::istream&)` builds a FRESH object, reads it and (when the read succeeded) touches what it read.
/// `forced` overrides the located tensors (tensor mode: the harness knows where the single payload is).
///
template <class treader>
void enumerate_faults(case_t& k, const std::string& object, const stream_t& s, const treader& reader,
                      header_values hvalues, const std::vector<tensor_loc_t>* forced = nullptr)
{
    auto&       c     = k.m_c;
    const auto& bytes = s.m_bytes;
    const auto  size  = bytes.size();

    // (1) every strict prefix; the prefix lives in an exactly-sized heap block
    for (size_t len = 0; len < size; ++len)
    {
        std::unique_ptr<char[]> block(new char[len != 0 ? len : 1]); // NOLINT
        std::memcpy(block.get(), bytes.data(), len);
        const auto o = attempt(block.get(), len, reader);
        c.count("truncations");
        c.count(o == outcome_t::exception ? "truncation_exception" : "truncation_failed_stream");
        if (o == outcome_t::accepted)
        {
            c.count("truncation_failed_stream", -1);
            vf::json_t j;
            j.kv("object", object).kv("prefix_length", static_cast<unsigned long long>(len));
            j.kv("stream_length", static_cast<unsigned long long>(size));
            j.kv("missing_bytes", static_cast<unsigned long long>(size - len));
            j.kv("stream_hex", hex(reinterpret_cast<const unsigned char*>(bytes.data()), size, 96)); // NOLINT
            k.violation("C15|truncation-accepted|" + object, j);
        }
    }

    // (2) tensor payloads and headers
    int64_t    unverified = 0;
    const auto located    = (forced != nullptr) ? *forced : locate_tensors(s, unverified);
    c.count("tensors_located", static_cast<int64_t>(located.size()));
    if (unverified > 0)
    {
        c.count("tensor_candidates_unverified", unverified);
        c.count("tensor_candidates_unverified:" + object, unverified);
    }

    std::string work = bytes;
    auto*       wb   = reinterpret_cast<unsigned char*>(work.data()); // NOLINT
    for (const auto& loc : located)
    {
        uint64_t stored = 0;
        std::memcpy(&stored, wb + loc.m_hash, 8);

        for (size_t i = loc.m_payload; i < loc.m_payload + loc.m_payload_size; ++i)
        {
            const auto old = wb[i];
            for (unsigned delta = 1; delta < 256; ++delta)
            {
                wb[i]        = static_cast<unsigned char>(old ^ delta);
                const auto o = attempt(work.data(), size, reader);
                c.count("payload_corruptions");
                if (o == outcome_t::accepted)
                {
                    const bool collision =
                        loc.m_hash_known && stored == ref_hash(wb + loc.m_payload, loc.m_payload_size / loc.m_ssize,
                                                               loc.m_ssize, loc.m_sign_extend);
                    c.count(collision ? "payload_corruption_hash_collision" : "payload_corruption_accepted");
                    const auto key =
                        std::string("C15|payload-corruption|") + (collision ? "hash-collision|" : "accepted|") + object;
                    if (k.m_keys.count(key) != 0U)
                    {
                        c.count("violations_seen");
                        continue; // already reported for this case (wb[i] is restored after the loop)
                    }
                    vf::json_t j;
                    j.kv("object", object).kv("stream_offset", static_cast<unsigned long long>(i));
                    j.kv("payload_offset", static_cast<unsigned long long>(i - loc.m_payload));
                    j.kv("payload_size", static_cast<unsigned long long>(loc.m_payload_size));
                    j.kv("sizeof_scalar", loc.m_ssize).kv("rank", loc.m_rank);
                    j.kv("old_byte", static_cast<unsigned>(old)).kv("new_byte", static_cast<unsigned>(wb[i]));
                    j.kv("stored_hash_matches_altered_content", collision);
                    j.kv("header_hex", hex(wb + loc.m_begin, loc.m_payload - loc.m_begin, 64));
                    j.kv("altered_payload_hex", hex(wb + loc.m_payload, loc.m_payload_size, 256));
                    k.violation(key, j);
                }
            }
            wb[i] = old;
        }

        for (size_t i = loc.m_begin; i < loc.m_payload; ++i)
        {
            const auto old = wb[i];
            const auto one = [&](unsigned delta)
            {
                wb[i]        = static_cast<unsigned char>(old ^ delta);
                const auto o = attempt(work.data(), size, reader);
                c.count("header_corruptions");
                c.count(o == outcome_t::accepted ? "header_corruption_accepted" : "header_corruption_rejected");
            };
            // the three upper bytes of a dimension only decide how many MiB/GiB the reader asks the allocator for:
            // a handful of values there (every value would only measure the allocator, DESIGN 3/C15 FA)
            const auto rel      = i - loc.m_begin;
            const bool dim_high = rel >= 8 && rel < 8 + 4 * static_cast<size_t>(loc.m_rank) && ((rel - 8) % 4) != 0;
            if (hvalues == header_values::all && !dim_high)
            {
                for (unsigned delta = 1; delta < 256; ++delta)
                {
                    one(delta);
                }
            }
            else
            {
                for (const unsigned delta : {0x01U, 0x80U, 0xFFU, 0x7FU})
                {
                    one(delta);
                }
                one(static_cast<unsigned>(c.rng.integer(1, 255)));
            }
            wb[i] = old;
        }
    }
}

///
/// \brief the round-trip byte clauses shared by all objects: the writer succeeded, the reader of the complete stream
///     succeeded and consumed it entirely.
///
bool check_written(case_t& k, const std::string& object, const stream_t& s)
{
    k.m_c.count("writes");
    if (!s.m_good || s.m_bytes.empty())
    {
        vf::json_t j;
        j.kv("object", object).kv("threw", s.m_threw).kv("what", s.m_what);
        k.violation("C15|write-failed|" + object, j);
        return false;
    }
    return true;
}

template <class T>
bool same_bits(const T& a, const T& b)
{
    return std::memcmp(&a, &b, sizeof(T)) == 0;
}

template <class ttensor>
bool same_tensor(const ttensor& a, const ttensor& b)
{
    return a.dims() == b.dims() &&
           (a.size() == 0 ||
            std::memcmp(a.data(), b.data(), static_cast<size_t>(a.size()) * sizeof(*a.data())) == 0);
}

// ------------------------------------------------------------------------------------------------
// mode: tensor

template <class T>
const char* scalar_name()
{
    if constexpr (std::is_same_v<T, int8_t>) return "int8";
    else if constexpr (std::is_same_v<T, int16_t>) return "int16";
    else if constexpr (std::is_same_v<T, int32_t>) return "int32";
    else if constexpr (std::is_same_v<T, int64_t>) return "int64";
    else if constexpr (std::is_same_v<T, uint8_t>) return "uint8";
    else if constexpr (std::is_same_v<T, uint16_t>) return "uint16";
    else if constexpr (std::is_same_v<T, uint32_t>) return "uint32";
    else if constexpr (std::is_same_v<T, uint64_t>) return "uint64";
    else if constexpr (std::is_same_v<T, float>) return "float32";
    else return "float64";
}

template <class T>
T gen_scalar(vf::rng_t& rng, int style)
{
    using lim = std::numeric_limits<T>;
    switch (style)
    {
    case 0: // arbitrary bit patterns (NaN payloads, denormals, ...)
    {
        const uint64_t r = rng.next();
        T              v;
        std::memcpy(&v, &r, sizeof(T));
        return v;
    }
    case 1: // tiny values, many repeats
        if constexpr (std::is_signed_v<T>)
        {
            return static_cast<T>(rng.integer(-2, 2));
        }
        else
        {
            return static_cast<T>(rng.integer(0, 3));
        }
    case 2: return static_cast<T>(0);
    case 3: // extremes
    {
        const auto r = rng.integer(0, 7);
        if constexpr (std::is_floating_point_v<T>)
        {
            const T values[] = {lim::max(),       lim::lowest(),  lim::min(),         lim::denorm_min(),
                                lim::infinity(), -lim::infinity(), lim::quiet_NaN(), static_cast<T>(-0.0)};
            return values[r];
        }
        else
        {
            const T values[] = {lim::max(), lim::min(), static_cast<T>(lim::max() - 1), static_cast<T>(lim::min() + 1),
                                static_cast<T>(1), static_cast<T>(0), static_cast<T>(lim::max() / 2), static_cast<T>(-1)};
            return values[r];
        }
    }
    default:
        if constexpr (std::is_floating_point_v<T>)
        {
            return static_cast<T>(rng.uniform(-10.0, 10.0));
        }
        else if constexpr (std::is_signed_v<T>)
        {
            return static_cast<T>(rng.integer(-100, 100));
        }
        else
        {
            return static_cast<T>(rng.integer(0, 200));
        }
    }
}

template <class T, size_t R>
void tensor_case(vf::ctx_t& c, size_t max_payload)
{
    auto&  rng = c.rng;
    case_t k(c);

    // shape: every dim in 0..6; the element count is shrunk until the payload fits the enumeration bound
    tensor_dims_t<R> dims;
    for (auto& d : dims)
    {
        d = rng.integer(1, 6);
    }
    if (rng.chance(0.10))
    {
        dims[static_cast<size_t>(rng.integer(0, static_cast<int64_t>(R) - 1))] = 0;
    }
    while (static_cast<size_t>(::nano::size(dims)) * sizeof(T) > max_payload)
    {
        auto& d = dims[static_cast<size_t>(rng.integer(0, static_cast<int64_t>(R) - 1))];
        if (d > 1)
        {
            --d;
        }
    }

    tensor_mem_t<T, R> t(dims);
    const int          style = static_cast<int>(rng.integer(0, 5));
    for (tensor_size_t i = 0; i < t.size(); ++i)
    {
        t(i) = gen_scalar<T>(rng, style == 5 ? static_cast<int>(rng.integer(0, 4)) : style);
    }
    const auto object  = std::string("tensor");
    const auto payload = static_cast<size_t>(t.size()) * sizeof(T);

    const auto describe = [&]()
    {
        vf::json_t j;
        j.kv("scalar", scalar_name<T>()).kv("rank", static_cast<unsigned long long>(R));
        j.arr("dims", dims.data(), R).kv("fill_style", style);
        j.kv("payload_hex", hex(reinterpret_cast<const unsigned char*>(t.data()), payload, 128)); // NOLINT
        return j;
    };

    const auto s = record([&](std::ostream& os) { ::nano::write(os, t); });
    if (!check_written(k, object, s))
    {
        return;
    }

    // the same data written through a constant view gives the same bytes
    {
        const auto view = map_tensor(static_cast<const T*>(t.data()), dims);
        const auto sv   = record([&](std::ostream& os) { ::nano::write(os, view); });
        c.count("view_writes");
        if (!sv.m_good || sv.m_bytes != s.m_bytes)
        {
            k.violation("C15|roundtrip|view-writes-other-bytes|tensor", describe());
        }
    }

    // round trip
    {
        tensor_mem_t<T, R> r;
        size_t             remaining = 0;
        const auto         o =
            attempt(s.m_bytes.data(), s.m_bytes.size(), [&](std::istream& is) { ::nano::read(is, r); }, &remaining);
        c.count("roundtrips");
        if (o != outcome_t::accepted)
        {
            k.violation("C15|roundtrip|read-failed|tensor", describe().kv("outcome", name(o)));
            return;
        }
        if (!same_tensor(t, r) || remaining != 0)
        {
            auto j = describe();
            j.arr("read_dims", r.dims().data(), R).kv("unread_bytes", static_cast<unsigned long long>(remaining));
            k.violation("C15|roundtrip|content-differs|tensor", j);
            return;
        }
        const auto s2 = record([&](std::ostream& os) { ::nano::write(os, r); });
        c.count("reserializations");
        if (!s2.m_good || s2.m_bytes != s.m_bytes)
        {
            k.violation("C15|roundtrip|reserialization-differs|tensor", describe());
        }
    }

    // where is the payload?  The harness wrote one tensor: the content is the tail of the stream.
    if (s.m_bytes.size() < payload + 8 ||
        (payload > 0 && std::memcmp(s.m_bytes.data() + (s.m_bytes.size() - payload), t.data(), payload) != 0))
    {
        c.inconclusive("tensor payload is not the tail of the stream");
        return;
    }
    tensor_loc_t loc;
    loc.m_begin        = 0;
    loc.m_payload      = s.m_bytes.size() - payload;
    loc.m_payload_size = payload;
    loc.m_hash         = loc.m_payload - 8;
    loc.m_rank         = static_cast<uint32_t>(R);
    loc.m_ssize        = static_cast<uint32_t>(sizeof(T));
    loc.m_sign_extend  = std::is_integral_v<T> && std::is_signed_v<T>;
    {
        uint64_t stored = 0;
        std::memcpy(&stored, s.m_bytes.data() + loc.m_hash, 8);
        loc.m_hash_known = stored == ref_hash(reinterpret_cast<const unsigned char*>(t.data()), // NOLINT
                                              static_cast<size_t>(t.size()), sizeof(T), loc.m_sign_extend);
        c.count(loc.m_hash_known ? "hash_field_recognised" : "hash_field_not_recognised");
    }
    const std::vector<tensor_loc_t> forced{loc};

    const auto reader = [](std::istream& is)
    {
        tensor_mem_t<T, R> r;
        ::nano::read(is, r);
        if (is && r.size() > 0)
        {
            // an accepted tensor must own what its dimensions claim: touch every element (ASan watches)
            volatile unsigned char    sink = 0;
            const auto*               p    = reinterpret_cast<const unsigned char*>(r.data()); // NOLINT
            const auto                n    = static_cast<size_t>(r.size()) * sizeof(T);
            unsigned char             x    = 0;
            for (size_t i = 0; i < n; ++i)
            {
                x = static_cast<unsigned char>(x ^ p[i]);
            }
            sink = x;
            (void)sink;
        }
    };
    enumerate_faults(k, object, s, reader, header_values::all, &forced);

    c.maxc("stream_bytes", static_cast<int64_t>(s.m_bytes.size()));
    if (payload > 0)
    {
        uint64_t h = vf::hash_str(scalar_name<T>());
        h          = vf::hash_bytes(dims.data(), sizeof(dims), h);
        h          = vf::hash_bytes(t.data(), payload, h);
        c.nontrivial(h);
    }
    if (c.want_sample())
    {
        c.sample(describe().kv("stream_bytes", static_cast<unsigned long long>(s.m_bytes.size())));
    }
}

template <class T>
void tensor_case_rank(vf::ctx_t& c, size_t rank, size_t max_payload)
{
    switch (rank)
    {
    case 1: tensor_case<T, 1>(c, max_payload); break;
    case 2: tensor_case<T, 2>(c, max_payload); break;
    case 3: tensor_case<T, 3>(c, max_payload); break;
    case 4: tensor_case<T, 4>(c, max_payload); break;
    default: tensor_case<T, 5>(c, max_payload); break;
    }
}

void run_tensor_case(vf::ctx_t& c, size_t max_payload)
{
    const auto type = c.rng.integer(0, 9);
    const auto rank = static_cast<size_t>(c.rng.integer(1, 5));
    switch (type)
    {
    case 0: tensor_case_rank<int8_t>(c, rank, max_payload); break;
    case 1: tensor_case_rank<int16_t>(c, rank, max_payload); break;
    case 2: tensor_case_rank<int32_t>(c, rank, max_payload); break;
    case 3: tensor_case_rank<int64_t>(c, rank, max_payload); break;
    case 4: tensor_case_rank<uint8_t>(c, rank, max_payload); break;
    case 5: tensor_case_rank<uint16_t>(c, rank, max_payload); break;
    case 6: tensor_case_rank<uint32_t>(c, rank, max_payload); break;
    case 7: tensor_case_rank<uint64_t>(c, rank, max_payload); break;
    case 8: tensor_case_rank<float>(c, rank, max_payload); break;
    default: tensor_case_rank<double>(c, rank, max_payload); break;
    }
}

// ------------------------------------------------------------------------------------------------
// mode: objects (parameters, features, factory objects, un-fitted models)

std::string gen_string(vf::rng_t& rng, int64_t max_len = 24)
{
    const auto  len   = rng.chance(0.1) ? 0 : rng.integer(1, max_len);
    const auto  style = rng.integer(0, 3);
    std::string s;
    for (int64_t i = 0; i < len; ++i)
    {
        if (style == 0)
        {
            s += static_cast<char>(rng.integer(0, 255)); // any byte, NUL included
        }
        else if (style == 1)
        {
            s += static_cast<char>(rng.integer(32, 126));
        }
        else
        {
            static const char alphabet[] = "abcdefghijklmnopqrstuvwxyz0123456789_:-";
            s += alphabet[rng.integer(0, static_cast<int64_t>(sizeof(alphabet)) - 2)];
        }
    }
    return s;
}

LEorLT gen_comp(vf::rng_t& rng)
{
    return rng.chance(0.5) ? LEorLT{LE} : LEorLT{LT};
}

int64_t gen_int_between(vf::rng_t& rng, int64_t lo, int64_t hi) // inclusive, lo <= hi, no signed overflow
{
    const auto span = static_cast<uint64_t>(hi) - static_cast<uint64_t>(lo);
    const auto r    = (span == ~uint64_t(0)) ? rng.next() : rng.next() % (span + 1);
    return static_cast<int64_t>(static_cast<uint64_t>(lo) + r);
}

bool same_comp(const LEorLT& a, const LEorLT& b)
{
    return a.index() == b.index();
}

///
/// \brief field-by-field, bit-exact comparison of two parameters (independent of the library's operator==).
///
bool same_param(const parameter_t& a, const parameter_t& b)
{
    if (a.name() != b.name() || a.storage().index() != b.storage().index())
    {
        return false;
    }
    return std::visit(
        overloaded{[&](const std::monostate&) { return true; },
                   [&](const parameter_t::enum_t& x)
                   {
                       const auto& y = std::get<parameter_t::enum_t>(b.storage());
                       return x.m_value == y.m_value && x.m_domain == y.m_domain;
                   },
                   [&](const parameter_t::irange_t& x)
                   {
                       const auto& y = std::get<parameter_t::irange_t>(b.storage());
                       return x.m_value == y.m_value && x.m_min == y.m_min && x.m_max == y.m_max &&
                              same_comp(x.m_mincomp, y.m_mincomp) && same_comp(x.m_maxcomp, y.m_maxcomp);
                   },
                   [&](const parameter_t::frange_t& x)
                   {
                       const auto& y = std::get<parameter_t::frange_t>(b.storage());
                       return same_bits(x.m_value, y.m_value) && same_bits(x.m_min, y.m_min) &&
                              same_bits(x.m_max, y.m_max) && same_comp(x.m_mincomp, y.m_mincomp) &&
                              same_comp(x.m_maxcomp, y.m_maxcomp);
                   },
                   [&](const parameter_t::iprange_t& x)
                   {
                       const auto& y = std::get<parameter_t::iprange_t>(b.storage());
                       return x.m_value1 == y.m_value1 && x.m_value2 == y.m_value2 && x.m_min == y.m_min &&
                              x.m_max == y.m_max && same_comp(x.m_mincomp, y.m_mincomp) &&
                              same_comp(x.m_valcomp, y.m_valcomp) && same_comp(x.m_maxcomp, y.m_maxcomp);
                   },
                   [&](const parameter_t::fprange_t& x)
                   {
                       const auto& y = std::get<parameter_t::fprange_t>(b.storage());
                       return same_bits(x.m_value1, y.m_value1) && same_bits(x.m_value2, y.m_value2) &&
                              same_bits(x.m_min, y.m_min) && same_bits(x.m_max, y.m_max) &&
                              same_comp(x.m_mincomp, y.m_mincomp) && same_comp(x.m_valcomp, y.m_valcomp) &&
                              same_comp(x.m_maxcomp, y.m_maxcomp);
                   },
                   [&](const string_t& x) { return x == std::get<string_t>(b.storage()); }},
        a.storage());
}

bool same_params(const parameters_t& a, const parameters_t& b)
{
    if (a.size() != b.size())
    {
        return false;
    }
    for (size_t i = 0; i < a.size(); ++i)
    {
        if (!same_param(a[i], b[i]) || !(a[i] == b[i]) || (a[i] != b[i]))
        {
            return false;
        }
    }
    return true;
}

bool same_configurable(const configurable_t& a, const configurable_t& b)
{
    return same_params(a.parameters(), b.parameters()) && a.major_version() == b.major_version() &&
           a.minor_version() == b.minor_version() && a.patch_version() == b.patch_version();
}

std::string param_text(const parameter_t& p)
{
    std::ostringstream os;
    os << p;
    return os.str();
}

std::string params_text(const configurable_t& o)
{
    std::string s;
    for (const auto& p : o.parameters())
    {
        s += param_text(p) + "; ";
    }
    return s.substr(0, 600);
}

bool same_feature(const feature_t& a, const feature_t& b)
{
    return a.type() == b.type() && a.dims() == b.dims() && a.name() == b.name() && a.labels() == b.labels() &&
           (a == b) && !(a != b);
}

bool same_features(const features_t& a, const features_t& b)
{
    if (a.size() != b.size())
    {
        return false;
    }
    for (size_t i = 0; i < a.size(); ++i)
    {
        if (!same_feature(a[i], b[i]))
        {
            return false;
        }
    }
    return true;
}

parameter_t gen_parameter(vf::rng_t& rng, std::string& kind)
{
    const auto name = gen_string(rng);
    switch (rng.integer(0, 6))
    {
    case 0:
    {
        kind = "enum";
        switch (rng.integer(0, 4))
        {
        case 0: return parameter_t::make_enum(name, rng.pick(std::vector<gboost_shrinkage>{gboost_shrinkage::off, gboost_shrinkage::global, gboost_shrinkage::local}));
        case 1: return parameter_t::make_enum(name, rng.pick(std::vector<gboost_wscale>{gboost_wscale::gboost, gboost_wscale::tboost}));
        case 2: return parameter_t::make_enum(name, rng.pick(std::vector<scaling_type>{scaling_type::none, scaling_type::mean, scaling_type::minmax, scaling_type::standard}));
        case 3: return parameter_t::make_enum(name, rng.pick(std::vector<feature_type>{feature_type::int8, feature_type::uint64, feature_type::float32, feature_type::sclass, feature_type::mclass}));
        default: return parameter_t::make_enum(name, rng.pick(std::vector<wlearner_criterion>{wlearner_criterion::rss, wlearner_criterion::aic, wlearner_criterion::aicc, wlearner_criterion::bic}));
        }
    }
    case 1:
    {
        kind           = "integer";
        const auto big = rng.chance(0.2);
        const auto min = big ? std::numeric_limits<int64_t>::min() + rng.integer(0, 3) : rng.integer(-1000000, 1000000);
        const auto max = big ? std::numeric_limits<int64_t>::max() - rng.integer(0, 3) : min + rng.integer(4, 2000000);
        const auto val = rng.chance(0.2) ? min + 1 : rng.chance(0.25) ? max - 1 : gen_int_between(rng, min + 1, max - 1);
        return parameter_t::make_integer(name, min, gen_comp(rng), val, gen_comp(rng), max);
    }
    case 2:
    {
        kind             = "scalar";
        const auto scale = rng.loguniform(1e-12, 1e12);
        const auto min   = rng.chance(0.05) ? -std::numeric_limits<scalar_t>::infinity() : scale * rng.uniform(-1.0, 1.0);
        const auto max   = rng.chance(0.05) ? std::numeric_limits<scalar_t>::infinity()
                                            : (std::isfinite(min) ? min : 0.0) + scale * rng.uniform(0.1, 2.0);
        const auto lo    = std::isfinite(min) ? min : (std::isfinite(max) ? max - scale : -scale);
        const auto hi    = std::isfinite(max) ? max : lo + scale;
        const auto val   = lo + (hi - lo) * rng.uniform(0.05, 0.95);
        return parameter_t::make_scalar(name, min, gen_comp(rng), val, gen_comp(rng), max);
    }
    case 3:
    {
        kind           = "integer-pair";
        const auto min = rng.integer(-1000000, 1000000);
        const auto max = min + rng.integer(6, 2000000);
        const auto v1  = gen_int_between(rng, min + 1, max - 3);
        const auto v2  = gen_int_between(rng, v1 + 1, max - 1);
        return parameter_t::make_integer_pair(name, min, gen_comp(rng), v1, gen_comp(rng), v2, gen_comp(rng), max);
    }
    case 4:
    {
        kind             = "scalar-pair";
        const auto scale = rng.loguniform(1e-9, 1e9);
        const auto min   = scale * rng.uniform(-1.0, 1.0);
        const auto max   = min + scale * rng.uniform(0.5, 2.0);
        const auto u1    = rng.uniform(0.05, 0.45);
        const auto u2    = rng.uniform(0.55, 0.95);
        return parameter_t::make_scalar_pair(name, min, gen_comp(rng), min + (max - min) * u1, gen_comp(rng),
                                             min + (max - min) * u2, gen_comp(rng), max);
    }
    case 5: kind = "string"; return parameter_t::make_string(name, gen_string(rng, 40));
    default: kind = "empty"; return parameter_t{};
    }
}

feature_t gen_feature(vf::rng_t& rng)
{
    auto       feature = feature_t{gen_string(rng)};
    const auto labels  = [&]()
    {
        strings_t ls(static_cast<size_t>(rng.integer(0, 6)));
        for (auto& l : ls)
        {
            l = gen_string(rng, 10);
        }
        return ls;
    };
    switch (rng.integer(0, 3))
    {
    case 0: feature.sclass(labels()); break;
    case 1: feature.mclass(labels()); break;
    case 2: break; // default state
    default:
        feature.scalar(static_cast<feature_type>(rng.integer(0, 9)),
                       make_dims(rng.integer(1, 4), rng.integer(1, 4), rng.integer(1, 3)));
        break;
    }
    return feature;
}

///
/// \brief move every parameter of a configurable object to a random point of its own domain.
///
void fuzz_parameters(vf::rng_t& rng, configurable_t& object, double probability)
{
    const auto params = object.parameters(); // copy: the domains
    for (const auto& param : params)
    {
        if (!rng.chance(probability))
        {
            continue;
        }
        auto& target = object.parameter(param.name());
        try
        {
            std::visit(overloaded{[&](const std::monostate&) {},
                                  [&](const parameter_t::enum_t& e)
                                  {
                                      if (!e.m_domain.empty())
                                      {
                                          target = string_t{rng.pick(e.m_domain)};
                                      }
                                  },
                                  [&](const parameter_t::irange_t& r)
                                  {
                                      const auto lo = r.m_min + (r.m_mincomp.index() == 1 ? 1 : 0);
                                      const auto hi = r.m_max - (r.m_maxcomp.index() == 1 ? 1 : 0);
                                      if (lo <= hi)
                                      {
                                          target = rng.chance(0.2) ? lo : rng.chance(0.25) ? hi : gen_int_between(rng, lo, hi);
                                      }
                                  },
                                  [&](const parameter_t::frange_t& r)
                                  {
                                      const auto u = rng.chance(0.1) ? 0.0 : rng.chance(0.1) ? 1.0 : rng.u01();
                                      const auto v = r.m_min * (1.0 - u) + r.m_max * u;
                                      if (std::isfinite(v))
                                      {
                                          target = v; // the library rejects it when outside (strict bounds)
                                      }
                                  },
                                  [&](const parameter_t::iprange_t& r)
                                  {
                                      const auto lo = r.m_min + 1;
                                      const auto hi = r.m_max - 1;
                                      if (lo < hi)
                                      {
                                          const auto v1 = gen_int_between(rng, lo, hi - 1);
                                          const auto v2 = gen_int_between(rng, v1 + 1, hi);
                                          target        = std::make_tuple(v1, v2);
                                      }
                                  },
                                  [&](const parameter_t::fprange_t& r)
                                  {
                                      const auto u1 = rng.uniform(0.01, 0.49);
                                      const auto u2 = rng.uniform(0.51, 0.99);
                                      const auto v1 = r.m_min * (1.0 - u1) + r.m_max * u1;
                                      const auto v2 = r.m_min * (1.0 - u2) + r.m_max * u2;
                                      if (std::isfinite(v1) && std::isfinite(v2))
                                      {
                                          target = std::make_tuple(v1, v2);
                                      }
                                  },
                                  [&](const string_t&) { target = gen_string(rng, 30); }},
                       param.storage());
        }
        catch (const std::exception&)
        {
            // out of the domain after all (open bound hit exactly): the previous value stays
        }
    }
}

///
/// \brief round trip + faults of one value type with member or free read/write (parameter, feature, vectors of them).
///
template <class tvalue, class tsame, class tdescribe>
void check_value(case_t& k, const std::string& object, const tvalue& value, const tsame& same, const tdescribe& describe)
{
    auto&      c = k.m_c;
    const auto s = record([&](std::ostream& os) { ::nano::write(os, value); });
    if (!check_written(k, object, s))
    {
        return;
    }
    {
        tvalue     copy{};
        size_t     remaining = 0;
        const auto o =
            attempt(s.m_bytes.data(), s.m_bytes.size(), [&](std::istream& is) { ::nano::read(is, copy); }, &remaining);
        c.count("roundtrips");
        if (o != outcome_t::accepted)
        {
            k.violation("C15|roundtrip|read-failed|" + object, describe().kv("outcome", name(o)));
            return;
        }
        if (!same(value, copy) || remaining != 0)
        {
            k.violation("C15|roundtrip|content-differs|" + object,
                        describe().kv("unread_bytes", static_cast<unsigned long long>(remaining)));
            return;
        }
        const auto s2 = record([&](std::ostream& os) { ::nano::write(os, copy); });
        c.count("reserializations");
        if (!s2.m_good || s2.m_bytes != s.m_bytes)
        {
            k.violation("C15|roundtrip|reserialization-differs|" + object, describe());
        }
    }
    enumerate_faults(
        k, object, s,
        [](std::istream& is)
        {
            tvalue fresh{};
            ::nano::read(is, fresh);
        },
        header_values::masks);
    c.maxc("stream_bytes", static_cast<int64_t>(s.m_bytes.size()));
}

///
/// \brief a factory object: member write/read into a fresh object of the same id, factory-style write/read
///     (type id + object) and a vector of factory objects.
///
template <class tobject>
void check_factory(case_t& k, const char* family, uint64_t& nt_hash, vf::json_t& decoded)
{
    auto&      c   = k.m_c;
    auto&      rng = c.rng;
    const auto ids = tobject::all().ids();
    const auto id  = rng.pick(ids);
    auto       obj = tobject::all().get(id);
    const bool fuzzed = rng.chance(0.75);
    if (fuzzed)
    {
        fuzz_parameters(rng, *obj, rng.uniform(0.3, 1.0));
    }
    const auto object   = std::string(family) + ":" + id;
    const auto describe = [&]()
    {
        vf::json_t j;
        j.kv("object", object).kv("fuzzed", fuzzed).kv("parameters", params_text(*obj));
        return j;
    };
    decoded = describe();

    // (a) member functions
    const auto s = record([&](std::ostream& os) { obj->write(os); });
    if (!check_written(k, object, s))
    {
        return;
    }
    {
        auto       copy      = tobject::all().get(id);
        size_t     remaining = 0;
        const auto o = attempt(s.m_bytes.data(), s.m_bytes.size(), [&](std::istream& is) { copy->read(is); }, &remaining);
        c.count("roundtrips");
        if (o != outcome_t::accepted)
        {
            k.violation("C15|roundtrip|read-failed|" + object, describe().kv("outcome", name(o)));
            return;
        }
        if (!same_configurable(*obj, *copy) || remaining != 0)
        {
            k.violation("C15|roundtrip|parameters-differ|" + object, describe().kv("read_back", params_text(*copy)));
            return;
        }
        const auto s2 = record([&](std::ostream& os) { copy->write(os); });
        c.count("reserializations");
        if (!s2.m_good || s2.m_bytes != s.m_bytes)
        {
            k.violation("C15|roundtrip|reserialization-differs|" + object, describe());
        }
    }
    enumerate_faults(
        k, object, s,
        [&](std::istream& is)
        {
            auto fresh = tobject::all().get(id);
            fresh->read(is);
        },
        header_values::masks);

    // (b) type id + object
    const auto sf = record([&](std::ostream& os) { ::nano::write(os, obj); });
    if (!check_written(k, object + "|factory", sf))
    {
        return;
    }
    {
        std::unique_ptr<tobject> copy;
        size_t                   remaining = 0;
        const auto               o =
            attempt(sf.m_bytes.data(), sf.m_bytes.size(), [&](std::istream& is) { ::nano::read(is, copy); }, &remaining);
        c.count("roundtrips");
        if (o != outcome_t::accepted || !copy)
        {
            k.violation("C15|roundtrip|read-failed|factory|" + object, describe().kv("outcome", name(o)));
            return;
        }
        if (copy->type_id() != id || !same_configurable(*obj, *copy) || remaining != 0)
        {
            k.violation("C15|roundtrip|parameters-differ|factory|" + object,
                        describe().kv("read_id", copy->type_id()).kv("read_back", params_text(*copy)));
            return;
        }
    }
    enumerate_faults(
        k, "factory|" + object, sf,
        [&](std::istream& is)
        {
            std::unique_ptr<tobject> fresh;
            ::nano::read(is, fresh);
        },
        header_values::masks);

    // (c) a vector of factory objects (the nested reader of the models)
    std::vector<std::unique_ptr<tobject>> many;
    for (int64_t i = 0, n = rng.integer(0, 3); i < n; ++i)
    {
        many.emplace_back(tobject::all().get(rng.pick(ids)));
        fuzz_parameters(rng, *many.back(), 0.5);
    }
    many.emplace_back(obj->clone());
    const auto sv = record([&](std::ostream& os) { ::nano::write(os, many); });
    if (!check_written(k, std::string(family) + "|vector", sv))
    {
        return;
    }
    {
        std::vector<std::unique_ptr<tobject>> copy;
        size_t                                remaining = 0;
        const auto                            o =
            attempt(sv.m_bytes.data(), sv.m_bytes.size(), [&](std::istream& is) { ::nano::read(is, copy); }, &remaining);
        c.count("roundtrips");
        bool same = o == outcome_t::accepted && copy.size() == many.size() && remaining == 0;
        for (size_t i = 0; same && i < many.size(); ++i)
        {
            same = copy[i] && copy[i]->type_id() == many[i]->type_id() && same_configurable(*many[i], *copy[i]);
        }
        if (!same)
        {
            k.violation(std::string("C15|roundtrip|vector-differs|") + family,
                        describe().kv("outcome", name(o)).kv("count", static_cast<unsigned long long>(many.size())));
            return;
        }
    }
    enumerate_faults(
        k, std::string(family) + "|vector", sv,
        [&](std::istream& is)
        {
            std::vector<std::unique_ptr<tobject>> fresh;
            ::nano::read(is, fresh);
        },
        header_values::masks);

    c.maxc("stream_bytes", static_cast<int64_t>(sv.m_bytes.size()));
    nt_hash = vf::hash_bytes(sv.m_bytes.data(), sv.m_bytes.size(), vf::hash_str(object.c_str()));
}

rwlearners_t gen_prototypes(vf::rng_t& rng, int64_t min_count, int64_t max_count, const strings_t& ids)
{
    rwlearners_t protos;
    for (int64_t i = 0, n = rng.integer(min_count, max_count); i < n; ++i)
    {
        protos.emplace_back(wlearner_t::all().get(rng.pick(ids)));
        fuzz_parameters(rng, *protos.back(), 0.5);
    }
    return protos;
}

bool same_wlearner_configs(const rwlearners_t& a, const rwlearners_t& b)
{
    if (a.size() != b.size())
    {
        return false;
    }
    for (size_t i = 0; i < a.size(); ++i)
    {
        if (!a[i] || !b[i] || a[i]->type_id() != b[i]->type_id() || !same_configurable(*a[i], *b[i]))
        {
            return false;
        }
    }
    return true;
}

void run_objects_case(vf::ctx_t& c)
{
    auto&      rng = c.rng;
    case_t     k(c);
    uint64_t   nt = 0;
    vf::json_t decoded;
    const auto what = rng.integer(0, 13);
    switch (what)
    {
    case 0:
    case 1:
    {
        std::string kind;
        const auto  param    = gen_parameter(rng, kind);
        const auto  describe = [&]()
        {
            vf::json_t j;
            j.kv("object", "parameter:" + kind).kv("parameter", param_text(param));
            return j;
        };
        c.count("objects:parameter");
        check_value(k, "parameter:" + kind, param,
                    [](const parameter_t& a, const parameter_t& b) { return same_param(a, b) && a == b && !(a != b); },
                    describe);
        decoded = describe();
        nt      = vf::hash_str(param_text(param).c_str()) ^ vf::hash_str(kind.c_str());
        break;
    }
    case 2:
    {
        parameters_t params(static_cast<size_t>(rng.integer(0, 5)));
        std::string  kinds;
        for (auto& p : params)
        {
            std::string kind;
            p = gen_parameter(rng, kind);
            kinds += kind + ",";
        }
        const auto describe = [&]()
        {
            vf::json_t j;
            j.kv("object", "parameters").kv("kinds", kinds);
            return j;
        };
        c.count("objects:parameters");
        check_value(k, "parameters", params, same_params, describe);
        decoded = describe();
        nt      = vf::hash_str(kinds.c_str()) ^ rng.next();
        break;
    }
    case 3:
    {
        const auto feature  = gen_feature(rng);
        const auto describe = [&]()
        {
            std::ostringstream os;
            os << feature;
            vf::json_t j;
            j.kv("object", "feature").kv("feature", os.str());
            return j;
        };
        c.count("objects:feature");
        check_value(k, "feature", feature, same_feature, describe);
        decoded = describe();
        nt      = vf::hash_str(describe().str().c_str());
        break;
    }
    case 4:
    {
        features_t features(static_cast<size_t>(rng.integer(0, 4)));
        for (auto& f : features)
        {
            f = gen_feature(rng);
        }
        const auto describe = [&]()
        {
            vf::json_t j;
            j.kv("object", "features").kv("count", static_cast<unsigned long long>(features.size()));
            return j;
        };
        c.count("objects:features");
        check_value(k, "features", features, same_features, describe);
        decoded = describe();
        nt      = features.empty() ? 0 : (vf::hash_str(features[0].name().c_str()) ^ rng.next());
        break;
    }
    case 5: c.count("objects:solver"); check_factory<solver_t>(k, "solver", nt, decoded); break;
    case 6: c.count("objects:loss"); check_factory<loss_t>(k, "loss", nt, decoded); break;
    case 7: c.count("objects:splitter"); check_factory<splitter_t>(k, "splitter", nt, decoded); break;
    case 8: c.count("objects:tuner"); check_factory<tuner_t>(k, "tuner", nt, decoded); break;
    case 9:
        if (rng.chance(0.5))
        {
            c.count("objects:lsearch0");
            check_factory<lsearch0_t>(k, "lsearch0", nt, decoded);
        }
        else
        {
            c.count("objects:lsearchk");
            check_factory<lsearchk_t>(k, "lsearchk", nt, decoded);
        }
        break;
    case 10: c.count("objects:wlearner"); check_factory<wlearner_t>(k, "wlearner", nt, decoded); break;
    case 11: c.count("objects:linear"); check_factory<linear_t>(k, "linear", nt, decoded); break;
    default:
    {
        // un-fitted gradient boosting model with configured prototypes (nested vector of factory objects)
        c.count("objects:gboost");
        gboost_model_t model;
        fuzz_parameters(rng, model, 0.7);
        model.prototypes(gen_prototypes(rng, 0, 4, wlearner_t::all().ids()));
        const auto object   = std::string("gboost:unfitted");
        const auto describe = [&]()
        {
            vf::json_t j;
            j.kv("object", object).kv("parameters", params_text(model));
            j.kv("prototypes", static_cast<unsigned long long>(model.prototypes().size()));
            return j;
        };
        decoded      = describe();
        const auto s = record([&](std::ostream& os) { model.write(os); });
        if (!check_written(k, object, s))
        {
            break;
        }
        {
            gboost_model_t copy;
            size_t         remaining = 0;
            const auto o = attempt(s.m_bytes.data(), s.m_bytes.size(), [&](std::istream& is) { copy.read(is); }, &remaining);
            c.count("roundtrips");
            if (o != outcome_t::accepted)
            {
                k.violation("C15|roundtrip|read-failed|" + object, describe().kv("outcome", name(o)));
                break;
            }
            if (!same_configurable(model, copy) || !same_wlearner_configs(model.prototypes(), copy.prototypes()) ||
                !copy.wlearners().empty() || !same_tensor(model.bias(), copy.bias()) || remaining != 0)
            {
                k.violation("C15|roundtrip|parameters-differ|" + object, describe().kv("read_back", params_text(copy)));
                break;
            }
            const auto s2 = record([&](std::ostream& os) { copy.write(os); });
            c.count("reserializations");
            if (!s2.m_good || s2.m_bytes != s.m_bytes)
            {
                k.violation("C15|roundtrip|reserialization-differs|" + object, describe());
            }
        }
        enumerate_faults(
            k, object, s,
            [](std::istream& is)
            {
                gboost_model_t fresh;
                fresh.read(is);
            },
            header_values::masks);
        c.maxc("stream_bytes", static_cast<int64_t>(s.m_bytes.size()));
        nt = vf::hash_bytes(s.m_bytes.data(), s.m_bytes.size());
        break;
    }
    }
    if (nt != 0)
    {
        c.nontrivial(nt);
    }
    if (c.want_sample())
    {
        c.sample(decoded);
    }
}

// ------------------------------------------------------------------------------------------------
// mode: models (fitted weak learners, linear models, gradient boosting models on shadow datasets)

///
/// \brief in-memory data source filled by the harness: continuous (float64, float32, int16), categorical and
///     multi-label inputs with missing values, scalar regression target that depends on them.
///
class shadow_datasource_t final : public datasource_t
{
public:
    shadow_datasource_t(tensor_size_t samples, uint64_t seed)
        : datasource_t("shadow")
        , m_samples(samples)
        , m_seed(seed)
    {
    }

    rdatasource_t clone() const override { return std::make_unique<shadow_datasource_t>(*this); }

    void do_load() override
    {
        vf::rng_t  rng(m_seed);
        features_t features{feature_t{"x0"}.scalar(feature_type::float64), feature_t{"x1"}.scalar(feature_type::float32),
                            feature_t{"x2"}.scalar(feature_type::int16),   feature_t{"c0"}.sclass(3),
                            feature_t{"m0"}.mclass(3),                     feature_t{"y"}.scalar(feature_type::float64)};
        resize(m_samples, features, 5U);
        const auto w0 = rng.uniform(-1.0, 1.0), w1 = rng.uniform(-1.0, 1.0), w2 = rng.uniform(-0.2, 0.2);
        const auto missing = rng.uniform(0.0, 0.15);
        m_targets.resize(m_samples);
        for (tensor_size_t s = 0; s < m_samples; ++s)
        {
            const double x0 = rng.uniform(-1.0, 1.0), x1 = rng.uniform(0.0, 3.0);
            const auto   x2 = static_cast<int16_t>(rng.integer(-5, 5));
            const auto   c0 = static_cast<int32_t>(rng.integer(0, 2));
            if (!rng.chance(missing))
            {
                set(s, 0, x0);
            }
            if (!rng.chance(missing))
            {
                set(s, 1, x1);
            }
            if (!rng.chance(missing))
            {
                set(s, 2, x2);
            }
            if (!rng.chance(missing))
            {
                set(s, 3, c0);
            }
            tensor_mem_t<int8_t, 1> hits(3);
            for (tensor_size_t h = 0; h < 3; ++h)
            {
                hits(h) = static_cast<int8_t>(rng.integer(0, 1));
            }
            if (!rng.chance(missing))
            {
                set(s, 4, hits);
            }
            const auto y = w0 * x0 + w1 * (x1 > 1.5 ? 1.0 : -0.5) + w2 * x2 + (c0 == 1 ? 0.7 : -0.2) +
                           0.3 * static_cast<double>(hits(0)) + 0.05 * rng.uniform(-1.0, 1.0);
            set(s, 5, y);
            m_targets(s) = y;
        }
    }

    tensor_size_t m_samples;
    uint64_t      m_seed;
    tensor1d_t    m_targets;
};

bool same_nodes(const dtree_nodes_t& a, const dtree_nodes_t& b)
{
    if (a.size() != b.size())
    {
        return false;
    }
    for (size_t i = 0; i < a.size(); ++i)
    {
        if (a[i].m_feature != b[i].m_feature || !same_bits(a[i].m_threshold, b[i].m_threshold) ||
            a[i].m_next != b[i].m_next || a[i].m_table != b[i].m_table)
        {
            return false;
        }
    }
    return true;
}

///
/// \brief fitted state through the public accessors, bit-exact.  Returns the name of the first differing item.
///
std::string wlearner_difference(const wlearner_t& a, const wlearner_t& b)
{
    if (a.type_id() != b.type_id())
    {
        return "type_id";
    }
    if (!same_configurable(a, b))
    {
        return "parameters";
    }
    if (!same_tensor(a.features(), b.features()))
    {
        return "features()";
    }
    if (const auto* sa = dynamic_cast<const single_feature_wlearner_t*>(&a))
    {
        const auto* sb = dynamic_cast<const single_feature_wlearner_t*>(&b);
        if (sb == nullptr || sa->feature() != sb->feature() || !same_tensor(sa->tables(), sb->tables()))
        {
            return "feature()/tables()";
        }
    }
    if (const auto* sa = dynamic_cast<const stump_wlearner_t*>(&a))
    {
        const auto* sb = dynamic_cast<const stump_wlearner_t*>(&b);
        if (sb == nullptr || !same_bits(sa->threshold(), sb->threshold()))
        {
            return "stump threshold()";
        }
    }
    if (const auto* sa = dynamic_cast<const hinge_wlearner_t*>(&a))
    {
        const auto* sb = dynamic_cast<const hinge_wlearner_t*>(&b);
        if (sb == nullptr || !same_bits(sa->threshold(), sb->threshold()) || sa->hinge() != sb->hinge())
        {
            return "hinge threshold()/hinge()";
        }
    }
    if (const auto* sa = dynamic_cast<const table_wlearner_t*>(&a))
    {
        const auto* sb = dynamic_cast<const table_wlearner_t*>(&b);
        if (sb == nullptr || !same_tensor(sa->hashes(), sb->hashes()) || !same_tensor(sa->hash2tables(), sb->hash2tables()))
        {
            return "table hashes()/hash2tables()";
        }
    }
    if (const auto* sa = dynamic_cast<const dtree_wlearner_t*>(&a))
    {
        const auto* sb = dynamic_cast<const dtree_wlearner_t*>(&b);
        if (sb == nullptr || !same_nodes(sa->nodes(), sb->nodes()) || !same_tensor(sa->tables(), sb->tables()))
        {
            return "dtree nodes()/tables()";
        }
    }
    return "";
}

struct model_env_t
{
    model_env_t(tensor_size_t samples, uint64_t seed)
        : m_source(samples, seed)
    {
        m_source.load();
        m_dataset = std::make_unique<dataset_t>(m_source, 1U);
        m_dataset->add<scalar_identity_generator_t>();
        m_dataset->add<sclass_identity_generator_t>();
        m_dataset->add<mclass_identity_generator_t>();
        m_all = arange(0, m_dataset->samples());
    }

    shadow_datasource_t        m_source;
    std::unique_ptr<dataset_t> m_dataset;
    indices_t                  m_all;
};

indices_t gen_subset(vf::rng_t& rng, tensor_size_t samples)
{
    if (rng.chance(0.4))
    {
        return arange(0, samples);
    }
    std::vector<tensor_size_t> kept;
    const auto                 keep = rng.uniform(0.6, 0.95);
    for (tensor_size_t s = 0; s < samples; ++s)
    {
        if (rng.chance(keep))
        {
            kept.push_back(s);
        }
    }
    indices_t subset(static_cast<tensor_size_t>(kept.size()));
    for (size_t i = 0; i < kept.size(); ++i)
    {
        subset(static_cast<tensor_size_t>(i)) = kept[i];
    }
    return subset;
}

///
/// \brief everything the statement promises for one model object given as (write, fresh+read, compare, predict).
///
/// tmake() -> fresh un-fitted object (unique_ptr or value wrapped by the callers); tdiff(a, b) -> "" if identical.
///
template <class tmodel, class tmake, class tdiff>
bool check_model(case_t& k, const std::string& object, const tmodel& model, const tmake& make, const tdiff& difference,
                 const model_env_t& env, const vf::json_t& decoded, uint64_t& nt_hash, bool predictable = true)
{
    auto&      c = k.m_c;
    const auto s = record([&](std::ostream& os) { model.write(os); });
    if (!check_written(k, object, s))
    {
        return false;
    }
    auto       copy      = make();
    size_t     remaining = 0;
    const auto o = attempt(s.m_bytes.data(), s.m_bytes.size(), [&](std::istream& is) { copy->read(is); }, &remaining);
    c.count("roundtrips");
    if (o != outcome_t::accepted)
    {
        auto j = decoded;
        k.violation("C15|roundtrip|read-failed|" + object, j.kv("outcome", name(o)));
        return false;
    }
    const auto diff = difference(model, *copy);
    c.count("state_comparisons");
    if (!diff.empty() || remaining != 0)
    {
        auto j = decoded;
        k.violation("C15|roundtrip|state-differs|" + object,
                    j.kv("differs", diff).kv("unread_bytes", static_cast<unsigned long long>(remaining)));
    }
    // predictions, bit for bit (also the zero rows of samples the model does not cover); a learner that could not be
    // fitted knows no inputs and refuses to predict
    if (predictable)
    {
        const auto p1 = model.predict(*env.m_dataset, env.m_all);
        const auto p2 = copy->predict(*env.m_dataset, env.m_all);
        c.count("prediction_comparisons");
        c.count("predictions_compared", static_cast<int64_t>(p1.size()));
        if (!same_tensor(p1, p2))
        {
            auto j = decoded;
            j.arr("original", p1.data(), static_cast<size_t>(p1.size()), 16);
            j.arr("read_back", p2.data(), static_cast<size_t>(p2.size()), 16);
            k.violation("C15|roundtrip|predictions-differ|" + object, j);
        }
        bool nonzero = false;
        for (tensor_size_t i = 0; i < p1.size(); ++i)
        {
            nonzero = nonzero || p1(i) != 0.0;
        }
        if (nonzero)
        {
            nt_hash = vf::hash_bytes(s.m_bytes.data(), s.m_bytes.size(), vf::hash_str(object.c_str()));
        }
    }
    const auto s2 = record([&](std::ostream& os) { copy->write(os); });
    c.count("reserializations");
    if (!s2.m_good || s2.m_bytes != s.m_bytes)
    {
        k.violation("C15|roundtrip|reserialization-differs|" + object, decoded);
    }
    enumerate_faults(
        k, object, s,
        [&](std::istream& is)
        {
            auto fresh = make();
            fresh->read(is);
        },
        header_values::masks);
    c.maxc("stream_bytes", static_cast<int64_t>(s.m_bytes.size()));
    return true;
}

ml::params_t tiny_fit_params(vf::rng_t& rng)
{
    auto params = ml::params_t{};
    params.tuner(rng.chance(0.5) ? "local-search" : "surrogate");
    params.solver(rng.chance(0.7) ? "lbfgs" : "cgd-pr");
    params.splitter(rng.chance(0.7) ? "k-fold" : "random");
    return params;
}

void configure_tiny(ml::params_t& params, vf::rng_t& rng)
{
    auto tuner    = params.tuner().clone();
    auto solver   = params.solver().clone();
    auto splitter = params.splitter().clone();
    tuner->parameter("tuner::max_evals")   = 10;
    solver->parameter("solver::max_evals") = rng.integer(20, 60);
    solver->parameter("solver::epsilon")   = 1e-6;
    splitter->parameter("splitter::folds") = 2;
    splitter->parameter("splitter::seed")  = rng.integer(0, 1024);
    params.tuner(*tuner).solver(*solver).splitter(*splitter).logger(make_null_logger());
}

void run_models_case(vf::ctx_t& c)
{
    auto&  rng = c.rng;
    case_t k(c);
    nano::verif::rng_seed().store(c.seed | 1U);

    const auto  samples = static_cast<tensor_size_t>(rng.integer(40, c.args.thorough() ? 160 : 100));
    const auto  dseed   = rng.next();
    model_env_t env(samples, dseed);
    const auto& dataset = *env.m_dataset;
    const auto  subset  = gen_subset(rng, samples);

    uint64_t   nt = 0;
    vf::json_t decoded;
    decoded.kv("samples", static_cast<long long>(samples)).kv("fit_samples", static_cast<long long>(subset.size()));
    decoded.kv("dataset_seed", static_cast<unsigned long long>(dseed));

    const auto what = rng.integer(0, 9);
    if (what <= 5)
    {
        // one fitted weak learner
        const auto ids = wlearner_t::all().ids();
        const auto id  = rng.pick(ids);
        auto       wl  = wlearner_t::all().get(id);
        fuzz_parameters(rng, *wl, 0.5);
        if (rng.chance(id == "dtree" ? 0.8 : 0.4))
        {
            wl->parameter("wlearner::criterion") = wlearner_criterion::rss;
        }
        tensor4d_t gradients(cat_dims(dataset.samples(), dataset.target_dims()));
        for (tensor_size_t s = 0; s < dataset.samples(); ++s)
        {
            gradients(s) = -env.m_source.m_targets(s) + 0.1 * rng.uniform(-1.0, 1.0);
        }
        const auto score  = wl->fit(dataset, subset, gradients);
        const bool fitted = score != wlearner_t::no_fit_score();
        if (fitted && rng.chance(0.3))
        {
            vector_t scale = vector_t::constant(1, rng.uniform(0.1, 2.0));
            wl->scale(scale);
        }
        const auto object = "wlearner:" + id;
        decoded.kv("object", object).kv("score", score).kv("fitted", fitted).kv("parameters", params_text(*wl));
        c.count("models:" + object);
        c.count(fitted ? "models:wlearner_fitted" : "models:wlearner_no_fit");

        uint64_t h = 0;
        check_model(
            k, object, *wl, [&]() { return wlearner_t::all().get(id); },
            [](const wlearner_t& a, const wlearner_t& b) { return wlearner_difference(a, b); }, env, decoded, h, fitted);
        nt = fitted ? h : 0;

        // reading into an object that is already in ANOTHER fitted state (fitted on other gradients: other
        // thresholds, directions, tables) must give the written object as well - a reader must restore every field
        if (fitted)
        {
            auto       other = wlearner_t::all().get(id);
            // independent gradients (not just negated ones: a negation flips coefficients, not hinge directions)
            tensor4d_t negated(gradients.dims());
            for (tensor_size_t s = 0; s < negated.size(); ++s)
            {
                negated(s) = rng.chance(0.5) ? -gradients(s) : rng.uniform(-1.0, 1.0) * (1.0 + std::fabs(gradients(s)));
            }
            if (rng.chance(0.5))
            {
                // mirrored along the sample order: an increasing trend becomes a decreasing one
                for (tensor_size_t s = 0, n = negated.size<0>(); s < n / 2; ++s)
                {
                    std::swap(negated(s), negated(n - 1 - s));
                }
            }
            for (const auto& p : wl->parameters())
            {
                std::ostringstream os;
                p.write(os);
                std::istringstream is(os.str());
                const_cast<parameter_t&>(other->parameter(p.name())).read(is);
            }
            if (other->fit(dataset, subset, negated) != wlearner_t::no_fit_score())
            {
                const auto sw = record([&](std::ostream& os) { wl->write(os); });
                const auto o  = attempt(sw.m_bytes.data(), sw.m_bytes.size(), [&](std::istream& is) { other->read(is); });
                c.count("reload_into_used_object");
                const auto diff = o == outcome_t::accepted ? wlearner_difference(*wl, *other) : std::string("read failed");
                const auto sr   = record([&](std::ostream& os) { other->write(os); });
                if (!diff.empty() || sr.m_bytes != sw.m_bytes)
                {
                    auto j = decoded;
                    k.violation("C15|roundtrip|reload-into-used-object|" + object, j.kv("differs", diff.empty() ? std::string("re-serialisation") : diff));
                }
            }
        }

        // the fitted learner inside the nested reader (vector of factory objects)
        if (fitted)
        {
            rwlearners_t many;
            many.emplace_back(wl->clone());
            many.emplace_back(wlearner_t::all().get(rng.pick(ids)));
            many.emplace_back(wl->clone());
            const auto sv = record([&](std::ostream& os) { ::nano::write(os, many); });
            if (check_written(k, "wlearners|vector", sv))
            {
                rwlearners_t copy;
                const auto   o = attempt(sv.m_bytes.data(), sv.m_bytes.size(), [&](std::istream& is) { ::nano::read(is, copy); });
                c.count("roundtrips");
                bool same = o == outcome_t::accepted && copy.size() == many.size();
                for (size_t i = 0; same && i < many.size(); ++i)
                {
                    same = copy[i] && wlearner_difference(*many[i], *copy[i]).empty();
                }
                if (!same)
                {
                    k.violation("C15|roundtrip|vector-differs|wlearners", decoded);
                }
                enumerate_faults(
                    k, "wlearners|vector", sv,
                    [](std::istream& is)
                    {
                        rwlearners_t fresh;
                        ::nano::read(is, fresh);
                    },
                    header_values::masks);
            }
        }
    }
    else if (what <= 7)
    {
        // one fitted linear model
        const auto id    = rng.pick(linear_t::all().ids());
        auto       model = linear_t::all().get(id);
        model->parameter("linear::batch")   = rng.integer(10, 64);
        model->parameter("linear::scaling") = rng.pick(std::vector<scaling_type>{scaling_type::none, scaling_type::mean, scaling_type::minmax, scaling_type::standard});
        const auto loss   = loss_t::all().get(rng.pick(std::vector<std::string>{"mse", "mae", "cauchy"}));
        auto       params = tiny_fit_params(rng);
        configure_tiny(params, rng);
        model->fit(dataset, subset, *loss, params);
        const auto object = "linear:" + id;
        decoded.kv("object", object).kv("loss", loss->type_id()).kv("parameters", params_text(*model));
        decoded.arr("bias", model->bias().data(), static_cast<size_t>(model->bias().size()), 4);
        decoded.arr("weights", model->weights().data(), static_cast<size_t>(model->weights().size()), 12);
        c.count("models:" + object);
        check_model(
            k, object, *model, [&]() { return linear_t::all().get(id); },
            [](const linear_t& a, const linear_t& b) -> std::string
            {
                return !same_configurable(a, b)                ? "parameters"
                     : !same_tensor(a.bias(), b.bias())       ? "bias()"
                     : !same_tensor(a.weights(), b.weights()) ? "weights()"
                                                              : "";
            },
            env, decoded, nt);
    }
    else
    {
        // one fitted gradient boosting model (10 rounds at most, 1..3 prototypes)
        auto model = std::make_unique<gboost_model_t>();
        model->parameter("gboost::max_rounds") = 10;
        model->parameter("gboost::patience")   = rng.integer(1, 3);
        model->parameter("gboost::batch")      = rng.integer(10, 64);
        model->parameter("gboost::seed")       = rng.integer(0, 1024);
        model->parameter("gboost::wscale")     = rng.pick(std::vector<gboost_wscale>{gboost_wscale::gboost, gboost_wscale::tboost});
        model->parameter("gboost::shrinkage")  = rng.pick(std::vector<gboost_shrinkage>{gboost_shrinkage::off, gboost_shrinkage::off, gboost_shrinkage::local});
        if (rng.chance(0.3))
        {
            model->parameter("gboost::subsample")       = rng.pick(std::vector<gboost_subsample>{gboost_subsample::subsample, gboost_subsample::bootstrap, gboost_subsample::wei_loss_bootstrap});
            model->parameter("gboost::subsample_ratio") = rng.uniform(0.6, 1.0);
        }
        auto protos = gen_prototypes(rng, 1, 3, strings_t{"affine", "stump", "hinge", "dense-table", "kbest-table", "ksplit-table", "dtree"});
        for (auto& proto : protos)
        {
            if (rng.chance(0.6))
            {
                proto->parameter("wlearner::criterion") = wlearner_criterion::rss;
            }
        }
        std::string proto_ids;
        for (const auto& proto : protos)
        {
            proto_ids += proto->type_id() + ",";
        }
        model->prototypes(std::move(protos));
        const auto loss   = loss_t::all().get(rng.pick(std::vector<std::string>{"mse", "mae", "cauchy"}));
        auto       params = tiny_fit_params(rng);
        configure_tiny(params, rng);
        model->fit(dataset, subset, *loss, params);
        const auto object = std::string("gboost:fitted");
        decoded.kv("object", object).kv("loss", loss->type_id()).kv("prototypes", proto_ids);
        decoded.kv("wlearners", static_cast<unsigned long long>(model->wlearners().size())).kv("parameters", params_text(*model));
        c.count("models:" + object);
        c.count("models:gboost_wlearners", static_cast<int64_t>(model->wlearners().size()));
        uint64_t h = 0;
        check_model(
            k, object, *model, []() { return std::make_unique<gboost_model_t>(); },
            [](const gboost_model_t& a, const gboost_model_t& b) -> std::string
            {
                if (!same_configurable(a, b))
                {
                    return "parameters";
                }
                if (!same_tensor(a.bias(), b.bias()))
                {
                    return "bias()";
                }
                if (!same_wlearner_configs(a.prototypes(), b.prototypes()))
                {
                    return "prototypes()";
                }
                if (a.wlearners().size() != b.wlearners().size())
                {
                    return "wlearners().size()";
                }
                for (size_t i = 0; i < a.wlearners().size(); ++i)
                {
                    const auto d = wlearner_difference(*a.wlearners()[i], *b.wlearners()[i]);
                    if (!d.empty())
                    {
                        return "wlearner[" + std::to_string(i) + "]: " + d;
                    }
                }
                return !same_tensor(a.features(), b.features()) ? "features()" : "";
            },
            env, decoded, h);
        nt = model->wlearners().empty() ? 0 : h;
    }

    if (nt != 0)
    {
        c.nontrivial(nt);
    }
    if (c.want_sample())
    {
        c.sample(decoded);
    }
}
} // namespace

int main(int argc, char** argv)
{
    const auto args        = vf::parse_args(argc, argv);
    const auto max_payload = static_cast<size_t>(std::atoll(args.get("max-payload", "384").c_str()));

    if (args.mode == "tensor")
    {
        return vf::run(args, "C15",
                       "case = one tensor (10 scalar types x rank 1..5 x dims 0..6, payload shrunk to <= max-payload bytes; "
                       "contents: bit patterns | tiny | zero | extremes incl. NaN/inf | moderate | mixed): round trip + view "
                       "write + re-serialisation + EVERY strict prefix + EVERY payload byte x 255 values + EVERY header byte x "
                       "255 values; non-trivial: >= 1 element; distinct by hash(scalar type, dims, content)",
                       [&](vf::ctx_t& c) { run_tensor_case(c, max_payload); });
    }
    if (args.mode == "objects")
    {
        return vf::run(args, "C15",
                       "case = one of: parameter (7 kinds, random names/domains/values), list of parameters, feature, list of "
                       "features, factory object (solver|loss|splitter|tuner|lsearch0|lsearchk|wlearner|linear; default or every "
                       "parameter fuzzed inside its domain) through member, type-id and vector<unique_ptr> serialisation, "
                       "un-fitted gboost model with 0..4 configured prototypes: round trip (bit-exact field comparison + "
                       "library ==) + re-serialisation + EVERY strict prefix; non-trivial: every case with a non-empty object; "
                       "distinct by hash(stream bytes / printed object)",
                       [&](vf::ctx_t& c) { run_objects_case(c); });
    }
    if (args.mode == "models")
    {
        return vf::run(args, "C15",
                       "case = shadow dataset (40..100 samples; float64/float32/int16/categorical/multi-label inputs with "
                       "missing values) + one of: weak learner (8 ids, fuzzed parameters) fitted on residual-like gradients, "
                       "linear model (4 ids x 3 losses x 4 scalings, tiny tuning), gboost model (<= 10 rounds, 1..3 "
                       "prototypes): round trip (parameters, fitted state through the accessors, predictions on all samples "
                       "bit for bit, re-serialisation) + EVERY strict prefix + EVERY tensor payload byte x 255 values + "
                       "tensor header bytes x 5 values, also inside vector<unique_ptr>; non-trivial: the model is fitted "
                       "and predicts something non-zero; distinct by hash(stream bytes)",
                       [&](vf::ctx_t& c) { run_models_case(c); });
    }
    std::fprintf(stderr, "unknown mode %s\n", args.mode.c_str());
    return 3;
}
