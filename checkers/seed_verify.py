#!/usr/bin/env python3
"""Confirm a seeded break and run the registered check(s) against it.

  seed_verify.py <seed worktree, e.g. /tmp/seed-C17-1> <PID> [--tier quick] [--also PID2,PID3]

Steps (everything in scratch worktrees under /tmp, removed afterwards; /repo itself is never modified):
  1. fresh worktree A of /repo HEAD: build tests, run demo  -> must exit 0            (demo passes without the change)
  2. apply patch.diff in A: rebuild, ctest                   -> 72 stable tests pass    (change passes the existing tests)
  3. run demo in A with the change                            -> must exit non-zero      (demo fails with the change)
  4. ./vf check <PID> against A (VERIF_REPO/VERIF_BUILD/VERIF_OUT) -> records whether the check catches it
  5. copy patch.diff, demo.*, meta.json (+ what was run, the verdicts) to /verif/seeded/<name>/
"""
import json
import os
import shutil
import subprocess
import sys
import time

FLAKY = ("test_program_linear", "test_program_quadratic")


def sh(cmd, cwd=None, env=None, timeout=None):
    p = subprocess.run(cmd, shell=True, cwd=cwd, env=env, capture_output=True, text=True, errors="replace", timeout=timeout)
    return p.returncode, p.stdout + p.stderr


def main():
    seed, pid = sys.argv[1].rstrip("/"), sys.argv[2]
    tier = sys.argv[sys.argv.index("--tier") + 1] if "--tier" in sys.argv else "quick"
    also = sys.argv[sys.argv.index("--also") + 1].split(",") if "--also" in sys.argv else []
    name = os.path.basename(seed)
    sd = os.path.join(seed, ".seed")
    for f in ("patch.diff", "demo.cpp", "demo.sh", "meta.json"):
        if not os.path.exists(os.path.join(sd, f)):
            print("MISSING deliverable", f)
            return 2
    wt = "/tmp/ver-" + name
    sh("git -C /repo worktree remove --force %s" % wt)
    shutil.rmtree(wt, ignore_errors=True)
    rc, out = sh("git -C /repo worktree add --detach %s HEAD" % wt)
    if rc:
        print(out)
        return 2
    env = dict(os.environ, CCACHE_DIR="/verif/.cache/ccache-seed", CCACHE_BASEDIR=wt, CCACHE_NOHASHDIR="1")
    res = {"seed": name, "property": pid, "repo_head": sh("git -C /repo rev-parse --short HEAD")[1].strip(), "ran": []}
    try:
        os.makedirs(os.path.join(wt, ".seed"))
        for f in ("demo.cpp", "demo.sh"):
            shutil.copy(os.path.join(sd, f), os.path.join(wt, ".seed", f))
        build = ("cmake -G Ninja -S . -B _build -DCMAKE_BUILD_TYPE=RelWithDebInfo -DCMAKE_CXX_FLAGS=-Wno-error > /dev/null && "
                 "cmake --build _build -j 16 2>&1 | tail -3")
        t0 = time.time()
        rc, out = sh(build, cwd=wt, env=env)
        res["ran"].append("build unchanged: rc=%d %.0fs" % (rc, time.time() - t0))
        if rc:
            print(out[-2000:])
            return 2
        rc0, out0 = sh("bash .seed/demo.sh", cwd=wt, env=env, timeout=3600)
        res["demo_unchanged_rc"] = rc0
        res["ran"].append("demo on unchanged tree: rc=%d" % rc0)
        rc, out = sh("git apply %s" % os.path.join(sd, "patch.diff"), cwd=wt)
        if rc:
            print("patch does not apply:", out)
            res["patch_applies"] = False
            return 2
        rc, out = sh(build, cwd=wt, env=env)
        res["ran"].append("build changed: rc=%d" % rc)
        res["compiles"] = rc == 0
        if rc:
            print(out[-2000:])
        rc, out = sh("ctest --test-dir _build -j8 --timeout 900 2>&1 | tail -25", cwd=wt, env=env)
        failed = [l.strip() for l in out.splitlines() if " - test_" in l and "Failed" in l or "Timeout" in l and " - test_" in l]
        failed = [l for l in failed if not any(f in l for f in FLAKY)]
        res["tests_failed_with_change"] = failed
        res["ran"].append("ctest with change: %d stable tests failed" % len(failed))
        rc1, out1 = sh("bash .seed/demo.sh", cwd=wt, env=env, timeout=3600)
        res["demo_changed_rc"] = rc1
        res["demo_changed_tail"] = out1[-600:]
        res["ran"].append("demo with change: rc=%d" % rc1)
        res["confirmed"] = bool(res["compiles"] and not failed and rc0 == 0 and rc1 != 0)
        shutil.rmtree(os.path.join(wt, "_build"), ignore_errors=True)
        # the registered check(s) against the changed tree
        venv = dict(os.environ, VERIF_REPO=wt, VERIF_BUILD=os.path.join(wt, ".vbuild"), VERIF_OUT=os.path.join(wt, ".vout"))
        res["checks"] = {}
        for p in [pid] + also:
            t0 = time.time()
            rc, out = sh("/verif/vf check %s --tier %s" % (p, tier), cwd="/verif", env=venv)
            keys = [l.strip()[4:].split(" occurrences")[0] for l in out.splitlines() if l.strip().startswith("key=")]
            res["checks"][p] = {"exit": rc, "keys": keys[:12], "wall_s": round(time.time() - t0)}
            res["ran"].append("VERIF_REPO=%s ./vf check %s --tier %s -> exit %d" % (wt, p, tier, rc))
            print("CHECK %s on %s: exit=%d keys=%s" % (p, name, rc, keys[:6]))
        dst = os.path.join("/verif/seeded", name)
        os.makedirs(dst, exist_ok=True)
        for f in ("patch.diff", "demo.cpp", "demo.sh"):
            shutil.copy(os.path.join(sd, f), os.path.join(dst, f))
        meta = json.load(open(os.path.join(sd, "meta.json")))
        meta["verification"] = res
        json.dump(meta, open(os.path.join(dst, "meta.json"), "w"), indent=1)
        print(json.dumps(res, indent=1)[:3000])
        return 0 if res["confirmed"] else 1
    finally:
        sh("git -C /repo worktree remove --force %s" % wt)
        shutil.rmtree(wt, ignore_errors=True)


if __name__ == "__main__":
    sys.exit(main())
