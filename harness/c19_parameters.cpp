// C19 - parameters stay inside their declared domain; clones are configuration-equal.
//
// mode "parameter": a reference model of a parameter (kind, bounds, LE/LT flags, current value), written from the
//   statement, is driven in lock-step with the real parameter_t / configurable_t through histories of assignments
//   (ints, floats, pairs, strings, enums, write+read).  After every step the raw storage() is compared with the model:
//   declared domain unchanged, stored value inside it, accepted => read back as assigned (converted to the kind),
//   rejected => exception and previous value intact; unknown names and type-mismatched reads must throw.
//   Cases [0, N_exh) enumerate every history of length 4 over a 12-operation alphabet per kind x {LE,LT} flags
//   (thorough: every such history is extended by all histories of 2 more operations, i.e. length <= 6); cases beyond
//   are random: several parameters with random domains inside one configurable_t, histories of up to 14 operations.
// mode "factory": one case = one id of one of the 11 factories: type_id, defaults in domain, boundary assignments on
//   every registered parameter, clone equality (parameters, serialisation), identical behaviour of object and clone on
//   a probe input, independence (modifying a clone / the object / an object obtained from the factory changes nothing
//   else).
#include "common/vf.h"
#include <cinttypes>
#include <filesystem>
#include <fstream>
#include <limits>
#include <nano/configurable.h>
#include <nano/core/parallel.h>
#include <nano/core/random.h>
#include <nano/dataset.h>
#include <nano/datasource.h>
#include <nano/function.h>
#include <nano/generator.h>
#include <nano/linear.h>
#include <nano/loss.h>
#include <nano/lsearch0.h>
#include <nano/lsearchk.h>
#include <nano/parameter.h>
#include <nano/solver.h>
#include <nano/splitter.h>
#include <nano/tuner.h>
#include <nano/wlearner.h>
#include <sstream>

// enumerations owned by the harness: their string tables are the harness' own (independent of any library table)
enum class vf_color : int
{
    red,
    green,
    blue,
    bluegreen ///< "blue" is a strict prefix of "bluegreen" on purpose (from_string falls back to prefix matching)
};

enum class vf_shape : int
{
    circle,
    square
};

static const char* const g_color_names[] = {"red", "green", "blue", "bluegreen"};
static const char* const g_shape_names[] = {"circle", "square"};

namespace nano
{
template <>
inline enum_map_t<vf_color> enum_string<vf_color>()
{
    return {
        {      vf_color::red,       "red"},
        {    vf_color::green,     "green"},
        {     vf_color::blue,      "blue"},
        {vf_color::bluegreen, "bluegreen"}
    };
}

template <>
inline enum_map_t<vf_shape> enum_string<vf_shape>()
{
    return {
        {vf_shape::circle, "circle"},
        {vf_shape::square, "square"}
    };
}
} // namespace nano

using namespace nano;

namespace
{
// ------------------------------------------------------------------------------------------------------------------
// reference model

enum class kind_t : int
{
    none,
    enumeration,
    integer,
    scalar,
    ipair,
    fpair,
    string
};

const char* kind_name(const kind_t k)
{
    switch (k)
    {
    case kind_t::none: return "none";
    case kind_t::enumeration: return "enum";
    case kind_t::integer: return "integer";
    case kind_t::scalar: return "scalar";
    case kind_t::ipair: return "ipair";
    case kind_t::fpair: return "fpair";
    default: return "string";
    }
}

struct dom_t
{
    kind_t                   kind{kind_t::none};
    bool                     minle{true}, valle{true}, maxle{true};
    int64_t                  imin{0}, imax{0};
    double                   fmin{0}, fmax{0};
    std::vector<std::string> edomain;
};

struct val_t
{
    int64_t     i1{0}, i2{0};
    double      f1{0}, f2{0};
    std::string s;
};

struct model_t
{
    std::string name;
    dom_t       d;
    val_t       v;
};

template <class T>
bool lelt(const bool le, const T a, const T b)
{
    return le ? (a <= b) : (a < b);
}

bool in_domain(const dom_t& d, const val_t& v)
{
    switch (d.kind)
    {
    case kind_t::integer: return lelt(d.minle, d.imin, v.i1) && lelt(d.maxle, v.i1, d.imax);
    case kind_t::scalar: return std::isfinite(v.f1) && lelt(d.minle, d.fmin, v.f1) && lelt(d.maxle, v.f1, d.fmax);
    case kind_t::ipair: return lelt(d.minle, d.imin, v.i1) && lelt(d.valle, v.i1, v.i2) && lelt(d.maxle, v.i2, d.imax);
    case kind_t::fpair:
        return std::isfinite(v.f1) && std::isfinite(v.f2) && lelt(d.minle, d.fmin, v.f1) && lelt(d.valle, v.f1, v.f2) &&
               lelt(d.maxle, v.f2, d.fmax);
    case kind_t::enumeration: return std::find(d.edomain.begin(), d.edomain.end(), v.s) != d.edomain.end();
    default: return true;
    }
}

bool same_domain(const dom_t& a, const dom_t& b)
{
    if (a.kind != b.kind)
    {
        return false;
    }
    switch (a.kind)
    {
    case kind_t::integer: return a.minle == b.minle && a.maxle == b.maxle && a.imin == b.imin && a.imax == b.imax;
    case kind_t::scalar: return a.minle == b.minle && a.maxle == b.maxle && a.fmin == b.fmin && a.fmax == b.fmax;
    case kind_t::ipair:
        return a.minle == b.minle && a.maxle == b.maxle && a.valle == b.valle && a.imin == b.imin && a.imax == b.imax;
    case kind_t::fpair:
        return a.minle == b.minle && a.maxle == b.maxle && a.valle == b.valle && a.fmin == b.fmin && a.fmax == b.fmax;
    case kind_t::enumeration: return a.edomain == b.edomain;
    default: return true;
    }
}

bool same_value(const kind_t k, const val_t& a, const val_t& b)
{
    switch (k)
    {
    case kind_t::integer: return a.i1 == b.i1;
    case kind_t::scalar: return a.f1 == b.f1;
    case kind_t::ipair: return a.i1 == b.i1 && a.i2 == b.i2;
    case kind_t::fpair: return a.f1 == b.f1 && a.f2 == b.f2;
    case kind_t::enumeration:
    case kind_t::string: return a.s == b.s;
    default: return true;
    }
}

bool same_model(const model_t& a, const model_t& b)
{
    return a.name == b.name && same_domain(a.d, b.d) && same_value(a.d.kind, a.v, b.v);
}

std::string fmt(const double v)
{
    char b[48];
    std::snprintf(b, sizeof(b), "%.17g", v);
    return b;
}

std::string value_str(const kind_t k, const val_t& v)
{
    switch (k)
    {
    case kind_t::integer: return std::to_string(v.i1);
    case kind_t::scalar: return fmt(v.f1);
    case kind_t::ipair: return "(" + std::to_string(v.i1) + "," + std::to_string(v.i2) + ")";
    case kind_t::fpair: return "(" + fmt(v.f1) + "," + fmt(v.f2) + ")";
    case kind_t::enumeration:
    case kind_t::string: return "'" + v.s + "'";
    default: return "N/A";
    }
}

std::string domain_str(const dom_t& d)
{
    const auto c = [](const bool le) { return le ? " <= " : " < "; };
    switch (d.kind)
    {
    case kind_t::integer: return std::to_string(d.imin) + c(d.minle) + "v" + c(d.maxle) + std::to_string(d.imax);
    case kind_t::scalar: return fmt(d.fmin) + c(d.minle) + "v" + c(d.maxle) + fmt(d.fmax);
    case kind_t::ipair:
        return std::to_string(d.imin) + c(d.minle) + "v1" + c(d.valle) + "v2" + c(d.maxle) + std::to_string(d.imax);
    case kind_t::fpair: return fmt(d.fmin) + c(d.minle) + "v1" + c(d.valle) + "v2" + c(d.maxle) + fmt(d.fmax);
    case kind_t::enumeration:
    {
        std::string s = "{";
        for (const auto& e : d.edomain)
        {
            s += e + ",";
        }
        return s + "}";
    }
    case kind_t::string: return ".*";
    default: return "N/A";
    }
}

std::string model_str(const model_t& m)
{
    return m.name + "[" + kind_name(m.d.kind) + "]=" + value_str(m.d.kind, m.v) + " in " + domain_str(m.d);
}

// what the library stores, read from the raw storage (never through the typed accessors under test)
model_t observe(const parameter_t& p)
{
    model_t m;
    m.name          = p.name();
    const auto isle = [](const LEorLT& c) { return std::holds_alternative<LE_t>(c); };
    std::visit(overloaded{[&](const std::monostate&) { m.d.kind = kind_t::none; },
                          [&](const parameter_t::enum_t& e)
                          {
                              m.d.kind    = kind_t::enumeration;
                              m.d.edomain = e.m_domain;
                              m.v.s       = e.m_value;
                          },
                          [&](const parameter_t::irange_t& r)
                          {
                              m.d.kind  = kind_t::integer;
                              m.d.imin  = r.m_min;
                              m.d.imax  = r.m_max;
                              m.d.minle = isle(r.m_mincomp);
                              m.d.maxle = isle(r.m_maxcomp);
                              m.v.i1    = r.m_value;
                          },
                          [&](const parameter_t::frange_t& r)
                          {
                              m.d.kind  = kind_t::scalar;
                              m.d.fmin  = r.m_min;
                              m.d.fmax  = r.m_max;
                              m.d.minle = isle(r.m_mincomp);
                              m.d.maxle = isle(r.m_maxcomp);
                              m.v.f1    = r.m_value;
                          },
                          [&](const parameter_t::iprange_t& r)
                          {
                              m.d.kind  = kind_t::ipair;
                              m.d.imin  = r.m_min;
                              m.d.imax  = r.m_max;
                              m.d.minle = isle(r.m_mincomp);
                              m.d.valle = isle(r.m_valcomp);
                              m.d.maxle = isle(r.m_maxcomp);
                              m.v.i1    = r.m_value1;
                              m.v.i2    = r.m_value2;
                          },
                          [&](const parameter_t::fprange_t& r)
                          {
                              m.d.kind  = kind_t::fpair;
                              m.d.fmin  = r.m_min;
                              m.d.fmax  = r.m_max;
                              m.d.minle = isle(r.m_mincomp);
                              m.d.valle = isle(r.m_valcomp);
                              m.d.maxle = isle(r.m_maxcomp);
                              m.v.f1    = r.m_value1;
                              m.v.f2    = r.m_value2;
                          },
                          [&](const string_t& s)
                          {
                              m.d.kind = kind_t::string;
                              m.v.s    = s;
                          }},
               p.storage());
    return m;
}

// ------------------------------------------------------------------------------------------------------------------
// operations

enum class opk_t : int
{
    ai32,
    ai64,
    af32,
    af64,
    ap32,
    ap64,
    apf,
    as,
    ae_color,
    ae_shape,
    wr
};

const char* op_name(const opk_t k)
{
    switch (k)
    {
    case opk_t::ai32: return "assign-int32";
    case opk_t::ai64: return "assign-int64";
    case opk_t::af32: return "assign-float";
    case opk_t::af64: return "assign-double";
    case opk_t::ap32: return "assign-pair-int32";
    case opk_t::ap64: return "assign-pair-int64";
    case opk_t::apf: return "assign-pair-double";
    case opk_t::as: return "assign-string";
    case opk_t::ae_color: return "assign-enum";
    case opk_t::ae_shape: return "assign-foreign-enum";
    default: return "write-read";
    }
}

struct op_t
{
    opk_t       k{opk_t::wr};
    int64_t     i1{0}, i2{0};
    double      f1{0}, f2{0};
    std::string s;
    int         e{0};
};

op_t op_i32(const int32_t v) { op_t o; o.k = opk_t::ai32; o.i1 = v; return o; }
op_t op_i64(const int64_t v) { op_t o; o.k = opk_t::ai64; o.i1 = v; return o; }
op_t op_f32(const float v) { op_t o; o.k = opk_t::af32; o.f1 = static_cast<double>(v); return o; }
op_t op_f64(const double v) { op_t o; o.k = opk_t::af64; o.f1 = v; return o; }
op_t op_p32(const int32_t a, const int32_t b) { op_t o; o.k = opk_t::ap32; o.i1 = a; o.i2 = b; return o; }
op_t op_p64(const int64_t a, const int64_t b) { op_t o; o.k = opk_t::ap64; o.i1 = a; o.i2 = b; return o; }
op_t op_pf(const double a, const double b) { op_t o; o.k = opk_t::apf; o.f1 = a; o.f2 = b; return o; }
op_t op_s(std::string s) { op_t o; o.k = opk_t::as; o.s = std::move(s); return o; }
op_t op_color(const vf_color e) { op_t o; o.k = opk_t::ae_color; o.e = static_cast<int>(e); return o; }
op_t op_shape(const vf_shape e) { op_t o; o.k = opk_t::ae_shape; o.e = static_cast<int>(e); return o; }
op_t op_wr() { return op_t{}; }

std::string op_str(const op_t& o)
{
    std::string s = op_name(o.k);
    switch (o.k)
    {
    case opk_t::ai32:
    case opk_t::ai64: return s + "(" + std::to_string(o.i1) + ")";
    case opk_t::af32:
    case opk_t::af64: return s + "(" + fmt(o.f1) + ")";
    case opk_t::ap32:
    case opk_t::ap64: return s + "(" + std::to_string(o.i1) + "," + std::to_string(o.i2) + ")";
    case opk_t::apf: return s + "(" + fmt(o.f1) + "," + fmt(o.f2) + ")";
    case opk_t::as: return s + "('" + o.s + "')";
    case opk_t::ae_color: return s + "(" + g_color_names[o.e] + ")";
    case opk_t::ae_shape: return s + "(" + g_shape_names[o.e] + ")";
    default: return s;
    }
}

uint64_t op_hash(const op_t& o, uint64_t h)
{
    h = vf::mix(h, static_cast<uint64_t>(o.k));
    h = vf::mix(h, static_cast<uint64_t>(o.i1));
    h = vf::mix(h, static_cast<uint64_t>(o.i2));
    h = vf::hash_double(o.f1, h);
    h = vf::hash_double(o.f2, h);
    h = vf::hash_bytes(o.s.data(), o.s.size(), h);
    return vf::mix(h, static_cast<uint64_t>(o.e));
}

// conversions of the statement: float -> integer truncates toward zero when representable
bool to_int(const double v, int64_t& out)
{
    if (!std::isfinite(v) || !(v >= -9223372036854775808.0) || !(v < 9223372036854775808.0))
    {
        return false;
    }
    out = static_cast<int64_t>(std::trunc(v));
    return true;
}

bool ref_stoll(const std::string& s, int64_t& out)
{
    try
    {
        out = std::stoll(s);
        return true;
    }
    catch (const std::exception&)
    {
        return false;
    }
}

bool ref_stod(const std::string& s, double& out)
{
    try
    {
        out = std::stod(s);
        return true;
    }
    catch (const std::exception&)
    {
        return false;
    }
}

// pair strings: the harness only produces "<a><sep><b>" with one separator out of ";,:|/ " or strings without two tokens
bool ref_split(const std::string& s, std::string& a, std::string& b)
{
    const auto pos = s.find_first_of(";,:|/ ");
    if (pos == std::string::npos)
    {
        return false;
    }
    a = s.substr(0, pos);
    b = s.substr(pos + 1);
    return !a.empty() && !b.empty() && b.find_first_of(";,:|/ ") == std::string::npos;
}

enum class exp_t : int
{
    accept,
    reject,
    lenient ///< float -> integer of a non-representable value: rejected, or anything inside the domain
};

struct outcome_t
{
    exp_t e{exp_t::reject};
    val_t v;
};

outcome_t expect(const model_t& m, const op_t& op)
{
    outcome_t  r;
    const auto decide = [&]() { r.e = in_domain(m.d, r.v) ? exp_t::accept : exp_t::reject; };
    r.v               = m.v;
    switch (m.d.kind)
    {
    case kind_t::integer:
        switch (op.k)
        {
        case opk_t::ai32:
        case opk_t::ai64:
            r.v.i1 = op.i1;
            decide();
            break;
        case opk_t::af32:
        case opk_t::af64:
            if (to_int(op.f1, r.v.i1))
            {
                decide();
            }
            else
            {
                r.v = m.v;
                r.e = exp_t::lenient;
            }
            break;
        case opk_t::as:
            if (ref_stoll(op.s, r.v.i1))
            {
                decide();
            }
            break;
        default: break;
        }
        break;
    case kind_t::scalar:
        switch (op.k)
        {
        case opk_t::ai32:
        case opk_t::ai64:
            r.v.f1 = static_cast<double>(op.i1);
            decide();
            break;
        case opk_t::af32:
        case opk_t::af64:
            r.v.f1 = op.f1;
            decide();
            break;
        case opk_t::as:
            if (ref_stod(op.s, r.v.f1))
            {
                decide();
            }
            break;
        default: break;
        }
        break;
    case kind_t::ipair:
        switch (op.k)
        {
        case opk_t::ap32:
        case opk_t::ap64:
            r.v.i1 = op.i1;
            r.v.i2 = op.i2;
            decide();
            break;
        case opk_t::apf:
        {
            const bool ok1 = to_int(op.f1, r.v.i1);
            const bool ok2 = to_int(op.f2, r.v.i2);
            if (ok1 && ok2)
            {
                decide();
            }
            else
            {
                r.v = m.v;
                r.e = exp_t::lenient;
            }
            break;
        }
        case opk_t::as:
        {
            std::string a, b;
            if (ref_split(op.s, a, b) && ref_stoll(a, r.v.i1) && ref_stoll(b, r.v.i2))
            {
                decide();
            }
            break;
        }
        default: break;
        }
        break;
    case kind_t::fpair:
        switch (op.k)
        {
        case opk_t::ap32:
        case opk_t::ap64:
            r.v.f1 = static_cast<double>(op.i1);
            r.v.f2 = static_cast<double>(op.i2);
            decide();
            break;
        case opk_t::apf:
            r.v.f1 = op.f1;
            r.v.f2 = op.f2;
            decide();
            break;
        case opk_t::as:
        {
            std::string a, b;
            if (ref_split(op.s, a, b) && ref_stod(a, r.v.f1) && ref_stod(b, r.v.f2))
            {
                decide();
            }
            break;
        }
        default: break;
        }
        break;
    case kind_t::enumeration:
        switch (op.k)
        {
        case opk_t::as:
            r.v.s = op.s;
            decide();
            break;
        case opk_t::ae_color:
            r.v.s = g_color_names[op.e];
            decide();
            break;
        case opk_t::ae_shape:
            r.v.s = g_shape_names[op.e];
            decide();
            break;
        default: break;
        }
        break;
    case kind_t::string:
        if (op.k == opk_t::as)
        {
            r.v.s = op.s;
            r.e   = exp_t::accept;
        }
        break;
    default: break;
    }
    if (r.e == exp_t::reject)
    {
        r.v = m.v;
    }
    return r;
}

template <class F>
bool throws(const F& f, std::string* what = nullptr)
{
    try
    {
        f();
        return false;
    }
    catch (const std::exception& e)
    {
        if (what != nullptr)
        {
            *what = e.what();
        }
        return true;
    }
    catch (...)
    {
        if (what != nullptr)
        {
            *what = "non-standard exception";
        }
        return true;
    }
}

void lib_assign(parameter_t& p, const op_t& op)
{
    switch (op.k)
    {
    case opk_t::ai32: p = static_cast<int32_t>(op.i1); break;
    case opk_t::ai64: p = static_cast<int64_t>(op.i1); break;
    case opk_t::af32: p = static_cast<float>(op.f1); break;
    case opk_t::af64: p = op.f1; break;
    case opk_t::ap32: p = std::make_tuple(static_cast<int32_t>(op.i1), static_cast<int32_t>(op.i2)); break;
    case opk_t::ap64: p = std::make_tuple(static_cast<int64_t>(op.i1), static_cast<int64_t>(op.i2)); break;
    case opk_t::apf: p = std::make_tuple(op.f1, op.f2); break;
    case opk_t::as: p = string_t{op.s}; break;
    case opk_t::ae_color: p = static_cast<vf_color>(op.e); break;
    case opk_t::ae_shape: p = static_cast<vf_shape>(op.e); break;
    default: break;
    }
}

// ------------------------------------------------------------------------------------------------------------------
// the monitor: one step of a history on (real parameter, model)

struct trace_t
{
    std::string              object; ///< what is being driven (for witnesses)
    std::vector<std::string> steps;
    bool                     changed{false};        ///< an accepted assignment changed the stored value
    bool                     rejected_after{false}; ///< a rejection happened after such a change
    int64_t                  accepted{0}, rejected{0};
};

vf::json_t witness(const trace_t& t, const model_t& before, const std::string& what)
{
    vf::json_t j;
    j.kv("object", t.object).kv("parameter_before_last_step", model_str(before)).kv("what", what);
    j.strs("history", t.steps);
    return j;
}

// the stored state must be the model's state: same kind + declared domain, value inside the domain, value as expected
bool check_state(vf::ctx_t& c, const parameter_t& p, const model_t& expected, const model_t& before, const trace_t& t,
                 const char* clause_for_value)
{
    const auto obs = observe(p);
    const auto k   = std::string(kind_name(expected.d.kind));
    c.count("domain_checks");
    if (!same_domain(obs.d, expected.d) || obs.name != expected.name)
    {
        c.violation("C19|declared-domain-changed|" + k, witness(t, before, "stored: " + model_str(obs)));
        return false;
    }
    if (!in_domain(obs.d, obs.v))
    {
        c.violation("C19|out-of-domain|" + k, witness(t, before, "stored: " + model_str(obs)));
        return false;
    }
    if (!same_value(obs.d.kind, obs.v, expected.v))
    {
        c.violation(std::string("C19|") + clause_for_value + "|" + k,
                    witness(t, before, "stored: " + model_str(obs) + " expected: " + model_str(expected)));
        return false;
    }
    return true;
}

// typed read of the matching kind returns the model's value
void check_typed_read(vf::ctx_t& c, const parameter_t& p, const model_t& m, const trace_t& t, const bool library_enum)
{
    bool        ok = true;
    std::string what;
    const bool  threw = throws(
        [&]()
        {
            switch (m.d.kind)
            {
            case kind_t::integer: ok = p.value<int64_t>() == m.v.i1; break;
            case kind_t::scalar: ok = p.value<scalar_t>() == m.v.f1; break;
            case kind_t::ipair: ok = p.value_pair<int64_t>() == std::make_tuple(m.v.i1, m.v.i2); break;
            case kind_t::fpair: ok = p.value_pair<scalar_t>() == std::make_tuple(m.v.f1, m.v.f2); break;
            case kind_t::string: ok = p.value<string_t>() == m.v.s; break;
            case kind_t::enumeration:
                if (!library_enum)
                {
                    const auto e = p.value<vf_color>();
                    ok           = m.v.s == g_color_names[static_cast<int>(e)];
                }
                break;
            default: break;
            }
        },
        &what);
    c.count("typed_reads");
    if (threw || !ok)
    {
        c.violation(std::string("C19|typed-read|") + kind_name(m.d.kind),
                    witness(t, m, threw ? "matching typed read threw: " + what : "matching typed read returned another value"));
    }
}

// every type-mismatched read throws
void check_mismatched_reads(vf::ctx_t& c, const parameter_t& p, const model_t& m, const trace_t& t)
{
    const auto k    = m.d.kind;
    const auto must = [&](const char* read, const bool applies, const auto& f)
    {
        if (!applies)
        {
            return;
        }
        c.count("mismatched_reads");
        if (!throws(f))
        {
            c.violation(std::string("C19|mismatched-read|") + kind_name(k) + "|" + read,
                        witness(t, m, std::string("type-mismatched read did not throw: ") + read));
        }
    };
    const bool num  = k == kind_t::integer || k == kind_t::scalar;
    const bool pair = k == kind_t::ipair || k == kind_t::fpair;
    must("value<string>", k != kind_t::string, [&]() { (void)p.value<string_t>(); });
    must("value<enum>", k != kind_t::enumeration, [&]() { (void)p.value<vf_color>(); });
    must("value<int64>", !num, [&]() { (void)p.value<int64_t>(); });
    must("value<double>", !num, [&]() { (void)p.value<scalar_t>(); });
    must("value_pair<int64>", !pair, [&]() { (void)p.value_pair<int64_t>(); });
    must("value_pair<double>", !pair, [&]() { (void)p.value_pair<scalar_t>(); });
    // an enumeration read as another enumeration type (disjoint names)
    must("value<foreign-enum>",
         k == kind_t::enumeration && std::find(m.d.edomain.begin(), m.d.edomain.end(), "circle") == m.d.edomain.end(),
         [&]() { (void)p.value<vf_shape>(); });
}

// apply one operation to both sides and judge it; returns false when the lock-step is lost (violation reported)
bool step(vf::ctx_t& c, parameter_t& p, model_t& m, const op_t& op, trace_t& t, const bool library_enum = false)
{
    const auto before = m;
    const auto k      = std::string(kind_name(m.d.kind));
    if (op.k == opk_t::wr)
    {
        t.steps.push_back("write-read");
        parameter_t q;
        std::string what;
        c.count("write_read");
        if (throws(
                [&]()
                {
                    std::ostringstream os;
                    p.write(os);
                    std::istringstream is(os.str());
                    q.read(is);
                    critical(is.peek() != std::char_traits<char>::eof(), "trailing bytes after reading the parameter back");
                },
                &what))
        {
            c.violation("C19|write-read-threw|" + k, witness(t, before, what));
            return false;
        }
        if (q != p)
        {
            c.violation("C19|write-read-not-equal|" + k, witness(t, before, "operator!= after write+read: " + model_str(observe(q))));
            return false;
        }
        p = q;
        if (!check_state(c, p, m, before, t, "write-read-value"))
        {
            return false;
        }
        check_typed_read(c, p, m, t, library_enum);
        check_mismatched_reads(c, p, m, t);
        return true;
    }

    const auto  exp = expect(m, op);
    std::string what;
    const bool  threw = throws([&]() { lib_assign(p, op); }, &what);
    t.steps.push_back(op_str(op) + (threw ? " -> threw" : " -> ok"));
    const auto opn = std::string(op_name(op.k));

    switch (exp.e)
    {
    case exp_t::accept:
        c.count("accepted_assignments");
        ++t.accepted;
        if (threw)
        {
            c.violation("C19|valid-assignment-threw|" + k + "|" + opn,
                        witness(t, before, "in-domain assignment threw: " + what.substr(0, 200)));
            (void)check_state(c, p, before, before, t, "value-changed-by-throwing-assignment");
            return false;
        }
        m.v = exp.v;
        if (!check_state(c, p, m, before, t, "accepted-read-back"))
        {
            return false;
        }
        if (!same_value(m.d.kind, before.v, m.v))
        {
            t.changed = true;
        }
        break;
    case exp_t::reject:
        c.count("rejected_assignments");
        ++t.rejected;
        if (!threw)
        {
            c.violation("C19|invalid-assignment-accepted|" + k + "|" + opn,
                        witness(t, before, "assignment outside the domain / of the wrong type did not throw; stored: " + model_str(observe(p))));
            return false;
        }
        if (!check_state(c, p, m, before, t, "rejected-assignment-changed-value"))
        {
            return false;
        }
        if (t.changed)
        {
            t.rejected_after = true;
        }
        break;
    default:
        c.count("lenient_float_to_integer");
        if (threw)
        {
            if (!check_state(c, p, m, before, t, "rejected-assignment-changed-value"))
            {
                return false;
            }
            if (t.changed)
            {
                t.rejected_after = true;
            }
        }
        else
        {
            // accepted: whatever was stored must lie in the declared domain
            const auto obs = observe(p);
            m.v            = obs.v;
            if (!check_state(c, p, m, before, t, "accepted-read-back"))
            {
                return false;
            }
        }
        break;
    }
    check_typed_read(c, p, m, t, library_enum);
    return true;
}

LEorLT comp(const bool le)
{
    return le ? LEorLT{LE} : LEorLT{LT};
}

// construct the real parameter of a model; returns false if the constructor threw
bool construct(const model_t& m, parameter_t& out, std::string* what = nullptr)
{
    return !throws(
        [&]()
        {
            const auto& d = m.d;
            switch (d.kind)
            {
            case kind_t::integer: out = parameter_t::make_integer(m.name, d.imin, comp(d.minle), m.v.i1, comp(d.maxle), d.imax); break;
            case kind_t::scalar: out = parameter_t::make_scalar(m.name, d.fmin, comp(d.minle), m.v.f1, comp(d.maxle), d.fmax); break;
            case kind_t::ipair:
                out = parameter_t::make_integer_pair(m.name, d.imin, comp(d.minle), m.v.i1, comp(d.valle), m.v.i2, comp(d.maxle), d.imax);
                break;
            case kind_t::fpair:
                out = parameter_t::make_scalar_pair(m.name, d.fmin, comp(d.minle), m.v.f1, comp(d.valle), m.v.f2, comp(d.maxle), d.fmax);
                break;
            case kind_t::enumeration:
            {
                int e = 0;
                for (int i = 0; i < 4; ++i)
                {
                    if (m.v.s == g_color_names[i])
                    {
                        e = i;
                    }
                }
                out = parameter_t::make_enum(m.name, static_cast<vf_color>(e));
                break;
            }
            case kind_t::string: out = parameter_t::make_string(m.name, m.v.s); break;
            default: out = parameter_t{}; break;
            }
        },
        what);
}

// ------------------------------------------------------------------------------------------------------------------
// mode "parameter", exhaustive part: 26 configurations (kind x LE/LT flags) x 12-operation alphabets

constexpr int     g_alphabet = 12;
constexpr int     g_prefix   = 4; ///< a case = one history of this length (every shorter history is one of its prefixes)
constexpr int64_t ipow(const int64_t b, const int e) { return e == 0 ? 1 : b * ipow(b, e - 1); }
constexpr int     g_configs        = 1 + 1 + 4 + 4 + 8 + 8;
constexpr int64_t g_histories      = ipow(g_alphabet, g_prefix);
constexpr int64_t g_exhaustive_cases = g_configs * g_histories;

double up(const double v) { return std::nextafter(v, std::numeric_limits<double>::infinity()); }
double dn(const double v) { return std::nextafter(v, -std::numeric_limits<double>::infinity()); }

model_t exhaustive_config(const int config)
{
    model_t m;
    m.name = "p";
    if (config == 0)
    {
        m.d.kind    = kind_t::enumeration;
        m.d.edomain = {"red", "green", "blue", "bluegreen"};
        m.v.s       = "green";
    }
    else if (config == 1)
    {
        m.d.kind = kind_t::string;
        m.v.s    = "abc";
    }
    else if (config < 6)
    {
        const int f = config - 2;
        m.d.kind    = kind_t::integer;
        m.d.minle   = (f & 1) != 0;
        m.d.maxle   = (f & 2) != 0;
        m.d.imin    = -3;
        m.d.imax    = 12;
        m.v.i1      = 5;
    }
    else if (config < 10)
    {
        const int f = config - 6;
        m.d.kind    = kind_t::scalar;
        m.d.minle   = (f & 1) != 0;
        m.d.maxle   = (f & 2) != 0;
        m.d.fmin    = -1.5;
        m.d.fmax    = 2.5;
        m.v.f1      = 0.5;
    }
    else if (config < 18)
    {
        const int f = config - 10;
        m.d.kind    = kind_t::ipair;
        m.d.minle   = (f & 1) != 0;
        m.d.valle   = (f & 2) != 0;
        m.d.maxle   = (f & 4) != 0;
        m.d.imin    = -3;
        m.d.imax    = 12;
        m.v.i1      = 2;
        m.v.i2      = 7;
    }
    else
    {
        const int f = config - 18;
        m.d.kind    = kind_t::fpair;
        m.d.minle   = (f & 1) != 0;
        m.d.valle   = (f & 2) != 0;
        m.d.maxle   = (f & 4) != 0;
        m.d.fmin    = -1.5;
        m.d.fmax    = 2.5;
        m.v.f1      = 0.0;
        m.v.f2      = 1.0;
    }
    return m;
}

std::vector<op_t> alphabet(const kind_t k)
{
    const double nan = std::numeric_limits<double>::quiet_NaN();
    switch (k)
    {
    case kind_t::enumeration:
        return {op_color(vf_color::red), op_color(vf_color::bluegreen), op_color(vf_color::blue), op_s("green"), op_s("blue"),
                op_s("bluegree"),        op_s(""),                      op_s("Red"),              op_shape(vf_shape::circle),
                op_i64(1),               op_pf(0.0, 1.0),               op_wr()};
    case kind_t::string:
        return {op_s(""),    op_s("hello world"), op_s("1.5"),    op_s(std::string("a,b|c\n\0z", 9)), op_s(std::string(300, 'x')),
                op_i64(3),   op_f64(1.5),         op_p64(1, 2),   op_color(vf_color::red),            op_shape(vf_shape::circle),
                op_wr(),     op_s("abc")};
    case kind_t::integer:
        return {op_i64(-3),  op_i32(12),     op_i64(7),     op_i64(13),   op_f64(-3.9),           op_f64(12.5),
                op_f64(nan), op_s("8.9"),    op_s("x12"),   op_p64(4, 6), op_color(vf_color::red), op_wr()};
    case kind_t::scalar:
        return {op_f64(-1.5),     op_f64(up(-1.5)), op_f64(dn(-1.5)), op_f64(2.5),  op_f64(dn(2.5)),   op_f64(up(2.5)),
                op_f64(nan),      op_i64(2),        op_s("2.5"),      op_s("nan"),  op_pf(0.0, 1.0),   op_wr()};
    case kind_t::ipair:
        return {op_p64(-3, 12),  op_p32(5, 5),  op_p64(6, 5), op_p64(-4, 5), op_p32(5, 13), op_pf(-3.9, 12.9),
                op_pf(nan, 5.0), op_s("4,9"),   op_s("9;9"),  op_s("4"),     op_i64(5),     op_wr()};
    default:
        return {op_pf(-1.5, 2.5), op_pf(0.75, 0.75), op_pf(up(0.75), 0.75), op_pf(dn(-1.5), 1.0), op_pf(1.0, up(2.5)), op_p64(-1, 2),
                op_pf(nan, 1.0),  op_s("0.5|2.5"),   op_s("1:1"),           op_s("what"),         op_f64(1.0),         op_wr()};
    }
}

// all extensions of the current history by up to `depth` more operations (depth-first, states are copied)
bool extend(vf::ctx_t& c, const parameter_t& p, const model_t& m, const std::vector<op_t>& ops, const trace_t& t, const int depth)
{
    for (const auto& op : ops)
    {
        auto p2 = p;
        auto m2 = m;
        auto t2 = t;
        c.count("exhaustive_extension_steps");
        if (!step(c, p2, m2, op, t2))
        {
            return false;
        }
        if (depth > 1 && !extend(c, p2, m2, ops, t2, depth - 1))
        {
            return false;
        }
    }
    return true;
}

void case_exhaustive(vf::ctx_t& c, const int extra_depth)
{
    const auto config = static_cast<int>(c.index / g_histories);
    auto       code   = c.index % g_histories;
    auto       m      = exhaustive_config(config);
    const auto ops    = alphabet(m.d.kind);

    trace_t t;
    t.object = "parameter_t " + model_str(m);
    parameter_t p;
    std::string what;
    c.count("exhaustive_cases");
    c.maxc("exhaustive_total", g_exhaustive_cases);
    if (!construct(m, p, &what))
    {
        c.violation(std::string("C19|valid-default-threw|") + kind_name(m.d.kind), witness(t, m, what));
        return;
    }
    if (!check_state(c, p, m, m, t, "default-read-back"))
    {
        return;
    }
    check_mismatched_reads(c, p, m, t);

    uint64_t h = vf::mix(0xC19, static_cast<uint64_t>(config));
    bool     ok = true;
    for (int i = 0; i < g_prefix && ok; ++i)
    {
        const auto& op = ops[static_cast<size_t>(code % g_alphabet)];
        code /= g_alphabet;
        h  = op_hash(op, h);
        ok = step(c, p, m, op, t);
        c.count("history_steps");
    }
    if (ok)
    {
        check_mismatched_reads(c, p, m, t);
        if (extra_depth > 0)
        {
            (void)extend(c, p, m, ops, t, extra_depth);
        }
    }
    if (t.changed && t.rejected_after)
    {
        c.nontrivial(h);
    }
    if (c.want_sample())
    {
        vf::json_t j;
        j.kv("part", "exhaustive").kv("parameter", model_str(exhaustive_config(config))).strs("history", t.steps);
        j.kv("final", model_str(m)).kv("extra_depth", extra_depth);
        c.sample(j);
    }
}

// ------------------------------------------------------------------------------------------------------------------
// mode "parameter", random part

const double g_inf = std::numeric_limits<double>::infinity();
const double g_nan = std::numeric_limits<double>::quiet_NaN();
const double g_max = std::numeric_limits<double>::max();

model_t random_model(vf::rng_t& rng, const std::string& name)
{
    model_t m;
    m.name    = name;
    m.d.minle = rng.chance(0.5);
    m.d.valle = rng.chance(0.5);
    m.d.maxle = rng.chance(0.5);
    const auto k = rng.integer(0, 99);
    if (k < 2)
    {
        m.d.kind = kind_t::none;
    }
    else if (k < 12)
    {
        m.d.kind    = kind_t::enumeration;
        m.d.edomain = {"red", "green", "blue", "bluegreen"};
        m.v.s       = g_color_names[rng.integer(0, 3)];
    }
    else if (k < 20)
    {
        m.d.kind = kind_t::string;
        m.v.s    = rng.chance(0.3) ? std::string() : std::string(static_cast<size_t>(rng.integer(1, 12)), static_cast<char>('a' + rng.integer(0, 25)));
    }
    else if (k < 60)
    {
        const bool pair  = k >= 40;
        m.d.kind         = pair ? kind_t::ipair : kind_t::integer;
        const auto style = rng.integer(0, 9);
        int64_t    lo = 0, hi = 0;
        if (style < 4)
        {
            lo = rng.integer(-20, 20);
            hi = lo + rng.integer(0, 30);
        }
        else if (style < 6)
        {
            lo = rng.integer(-1000000, 1000000);
            hi = lo + rng.integer(1, 2000000);
        }
        else if (style < 7)
        {
            lo = -(int64_t(1) << 62) + rng.integer(0, 1000);
            hi = (int64_t(1) << 62) - rng.integer(0, 1000);
        }
        else if (style < 8)
        {
            lo = hi = rng.integer(-5, 5); // degenerate: only valid with <= on both sides
        }
        else if (style < 9)
        {
            lo = rng.integer(0, 10);
            hi = lo + 1; // two values: empty under < <
        }
        else
        {
            hi = rng.integer(-5, 5);
            lo = hi + rng.integer(1, 3); // inverted: empty
        }
        m.d.imin = lo;
        m.d.imax = hi;
        // default: mostly inside, sometimes on/over the bounds
        const auto pick = [&]() -> int64_t
        {
            const auto r = rng.integer(0, 9);
            if (r == 0) return lo;
            if (r == 1) return hi;
            if (r == 2) return rng.chance(0.5) ? lo - 1 : hi + 1;
            return (lo <= hi) ? rng.integer(lo, hi) : lo;
        };
        m.v.i1 = pick();
        m.v.i2 = pick();
        if (pair && m.v.i1 > m.v.i2 && rng.chance(0.9))
        {
            std::swap(m.v.i1, m.v.i2);
        }
    }
    else
    {
        const bool pair  = k >= 80;
        m.d.kind         = pair ? kind_t::fpair : kind_t::scalar;
        const auto style = rng.integer(0, 9);
        double     lo = 0, hi = 0;
        if (style < 2)
        {
            lo = 0.0;
            hi = 1.0;
        }
        else if (style < 5)
        {
            const auto scale = rng.loguniform(1e-6, 1e6);
            lo               = scale * rng.uniform(-1.0, 1.0);
            hi               = lo + scale * rng.uniform(0.0, 2.0);
        }
        else if (style < 6)
        {
            lo = 0.0;
            hi = g_max;
        }
        else if (style < 7)
        {
            lo = -g_max;
            hi = g_max;
        }
        else if (style < 8)
        {
            lo = hi = rng.chance(0.5) ? 0.0 : rng.uniform(-3.0, 3.0);
        }
        else if (style < 9)
        {
            lo = rng.uniform(-3.0, 3.0);
            hi = up(lo); // adjacent doubles
        }
        else
        {
            hi = rng.uniform(-3.0, 3.0);
            lo = hi + rng.uniform(0.1, 1.0);
        }
        m.d.fmin = lo;
        m.d.fmax = hi;
        const auto pick = [&]() -> double
        {
            const auto r = rng.integer(0, 11);
            if (r == 0) return lo;
            if (r == 1) return hi;
            if (r == 2) return rng.chance(0.5) ? dn(lo) : up(hi);
            if (r == 3) return rng.chance(0.5) ? up(lo) : dn(hi);
            if (r == 4 && rng.chance(0.3)) return g_nan;
            if (lo <= hi)
            {
                const auto v = (style == 5 || style == 6) ? rng.loguniform(1e-9, 1e9) : lo + (hi - lo) * rng.u01();
                return std::min(hi, std::max(lo, v));
            }
            return lo;
        };
        m.v.f1 = pick();
        m.v.f2 = pick();
        if (pair && m.v.f1 > m.v.f2 && rng.chance(0.9))
        {
            std::swap(m.v.f1, m.v.f2);
        }
    }
    return m;
}

int64_t pick_int(vf::rng_t& rng, const model_t& m)
{
    const auto lo = m.d.imin, hi = m.d.imax;
    switch (rng.integer(0, 13))
    {
    case 0: return lo - 1;
    case 1: return lo;
    case 2: return lo + 1;
    case 3: return hi - 1;
    case 4: return hi;
    case 5: return hi + 1;
    case 6: return lo / 2 + hi / 2;
    case 7: return 0;
    case 8: return m.v.i1;
    case 9: return m.v.i2;
    case 10: return rng.chance(0.5) ? std::numeric_limits<int64_t>::min() : std::numeric_limits<int64_t>::max();
    case 11: return static_cast<int64_t>(rng.next());
    default: return (lo <= hi) ? rng.integer(lo, hi) : rng.integer(hi, lo);
    }
}

double pick_real(vf::rng_t& rng, const model_t& m)
{
    const bool integral = m.d.kind == kind_t::integer || m.d.kind == kind_t::ipair;
    const auto lo       = integral ? static_cast<double>(m.d.imin) : m.d.fmin;
    const auto hi       = integral ? static_cast<double>(m.d.imax) : m.d.fmax;
    const auto span     = std::isfinite(hi - lo) ? std::fabs(hi - lo) : 1e300;
    switch (rng.integer(0, 21))
    {
    case 0: return lo;
    case 1: return hi;
    case 2: return up(lo);
    case 3: return dn(lo);
    case 4: return up(hi);
    case 5: return dn(hi);
    case 6: return lo / 2 + hi / 2;
    case 7: return lo - span * rng.u01() - (integral ? 1.0 : 0.0);
    case 8: return hi + span * rng.u01() + (integral ? 1.0 : 0.0);
    case 9: return rng.chance(0.5) ? 0.0 : -0.0;
    case 10: return rng.chance(0.5) ? g_max : -g_max;
    case 11: return std::numeric_limits<double>::denorm_min() * (rng.chance(0.5) ? 1.0 : -1.0);
    case 12: return g_nan;
    case 13: return rng.chance(0.5) ? g_inf : -g_inf;
    case 14: return integral ? lo - rng.uniform(0.01, 0.99) : m.v.f1; // truncates toward zero: back onto / over the bound
    case 15: return integral ? hi + rng.uniform(0.01, 0.99) : m.v.f2;
    case 16: return rng.chance(0.5) ? 9223372036854775808.0 : -9223372036854775808.0; // +-2^63
    case 17: return rng.chance(0.5) ? dn(9223372036854775808.0) : dn(-9223372036854775808.0);
    case 18: return rng.loguniform(1e-12, 1e30) * (rng.chance(0.5) ? 1.0 : -1.0);
    default: return (lo <= hi) ? std::min(hi, std::max(lo, lo + (hi - lo) * rng.u01())) + (integral && rng.chance(0.5) ? rng.uniform(-0.9, 0.9) : 0.0) : lo;
    }
}

std::string number_string(vf::rng_t& rng, const model_t& m, const bool integral_text)
{
    std::string s;
    if (integral_text)
    {
        s = std::to_string(pick_int(rng, m));
    }
    else
    {
        const auto v = pick_real(rng, m);
        char       b[64];
        std::snprintf(b, sizeof(b), rng.chance(0.15) ? "%a" : (rng.chance(0.2) ? "%.3f" : "%.17g"), v);
        s = b;
    }
    return s;
}

std::string pick_string(vf::rng_t& rng, const model_t& m)
{
    const bool integral = m.d.kind == kind_t::integer || m.d.kind == kind_t::ipair;
    const bool pair     = m.d.kind == kind_t::ipair || m.d.kind == kind_t::fpair;
    if (m.d.kind == kind_t::enumeration)
    {
        const auto& any = m.d.edomain[static_cast<size_t>(rng.integer(0, static_cast<int64_t>(m.d.edomain.size()) - 1))];
        switch (rng.integer(0, 8))
        {
        case 0: return "";
        case 1:
        {
            auto s = any; // another case
            s[0]   = static_cast<char>(std::isupper(static_cast<unsigned char>(s[0])) ? std::tolower(static_cast<unsigned char>(s[0])) : std::toupper(static_cast<unsigned char>(s[0])));
            return s;
        }
        case 2: return any.substr(0, any.size() - 1); // strict prefix
        case 3: return any + " ";
        case 4: return "circle";
        case 5: return "1";
        default: return any;
        }
    }
    if (m.d.kind == kind_t::string || m.d.kind == kind_t::none)
    {
        std::string s(static_cast<size_t>(rng.integer(0, 40)), ' ');
        for (auto& ch : s)
        {
            ch = static_cast<char>(rng.integer(0, 255));
        }
        return s;
    }
    const auto one = [&]() -> std::string
    {
        switch (rng.integer(0, 19))
        {
        case 0: return "";
        case 1: return "what";
        case 2: return "nan";
        case 3: return rng.chance(0.5) ? "inf" : "-inf";
        case 4: return "1e999";
        case 5: return "1e-999";
        case 6: return "99999999999999999999";
        case 7: return "-99999999999999999999";
        case 8: return "+" + number_string(rng, m, integral);
        case 9: return number_string(rng, m, integral) + "x";
        case 10: return "x" + number_string(rng, m, integral);
        case 11: return number_string(rng, m, !integral); // real text for an integer parameter and vice versa
        case 12: return "0x1A";
        case 13: return "--1";
        default: return number_string(rng, m, integral);
        }
    };
    if (!pair)
    {
        auto s = one();
        if (rng.chance(0.1))
        {
            s = " " + s; // leading white space is skipped by stoll/stod
        }
        return s;
    }
    static const char seps[] = {';', ',', ':', '|', '/', ' '};
    const auto        sep    = std::string(1, seps[rng.integer(0, 5)]);
    switch (rng.integer(0, 9))
    {
    case 0: return one();      // one token only
    case 1: return sep + one(); // second value missing
    case 2: return one() + sep;
    case 3: return "";
    default:
    {
        auto a = one(), b = one();
        // keep the text inside the documented "<a><sep><b>" form: tokens without separators or blanks
        const auto clean = [](std::string& x)
        {
            if (x.empty() || x.find_first_of(";,:|/ ") != std::string::npos)
            {
                x = "3";
            }
        };
        clean(a);
        clean(b);
        return a + sep + b;
    }
    }
}

op_t random_op(vf::rng_t& rng, const model_t& m)
{
    const auto kind = m.d.kind;
    // mostly operations of the matching type, sometimes any
    int which = static_cast<int>(rng.integer(0, 10));
    if (rng.chance(0.75))
    {
        switch (kind)
        {
        case kind_t::integer:
        case kind_t::scalar: which = static_cast<int>(rng.pick(std::vector<int>{0, 1, 2, 3, 3, 7, 7, 10})); break;
        case kind_t::ipair:
        case kind_t::fpair: which = static_cast<int>(rng.pick(std::vector<int>{4, 5, 6, 6, 7, 7, 10})); break;
        case kind_t::enumeration: which = static_cast<int>(rng.pick(std::vector<int>{7, 7, 8, 8, 9, 10})); break;
        default: which = static_cast<int>(rng.pick(std::vector<int>{7, 7, 7, 10})); break;
        }
    }
    const auto fits32 = [](const int64_t v) { return v >= std::numeric_limits<int32_t>::min() && v <= std::numeric_limits<int32_t>::max(); };
    switch (static_cast<opk_t>(which))
    {
    case opk_t::ai32:
    {
        const auto v = pick_int(rng, m);
        return fits32(v) ? op_i32(static_cast<int32_t>(v)) : op_i64(v);
    }
    case opk_t::ai64: return op_i64(pick_int(rng, m));
    case opk_t::af32: return op_f32(static_cast<float>(pick_real(rng, m)));
    case opk_t::af64: return op_f64(pick_real(rng, m));
    case opk_t::ap32:
    {
        auto a = pick_int(rng, m), b = pick_int(rng, m);
        if (a > b && rng.chance(0.7))
        {
            std::swap(a, b);
        }
        return (fits32(a) && fits32(b)) ? op_p32(static_cast<int32_t>(a), static_cast<int32_t>(b)) : op_p64(a, b);
    }
    case opk_t::ap64:
    {
        auto a = pick_int(rng, m), b = rng.chance(0.2) ? a : pick_int(rng, m);
        if (a > b && rng.chance(0.7))
        {
            std::swap(a, b);
        }
        return op_p64(a, b);
    }
    case opk_t::apf:
    {
        auto a = pick_real(rng, m), b = rng.chance(0.2) ? a : pick_real(rng, m);
        if (a > b && rng.chance(0.7))
        {
            std::swap(a, b);
        }
        return op_pf(a, b);
    }
    case opk_t::as: return op_s(pick_string(rng, m));
    case opk_t::ae_color: return op_color(static_cast<vf_color>(rng.integer(0, 3)));
    case opk_t::ae_shape: return op_shape(static_cast<vf_shape>(rng.integer(0, 1)));
    default: return op_wr();
    }
}

std::string unknown_name(vf::rng_t& rng, const std::vector<model_t>& models)
{
    for (int attempt = 0; attempt < 20; ++attempt)
    {
        std::string n;
        const auto& base = models.empty() ? std::string("p") : models[static_cast<size_t>(rng.integer(0, static_cast<int64_t>(models.size()) - 1))].name;
        switch (rng.integer(0, 5))
        {
        case 0: n = ""; break;
        case 1: n = base + " "; break;
        case 2: n = base.substr(0, base.size() - 1); break;
        case 3: n = base + "::x"; break;
        case 4:
            n = base;
            n[0] = static_cast<char>(std::toupper(static_cast<unsigned char>(n[0])));
            break;
        default: n = "q" + std::to_string(rng.integer(0, 1000)); break;
        }
        bool clash = false;
        for (const auto& m : models)
        {
            clash = clash || m.name == n;
        }
        if (!clash)
        {
            return n;
        }
    }
    return "\x01never-registered";
}

// every registered parameter still equals its model (lookup by name included)
bool check_configurable(vf::ctx_t& c, const configurable_t& cfg, const std::vector<model_t>& models, const trace_t& t)
{
    c.count("configurable_checks");
    if (cfg.parameters().size() != models.size())
    {
        c.violation("C19|configurable|parameter-count", witness(t, model_t{}, "registered parameters: " + std::to_string(cfg.parameters().size()) +
                                                                                  " expected: " + std::to_string(models.size())));
        return false;
    }
    for (size_t i = 0; i < models.size(); ++i)
    {
        const parameter_t* byname = nullptr;
        if (throws([&]() { byname = &cfg.parameter(models[i].name); }) || byname != &cfg.parameters()[i] || cfg.parameter_if(models[i].name) != byname)
        {
            c.violation("C19|configurable|lookup-by-name", witness(t, models[i], "parameter(name) does not resolve to the registered parameter"));
            return false;
        }
        if (!check_state(c, *byname, models[i], models[i], t, "other-parameter-changed"))
        {
            return false;
        }
    }
    return true;
}

void case_random(vf::ctx_t& c)
{
    auto&   rng = c.rng;
    trace_t t;
    t.object = "configurable_t";
    c.count("random_cases");

    // registration: valid defaults must construct and read back, invalid ones must throw
    configurable_t       cfg;
    std::vector<model_t> models;
    const auto           wanted = rng.integer(1, 5);
    uint64_t             h      = 0xC19C19;
    for (int64_t i = 0, tries = 0; i < wanted && tries < 40; ++tries)
    {
        auto        m = random_model(rng, std::string(1, static_cast<char>('a' + i)) + (rng.chance(0.5) ? "::par" : ""));
        if (m.d.kind == kind_t::none)
        {
            // a default-constructed parameter has no name: at most one of them can be registered
            m.name = "";
            if (std::any_of(models.begin(), models.end(), [](const model_t& x) { return x.name.empty(); }))
            {
                continue;
            }
        }
        parameter_t p;
        std::string what;
        const bool  valid = in_domain(m.d, m.v);
        const bool  built = construct(m, p, &what);
        t.steps.push_back("construct " + model_str(m) + (built ? " -> ok" : " -> threw"));
        c.count(valid ? "construct_valid" : "construct_invalid");
        if (valid && !built)
        {
            c.violation(std::string("C19|valid-default-threw|") + kind_name(m.d.kind), witness(t, m, what));
            return;
        }
        if (!valid)
        {
            if (built)
            {
                // the statement: the stored value lies in the declared domain (after the empty history as well)
                c.violation(std::string("C19|invalid-default-accepted|") + kind_name(m.d.kind), witness(t, m, "stored: " + model_str(observe(p))));
                return;
            }
            continue;
        }
        if (!check_state(c, p, m, m, t, "default-read-back"))
        {
            return;
        }
        if (throws([&]() { cfg.register_parameter(p); }, &what))
        {
            c.violation("C19|configurable|register-threw", witness(t, m, what));
            return;
        }
        h = vf::hash_bytes(model_str(m).data(), model_str(m).size(), h);
        models.push_back(m);
        ++i;
    }
    if (models.empty())
    {
        c.inconclusive("no-valid-parameter-generated");
        return;
    }
    if (!check_configurable(c, cfg, models, t))
    {
        return;
    }
    for (size_t i = 0; i < models.size(); ++i)
    {
        check_mismatched_reads(c, cfg.parameters()[i], models[i], t);
    }

    std::string          copy_note;
    configurable_t       frozen;        ///< a copy taken in the middle of the history: must keep the values it had
    std::vector<model_t> frozen_models; ///< ... which are these
    bool                 have_frozen = false;

    const auto length = rng.integer(2, 14);
    for (int64_t s = 0; s < length; ++s)
    {
        const auto r = rng.integer(0, 99);
        c.count("history_steps");
        if (r < 8)
        {
            // unknown names throw (const and non-const lookup, assignment through config) and change nothing
            const auto name = unknown_name(rng, models);
            t.steps.push_back("lookup unknown '" + name + "'");
            const auto& ccfg = cfg;
            c.count("unknown_name_lookups", 3);
            const bool t1 = throws([&]() { (void)cfg.parameter(name); });
            const bool t2 = throws([&]() { (void)ccfg.parameter(name); });
            const bool t3 = throws([&]() { cfg.config(name.c_str(), 1); });
            if (!t1 || !t2 || !t3)
            {
                c.violation("C19|unknown-name-did-not-throw", witness(t, model_t{}, !t1 ? "parameter(name)" : !t2 ? "parameter(name) const" : "config(name, value)"));
                return;
            }
            h = vf::hash_bytes(name.data(), name.size(), h);
        }
        else if (r < 13)
        {
            // serialise the whole object and continue with what was read back
            t.steps.push_back("write-read configurable");
            configurable_t back;
            std::string    what;
            c.count("write_read_configurable");
            if (throws(
                    [&]()
                    {
                        std::ostringstream os;
                        cfg.write(os);
                        std::istringstream is(os.str());
                        back.read(is);
                    },
                    &what))
            {
                c.violation("C19|write-read-threw|configurable", witness(t, model_t{}, what));
                return;
            }
            cfg = back;
            h   = vf::mix(h, 0x77);
        }
        else if (r < 17 && !have_frozen)
        {
            t.steps.push_back("copy configurable (the copy is checked at the end)");
            frozen        = cfg;
            frozen_models = models;
            have_frozen   = true;
            h             = vf::mix(h, 0x78);
        }
        else
        {
            const auto i  = static_cast<size_t>(rng.integer(0, static_cast<int64_t>(models.size()) - 1));
            const auto op = random_op(rng, models[i]);
            h             = op_hash(op, vf::mix(h, i));
            parameter_t* p = nullptr;
            if (throws([&]() { p = &cfg.parameter(models[i].name); }) || p == nullptr)
            {
                c.violation("C19|configurable|lookup-by-name", witness(t, models[i], "parameter(name) threw for a registered name"));
                return;
            }
            t.steps.push_back("on '" + models[i].name + "':");
            if (!step(c, *p, models[i], op, t))
            {
                return;
            }
        }
        if (!check_configurable(c, cfg, models, t))
        {
            return;
        }
    }
    for (size_t i = 0; i < models.size(); ++i)
    {
        check_mismatched_reads(c, cfg.parameters()[i], models[i], t);
    }
    if (have_frozen)
    {
        t.steps.push_back("check the copy taken earlier");
        c.count("copy_independence_checks");
        if (!check_configurable(c, frozen, frozen_models, t))
        {
            return;
        }
    }
    if (t.changed && t.rejected_after)
    {
        c.nontrivial(h);
    }
    if (c.want_sample())
    {
        vf::json_t j;
        j.kv("part", "random").strs("history", t.steps);
        c.sample(j);
    }
}

// ------------------------------------------------------------------------------------------------------------------
// mode "factory": generic machinery

// byte-exact signature of what a probe observed (NaN compares equal to itself, -0.0 differs from 0.0)
struct sig_t
{
    std::string bytes;
    std::string note;          ///< human readable summary for witnesses
    bool        failed{false}; ///< the probe ended with an exception (compared like any other result)

    void raw(const void* p, const size_t n) { bytes.append(static_cast<const char*>(p), n); }
    void add(const double v) { raw(&v, sizeof(v)); }
    void add(const int64_t v) { raw(&v, sizeof(v)); }
    void add(const std::string& s)
    {
        add(static_cast<int64_t>(s.size()));
        bytes += s;
    }
    template <class ttensor>
    void tensor(const ttensor& t)
    {
        add(static_cast<int64_t>(t.size()));
        if (t.size() > 4096)
        {
            // large storage (e.g. the pre-allocated pixels of an image data source): a hash of the raw bytes
            add(static_cast<int64_t>(vf::hash_bytes(t.data(), static_cast<size_t>(t.size()) * sizeof(*t.data()))));
            return;
        }
        for (tensor_size_t i = 0, n = t.size(); i < n; ++i)
        {
            const auto v = static_cast<double>(t.data()[i]);
            add(v);
        }
    }
    bool operator==(const sig_t& o) const { return bytes == o.bytes; }
    bool operator!=(const sig_t& o) const { return bytes != o.bytes; }
};

std::string sig_diff(const sig_t& a, const sig_t& b)
{
    size_t i = 0;
    while (i < a.bytes.size() && i < b.bytes.size() && a.bytes[i] == b.bytes[i])
    {
        ++i;
    }
    return "sizes " + std::to_string(a.bytes.size()) + "/" + std::to_string(b.bytes.size()) + ", first difference at byte " + std::to_string(i) +
           "; first: " + a.note.substr(0, 300) + " | second: " + b.note.substr(0, 300);
}

using snapshot_t = std::vector<model_t>;

snapshot_t params_snapshot(const configurable_t& obj, const std::string& prefix = "")
{
    snapshot_t s;
    for (const auto& p : obj.parameters())
    {
        auto m = observe(p);
        m.name = prefix + m.name;
        s.push_back(m);
    }
    return s;
}

model_t fact(const std::string& name, const int64_t value)
{
    model_t m;
    m.name   = name;
    m.d.kind = kind_t::integer;
    m.d.imin = std::numeric_limits<int64_t>::min();
    m.d.imax = std::numeric_limits<int64_t>::max();
    m.v.i1   = value;
    return m;
}

model_t fact(const std::string& name, const std::string& value)
{
    model_t m;
    m.name   = name;
    m.d.kind = kind_t::string;
    m.v.s    = value;
    return m;
}

// the configuration of an object as far as the public interface shows it (parameters + family specific attributes)
template <class tobject>
snapshot_t snapshot(const tobject& obj)
{
    snapshot_t s;
    s.push_back(fact("type_id", obj.type_id()));
    if constexpr (std::is_base_of_v<configurable_t, tobject>)
    {
        const auto p = params_snapshot(obj);
        s.insert(s.end(), p.begin(), p.end());
    }
    if constexpr (std::is_base_of_v<solver_t, tobject>)
    {
        s.push_back(fact("solver-type", static_cast<int64_t>(obj.type())));
        s.push_back(fact("lsearch0", obj.lsearch0().type_id()));
        s.push_back(fact("lsearchk", obj.lsearchk().type_id()));
        const auto p0 = params_snapshot(obj.lsearch0(), "lsearch0/");
        const auto pk = params_snapshot(obj.lsearchk(), "lsearchk/");
        s.insert(s.end(), p0.begin(), p0.end());
        s.insert(s.end(), pk.begin(), pk.end());
    }
    if constexpr (std::is_base_of_v<lsearchk_t, tobject>)
    {
        s.push_back(fact("lsearchk-type", static_cast<int64_t>(obj.type())));
    }
    if constexpr (std::is_base_of_v<loss_t, tobject>)
    {
        s.push_back(fact("convex", obj.convex() ? 1 : 0));
        s.push_back(fact("smooth", obj.smooth() ? 1 : 0));
    }
    if constexpr (std::is_base_of_v<function_t, tobject>)
    {
        s.push_back(fact("size", obj.size()));
        s.push_back(fact("convex", obj.convex() ? 1 : 0));
        s.push_back(fact("smooth", obj.smooth() ? 1 : 0));
        s.push_back(fact("name", obj.name()));
        s.push_back(fact("constraints", static_cast<int64_t>(obj.constraints().size())));
        model_t m;
        m.name   = "strong_convexity";
        m.d.kind = kind_t::scalar;
        m.d.fmin = -g_max;
        m.d.fmax = g_max;
        m.v.f1   = obj.strong_convexity();
        s.push_back(m);
    }
    return s;
}

// name of the first entry that differs ("" if equal)
std::string snapshot_diff(const snapshot_t& a, const snapshot_t& b)
{
    if (a.size() != b.size())
    {
        return "<number of entries: " + std::to_string(a.size()) + " vs " + std::to_string(b.size()) + ">";
    }
    for (size_t i = 0; i < a.size(); ++i)
    {
        if (!same_model(a[i], b[i]))
        {
            return model_str(a[i]) + " vs " + model_str(b[i]);
        }
    }
    return "";
}

template <class tobject>
std::string serialize(const tobject& obj)
{
    if constexpr (std::is_base_of_v<configurable_t, tobject>)
    {
        std::ostringstream os;
        obj.write(os);
        return os.str();
    }
    else
    {
        return "";
    }
}

struct fctx_t
{
    vf::ctx_t&  c;
    std::string family;
    std::string id;
    std::string tag; ///< family:id
    trace_t     t;

    void fail(const std::string& clause, const std::string& what, const std::string& object = "")
    {
        vf::json_t j;
        j.kv("object", tag).kv("what", what);
        j.strs("steps", t.steps);
        c.violation("C19|" + clause + "|" + (object.empty() ? tag : object), j);
    }
};

// boundary / wrong-type / garbage assignments on every registered parameter of a real object, against the model
template <class tobject>
bool fuzz_parameters(fctx_t& f, tobject& obj)
{
    auto& rng = f.c.rng;
    auto& c   = f.c;
    for (size_t i = 0; i < obj.parameters().size(); ++i)
    {
        auto        m    = observe(obj.parameters()[i]);
        const auto  name = m.name;
        parameter_t* p   = nullptr;
        if (throws([&]() { p = &obj.parameter(name); }) || p != &obj.parameters()[i])
        {
            f.fail("lookup-by-name", "parameter('" + name + "') does not resolve to the registered parameter", f.tag + "|" + name);
            return false;
        }
        trace_t t;
        t.object = f.tag + " parameter " + model_str(m);
        check_mismatched_reads(c, *p, m, t);
        const auto steps = rng.integer(3, 6);
        for (int64_t s = 0; s < steps; ++s)
        {
            c.count("object_parameter_assignments");
            if (!step(c, *p, m, random_op(rng, m), t, true))
            {
                return false;
            }
        }
        f.t.changed        = f.t.changed || t.changed;
        f.t.rejected_after = f.t.rejected_after || t.rejected_after;
    }
    // unknown names
    if (!obj.parameters().empty() || rng.chance(0.5))
    {
        snapshot_t names = params_snapshot(obj);
        for (int k = 0; k < 3; ++k)
        {
            const auto  name = unknown_name(rng, names);
            const auto& cobj = obj;
            c.count("unknown_name_lookups", 2);
            if (!throws([&]() { (void)obj.parameter(name); }) || !throws([&]() { (void)cobj.parameter(name); }))
            {
                f.fail("unknown-name-did-not-throw", "parameter('" + name + "')");
                return false;
            }
        }
    }
    return true;
}

// assign `target` (a value the model accepts) through the library and check it was taken
bool assign_checked(fctx_t& f, configurable_t& obj, const model_t& current, const val_t& target)
{
    op_t op;
    switch (current.d.kind)
    {
    case kind_t::integer: op = op_i64(target.i1); break;
    case kind_t::scalar: op = op_f64(target.f1); break;
    case kind_t::ipair: op = op_p64(target.i1, target.i2); break;
    case kind_t::fpair: op = op_pf(target.f1, target.f2); break;
    default: op = op_s(target.s); break;
    }
    parameter_t* p = nullptr;
    if (throws([&]() { p = &obj.parameter(current.name); }) || p == nullptr)
    {
        f.fail("lookup-by-name", "parameter('" + current.name + "') threw", f.tag + "|" + current.name);
        return false;
    }
    auto    m = current;
    trace_t t;
    t.object = f.tag + " parameter " + model_str(m);
    f.c.count("object_parameter_assignments");
    return step(f.c, *p, m, op, t, true);
}

// a moderate in-domain value near the current one (for behaviour probes), or nothing
bool moderate_value(vf::rng_t& rng, const model_t& m, val_t& out)
{
    out             = m.v;
    const auto& n   = m.name;
    const auto ends = [&](const char* suffix)
    {
        const std::string s = suffix;
        return n.size() >= s.size() && n.compare(n.size() - s.size(), s.size(), s) == 0;
    };
    switch (m.d.kind)
    {
    case kind_t::integer:
    {
        int64_t v = 0;
        if (ends("solver::max_evals")) v = rng.integer(20, 150);
        else if (ends("tuner::max_evals")) v = rng.integer(10, 16);
        else if (ends("bundle::max_size")) v = rng.integer(7, 40); // sizes 3..6: candidate defect F4 (C02/C03), not judged here
        else if (ends("lsearchk::max_iterations")) v = rng.integer(1, 60);
        else if (ends("splitter::folds")) v = rng.integer(2, 5);
        else if (ends("linear::batch")) v = rng.integer(10, 64);
        else if (ends("dtree::max_depth")) v = rng.integer(1, 3);
        else
        {
            v = static_cast<int64_t>(std::llround(static_cast<double>(m.v.i1) * std::exp(rng.uniform(-1.0, 1.0)))) + rng.integer(-1, 1);
            v = std::min<int64_t>(v, std::max<int64_t>(m.v.i1, 200));
        }
        out.i1 = v;
        break;
    }
    case kind_t::scalar:
    {
        const auto v = m.v.f1;
        out.f1       = (v != 0.0) ? v * std::exp(rng.uniform(-1.5, 1.5)) : ((std::isfinite(m.d.fmax - m.d.fmin) && m.d.fmax - m.d.fmin < 1e3) ? m.d.fmin + (m.d.fmax - m.d.fmin) * rng.uniform(0.05, 0.95) : rng.uniform(0.0, 1.0));
        break;
    }
    case kind_t::ipair:
    {
        const auto s = std::exp(rng.uniform(-0.7, 0.7));
        out.i1       = static_cast<int64_t>(std::llround(static_cast<double>(m.v.i1) * s));
        out.i2       = static_cast<int64_t>(std::llround(static_cast<double>(m.v.i2) * s));
        break;
    }
    case kind_t::fpair:
    {
        // move both values, keep their order
        const auto a = m.v.f1 * std::exp(rng.uniform(-1.0, 1.0));
        const auto b = m.v.f2 * std::exp(rng.uniform(-1.0, 1.0));
        out.f1       = std::min(a, b);
        out.f2       = std::max(a, b);
        break;
    }
    case kind_t::enumeration: out.s = m.d.edomain[static_cast<size_t>(rng.integer(0, static_cast<int64_t>(m.d.edomain.size()) - 1))]; break;
    case kind_t::string: return false; // set by the family (paths)
    default: return false;
    }
    return in_domain(m.d, out);
}

template <class tobject>
bool configure_moderately(fctx_t& f, tobject& obj, const double probability)
{
    if constexpr (std::is_base_of_v<configurable_t, tobject>)
    {
        for (const auto& m : params_snapshot(obj))
        {
            // the parameters that bound the cost of a probe are always set
            const auto ends = [&](const std::string& suffix)
            { return m.name.size() >= suffix.size() && m.name.compare(m.name.size() - suffix.size(), suffix.size(), suffix) == 0; };
            const bool force = ends("::max_evals") || ends("bundle::max_size") || ends("lsearchk::max_iterations");
            val_t      v;
            if ((f.c.rng.chance(probability) || force) && moderate_value(f.c.rng, m, v) && !assign_checked(f, obj, m, v))
            {
                return false;
            }
        }
    }
    return true;
}

// give every parameter another in-domain value; returns the number of parameters changed (-1: lock-step lost)
template <class tobject>
int modify_all(fctx_t& f, tobject& obj)
{
    int changed = 0;
    if constexpr (std::is_base_of_v<configurable_t, tobject>)
    {
        auto& rng = f.c.rng;
        for (const auto& m : params_snapshot(obj))
        {
            val_t v     = m.v;
            bool  found = false;
            for (int attempt = 0; attempt < 12 && !found; ++attempt)
            {
                v = m.v;
                switch (m.d.kind)
                {
                case kind_t::integer: v.i1 = m.v.i1 + (rng.chance(0.5) ? 1 : -1) * rng.integer(1, 3); break;
                case kind_t::scalar: v.f1 = (m.v.f1 != 0.0) ? m.v.f1 * rng.uniform(0.5, 1.5) : rng.uniform(-1.0, 1.0); break;
                case kind_t::ipair:
                    v.i1 = m.v.i1 + rng.integer(-2, 2);
                    v.i2 = m.v.i2 + rng.integer(-2, 2);
                    break;
                case kind_t::fpair:
                    v.f1 = m.v.f1 * rng.uniform(0.6, 1.0);
                    v.f2 = m.v.f2 * rng.uniform(0.6, 1.0);
                    break;
                case kind_t::enumeration: v.s = m.d.edomain[static_cast<size_t>(rng.integer(0, static_cast<int64_t>(m.d.edomain.size()) - 1))]; break;
                case kind_t::string: v.s = m.v.s + "/modified"; break;
                default: break;
                }
                found = in_domain(m.d, v) && !same_value(m.d.kind, v, m.v);
            }
            if (found)
            {
                if (!assign_checked(f, obj, m, v))
                {
                    return -1;
                }
                ++changed;
            }
        }
    }
    return changed;
}

// the generic protocol for one object of one factory
//  tprobe:  sig_t(tobject&)            behaviour on the probe input of this case (deterministic)
//  tsetup:  void(tobject&)             family specific configuration before cloning
//  tmutate: void(tobject&)             family specific modification (beyond parameters) of an object
//  tpost:   sig_t(tobject&)            behaviour that uses the state left by the probe (predict of a fitted model, ...)
template <class tobject, class tsetup, class tprobe, class tmutate, class tpost>
void check_object(fctx_t& f, factory_t<tobject>& factory, const tsetup& setup, const tprobe& probe, const tmutate& mutate,
                  const bool repeatable, const tpost& post)
{
    auto& c = f.c;

    // (1) the factory returns an object that reports the id it was registered under
    c.count("factory_get");
    auto obj = factory.get(f.id);
    if (!obj || !factory.has(f.id))
    {
        f.fail("factory-get", "get(id) returned null for a listed id");
        return;
    }
    if (obj->type_id() != f.id)
    {
        f.fail("type-id", "type_id() = '" + obj->type_id() + "'");
        return;
    }
    // (2) every default inside its domain
    const auto defaults = snapshot(*obj);
    for (const auto& m : defaults)
    {
        c.count("default_checks");
        if (!in_domain(m.d, m.v))
        {
            f.fail("default-out-of-domain", model_str(m), f.tag + "|" + m.name);
            return;
        }
    }
    // (3) assignments on every registered parameter of a second instance
    if constexpr (std::is_base_of_v<configurable_t, tobject>)
    {
        auto scratch = factory.get(f.id);
        if (!scratch || !fuzz_parameters(f, *scratch))
        {
            return;
        }
    }
    // (4) configure, then clone twice
    f.t.steps.push_back("configure the object");
    if (!configure_moderately(f, *obj, 0.6))
    {
        return;
    }
    if (defaults.size() > 1 && snapshot_diff(defaults, snapshot(*obj)).empty() && !configure_moderately(f, *obj, 1.0))
    {
        return; // (second pass: an object with parameters is never cloned in its default configuration only)
    }
    setup(*obj);
    const auto configured = snapshot(*obj);
    f.t.steps.push_back("clone it twice (control, victim)");
    auto control = obj->clone();
    auto victim  = obj->clone();
    c.count("clone_equal_checks");
    if (!control || !victim)
    {
        f.fail("clone-null", "clone() returned null");
        return;
    }
    for (const auto* cl : {control.get(), victim.get()})
    {
        if (const auto d = snapshot_diff(configured, snapshot(*cl)); !d.empty())
        {
            f.fail("clone-not-equal", "object vs clone: " + d);
            return;
        }
        if (serialize(*obj) != serialize(*cl))
        {
            f.fail("clone-serialisation-differs", "write() of the object and of its clone differ");
            return;
        }
    }
    // (5) identical behaviour on the probe input
    f.t.steps.push_back("probe object, control, victim");
    const auto r_obj = probe(*obj);
    const auto r_ctl = probe(*control);
    const auto r_vic = probe(*victim);
    c.count("clone_behaviour_checks", 2);
    if (r_obj != r_ctl || r_obj != r_vic)
    {
        f.fail("clone-behaves-differently", sig_diff(r_obj, r_obj != r_ctl ? r_ctl : r_vic));
        return;
    }
    const auto after_probe = snapshot(*obj);
    const auto ser_obj     = serialize(*obj);
    if (snapshot_diff(after_probe, snapshot(*control)) != "" || ser_obj != serialize(*control))
    {
        f.fail("clone-not-equal", "object and clone differ after the same probe: " + snapshot_diff(after_probe, snapshot(*control)));
        return;
    }
    // (5b) a clone taken now (fitted model, line-search with history, loaded data source) carries the state over
    {
        f.t.steps.push_back("clone the object after the probe and use both");
        auto late = obj->clone();
        c.count("clone_equal_checks");
        if (!late)
        {
            f.fail("clone-null", "clone() returned null");
            return;
        }
        if (const auto d = snapshot_diff(after_probe, snapshot(*late)); !d.empty() || serialize(*late) != ser_obj)
        {
            f.fail("clone-not-equal", "object (after the probe) vs its clone: " + (d.empty() ? std::string("write() differs") : d));
            return;
        }
        const auto p_obj = post(*obj), p_late = post(*late), p_ctl = post(*control);
        c.count("clone_behaviour_checks", 2);
        if (p_obj != p_late || p_obj != p_ctl)
        {
            f.fail("clone-behaves-differently", "after the probe: " + sig_diff(p_obj, p_obj != p_late ? p_late : p_ctl));
            return;
        }
    }
    const auto after_post = snapshot(*obj);
    if (const auto d = snapshot_diff(after_probe, after_post); !d.empty() || serialize(*obj) != ser_obj)
    {
        // (the post-probe only reads)
        f.fail("clone-behaves-differently", "using the object changed its configuration: " + d);
        return;
    }
    // (6) modify the victim: object and control unaffected (configuration, serialisation, behaviour)
    f.t.steps.push_back("modify the victim");
    const int changed = modify_all(f, *victim);
    if (changed < 0)
    {
        return;
    }
    mutate(*victim);
    c.count("independence_checks");
    if (const auto d = snapshot_diff(after_probe, snapshot(*obj)); !d.empty() || serialize(*obj) != ser_obj)
    {
        f.fail("clone-not-independent", "modifying a clone changed the object: " + d);
        return;
    }
    if (const auto d = snapshot_diff(after_probe, snapshot(*control)); !d.empty() || serialize(*control) != ser_obj)
    {
        f.fail("clone-not-independent", "modifying a clone changed another clone: " + d);
        return;
    }
    const auto r_obj2 = probe(*obj);
    const auto r_ctl2 = probe(*control);
    c.count("independence_behaviour_checks");
    if (r_obj2 != r_ctl2 || (repeatable && r_obj2 != r_obj))
    {
        f.fail("clone-not-independent", "behaviour changed after modifying a clone: " + sig_diff(r_obj2 != r_ctl2 ? r_ctl2 : r_obj, r_obj2));
        return;
    }
    // (7) modify the object: the control clone is unaffected
    f.t.steps.push_back("modify the object");
    const auto ctl_before = snapshot(*control);
    const auto ctl_ser    = serialize(*control);
    if (modify_all(f, *obj) < 0)
    {
        return;
    }
    mutate(*obj);
    c.count("independence_checks");
    if (const auto d = snapshot_diff(ctl_before, snapshot(*control)); !d.empty() || serialize(*control) != ctl_ser)
    {
        f.fail("clone-not-independent", "modifying the object changed its clone: " + d);
        return;
    }
    if (repeatable)
    {
        const auto r_ctl3 = probe(*control);
        c.count("independence_behaviour_checks");
        if (r_ctl3 != r_obj)
        {
            f.fail("clone-not-independent", "behaviour of the clone changed after modifying the object: " + sig_diff(r_obj, r_ctl3));
            return;
        }
    }
    // (8) nothing of this reached the factory's prototype
    c.count("prototype_checks");
    auto fresh = factory.get(f.id);
    if (!fresh)
    {
        f.fail("factory-get", "second get(id) returned null");
        return;
    }
    if (const auto d = snapshot_diff(defaults, snapshot(*fresh)); !d.empty())
    {
        f.fail("prototype-changed", "an object obtained later from the factory differs from the first one: " + d);
        return;
    }

    uint64_t h = vf::hash_str(f.tag.c_str());
    for (const auto& m : configured)
    {
        const auto s = model_str(m);
        h            = vf::hash_bytes(s.data(), s.size(), h);
    }
    h = vf::hash_bytes(r_obj.bytes.data(), r_obj.bytes.size(), h);
    // non-trivial: the behaviour probe produced data (did not end with an exception, e.g. a data source without files)
    if (!r_obj.bytes.empty() && !r_obj.failed)
    {
        c.nontrivial(h);
    }
    else
    {
        c.count("probe_failed_identically");
    }
    if (c.want_sample())
    {
        vf::json_t  j;
        strings_t   conf;
        for (const auto& m : configured)
        {
            conf.push_back(model_str(m));
        }
        j.kv("object", f.tag).strs("configuration", conf).kv("probe", r_obj.note.substr(0, 400)).kv("parameters_modified_on_clone", changed);
        c.sample(j);
    }
}

// ------------------------------------------------------------------------------------------------------------------
// mode "factory": probe inputs

// small in-memory data source owned by the harness (scalar, categorical, multi-label and structured inputs)
class probe_datasource_t final : public datasource_t
{
public:
    probe_datasource_t(const tensor_size_t samples, const uint64_t seed, const bool missing)
        : datasource_t("c19-probe")
        , m_samples(samples)
        , m_seed(seed)
        , m_missing(missing)
    {
    }

    rdatasource_t clone() const override { return std::make_unique<probe_datasource_t>(*this); }

private:
    void do_load() override
    {
        vf::rng_t  rng(m_seed);
        features_t features{feature_t{"x0"}.scalar(feature_type::float64),
                            feature_t{"x1"}.scalar(feature_type::float32),
                            feature_t{"x2"}.scalar(feature_type::int16),
                            feature_t{"c0"}.sclass(3),
                            feature_t{"c1"}.sclass(2),
                            feature_t{"m0"}.mclass(3),
                            feature_t{"img"}.scalar(feature_type::float64, make_dims(2, 4, 4)),
                            feature_t{"y"}.scalar(feature_type::float64)};
        resize(m_samples, features, 7U);
        for (tensor_size_t s = 0; s < m_samples; ++s)
        {
            // the first samples have every value, so that no categorical feature is entirely missing in a subset
            const auto has = [&]() { return !m_missing || s < 6 || !rng.chance(0.1); };
            const auto x0 = rng.uniform(-1.0, 1.0), x1 = rng.uniform(0.0, 3.0);
            const auto x2 = static_cast<int>(rng.integer(0, 9));
            const auto c0 = static_cast<int>(s < 3 ? s : rng.integer(0, 2));
            const auto c1 = static_cast<int>(s < 2 ? s : rng.integer(0, 1));
            if (has()) set(s, 0, x0);
            if (has()) set(s, 1, x1);
            if (has()) set(s, 2, x2);
            if (has()) set(s, 3, c0);
            if (has()) set(s, 4, c1);
            if (has())
            {
                tensor_mem_t<int8_t, 1> hits(3);
                for (tensor_size_t k = 0; k < 3; ++k)
                {
                    hits(k) = static_cast<int8_t>(rng.integer(0, 1));
                }
                set(s, 5, hits);
            }
            if (has())
            {
                tensor_mem_t<double, 3> img(2, 4, 4);
                for (tensor_size_t k = 0; k < img.size(); ++k)
                {
                    img.data()[k] = rng.uniform(-1.0, 1.0);
                }
                set(s, 6, img);
            }
            set(s, 7, 0.7 * x0 - 0.2 * x1 + 0.05 * x2 + (c0 == 1 ? 0.5 : -0.1) + 0.05 * rng.uniform(-1.0, 1.0));
        }
    }

    tensor_size_t m_samples;
    uint64_t      m_seed;
    bool          m_missing;
};

rfunction_t pick_function(vf::rng_t& rng, const bool smooth_only, std::string& desc)
{
    const auto ids = function_t::all().ids();
    for (int attempt = 0; attempt < 40; ++attempt)
    {
        auto proto = function_t::all().get(rng.pick(ids));
        auto fn    = proto->make(rng.integer(2, 5), rng.integer(5, 20));
        if (!fn)
        {
            fn = std::move(proto);
        }
        if (!smooth_only || fn->smooth())
        {
            desc = fn->name();
            return fn;
        }
    }
    auto fn = function_t::all().get("sphere");
    desc    = fn->name();
    return fn;
}

vector_t random_point(vf::rng_t& rng, const tensor_size_t n, const double radius)
{
    vector_t x(n);
    for (tensor_size_t i = 0; i < n; ++i)
    {
        x(i) = rng.uniform(-radius, radius);
    }
    return x;
}

template <class F>
sig_t guarded(const F& f)
{
    sig_t g;
    try
    {
        f(g);
    }
    catch (const std::exception& e)
    {
        g.add(std::string("exception: ") + e.what());
        g.note += std::string(" exception: ") + e.what();
        g.failed = true;
    }
    return g;
}

sig_t dataset_sig(const dataset_t& d, const indices_t& samples)
{
    return guarded(
        [&](sig_t& g)
        {
            g.add(d.features());
            g.add(d.columns());
            for (tensor_size_t i = 0; i < d.features(); ++i)
            {
                const auto feature = d.feature(i);
                g.add(scat(feature));
                if (feature.is_sclass())
                {
                    sclass_mem_t buffer;
                    g.tensor(d.select(samples, i, buffer));
                }
                else if (feature.is_mclass())
                {
                    mclass_mem_t buffer;
                    g.tensor(d.select(samples, i, buffer));
                }
                else if (feature.is_scalar())
                {
                    scalar_mem_t buffer;
                    g.tensor(d.select(samples, i, buffer));
                }
                else
                {
                    struct_mem_t buffer;
                    g.tensor(d.select(samples, i, buffer));
                }
            }
            tensor2d_t buffer;
            g.tensor(d.flatten(samples, buffer));
            g.note = scat("features=", d.features(), ",columns=", d.columns());
        });
}

indices_t random_subset(vf::rng_t& rng, const tensor_size_t total, const tensor_size_t always)
{
    std::vector<tensor_size_t> picked;
    for (tensor_size_t s = 0; s < total; ++s)
    {
        if (s < always || rng.chance(0.7))
        {
            picked.push_back(s);
        }
    }
    indices_t samples(static_cast<tensor_size_t>(picked.size()));
    for (size_t i = 0; i < picked.size(); ++i)
    {
        samples(static_cast<tensor_size_t>(i)) = picked[i];
    }
    return samples;
}

// families whose probe leaves no state behind: the post-probe is the probe itself
template <class tobject, class tsetup, class tprobe, class tmutate>
void check_object(fctx_t& f, factory_t<tobject>& factory, const tsetup& setup, const tprobe& probe, const tmutate& mutate,
                  const bool repeatable)
{
    check_object(f, factory, setup, probe, mutate, repeatable, probe);
}

const auto no_setup  = [](auto&) {};
const auto no_mutate = [](auto&) {};

// ------------------------------------------------------------------------------------------------------------------
// the eleven families

void family_solver(fctx_t& f)
{
    auto&       rng = f.c.rng;
    std::string fdesc;
    const auto  fn    = pick_function(rng, false, fdesc);
    const auto  x0    = random_point(rng, fn->size(), 1.0);
    const auto  rseed = f.c.seed | 1U;
    f.t.steps.push_back("probe: minimize " + fdesc + " from a random point");

    const auto setup = [&](solver_t& s)
    {
        auto l0 = lsearch0_t::all().get(rng.pick(lsearch0_t::all().ids()));
        auto lk = lsearchk_t::all().get(rng.pick(lsearchk_t::all().ids()));
        (void)configure_moderately(f, *l0, 0.5);
        (void)configure_moderately(f, *lk, 0.5);
        s.lsearch0(*l0);
        s.lsearchk(*lk);
    };
    const auto probe = [&](const solver_t& s)
    {
        return guarded(
            [&](sig_t& g)
            {
                nano::verif::rng_seed().store(rseed); // gradient sampling draws from make_rng()
                const auto st = s.minimize(*fn, x0, make_null_logger());
                g.add(static_cast<int64_t>(st.status()));
                g.add(st.fx());
                g.tensor(st.x());
                g.tensor(st.gx());
                g.add(st.fcalls());
                g.add(st.gcalls());
                g.note = scat("status=", st.status(), ",fx=", st.fx(), ",fcalls=", st.fcalls(), ",gcalls=", st.gcalls());
            });
    };
    const auto mutate = [&](solver_t& s)
    {
        const auto ids = lsearch0_t::all().ids();
        for (const auto& id : ids)
        {
            if (id != s.lsearch0().type_id())
            {
                s.lsearch0(id);
                break;
            }
        }
        auto lk = s.lsearchk().clone();
        (void)modify_all(f, *lk);
        s.lsearchk(*lk);
    };
    check_object(f, solver_t::all(), setup, probe, mutate, true);
}

void family_lsearch0(fctx_t& f)
{
    auto&       rng = f.c.rng;
    std::string fdesc;
    const auto  fn = pick_function(rng, true, fdesc);
    const vector_t xs[3] = {random_point(rng, fn->size(), 1.0), random_point(rng, fn->size(), 1.0), random_point(rng, fn->size(), 0.5)};
    f.t.steps.push_back("probe: three initial step sizes on " + fdesc);
    const auto probe = [&](lsearch0_t& l)
    {
        return guarded(
            [&](sig_t& g)
            {
                double last = -1.0;
                for (const auto& x : xs)
                {
                    const auto st = solver_state_t{*fn, x};
                    vector_t   d{fn->size()};
                    d             = -st.gx();
                    const auto t0 = l.get(st, d, last);
                    g.add(t0);
                    g.note += scat("t0=", t0, " ");
                    last = (std::isfinite(t0) && t0 > 0.0) ? t0 : 1.0;
                }
            });
    };
    const auto post = [&](lsearch0_t& l)
    {
        return guarded(
            [&](sig_t& g)
            {
                // a short gradient step away from the last probe point: the estimate depends on what the previous call
                // left behind (function value, slope)
                const auto prev = solver_state_t{*fn, xs[2]};
                vector_t   x{fn->size()};
                x             = xs[2] - 1e-3 * prev.gx();
                const auto st = solver_state_t{*fn, x};
                vector_t   d{fn->size()};
                d             = -st.gx();
                const auto t0 = l.get(st, d, 0.5);
                g.add(t0);
                g.note = scat("t0=", t0);
            });
    };
    check_object(f, lsearch0_t::all(), no_setup, probe, no_mutate, false, post); // stateful: keeps the previous step
}

void family_lsearchk(fctx_t& f)
{
    auto&       rng = f.c.rng;
    std::string fdesc;
    const auto  fn = pick_function(rng, true, fdesc);
    const auto  x0 = random_point(rng, fn->size(), 1.0);
    const auto  t0 = rng.loguniform(1e-3, 1e1);
    f.t.steps.push_back("probe: line search on " + fdesc);
    const auto probe = [&](const lsearchk_t& l)
    {
        return guarded(
            [&](sig_t& g)
            {
                auto     st = solver_state_t{*fn, x0};
                vector_t d{fn->size()};
                d                  = -st.gx();
                const auto [ok, t] = l.get(st, d, t0, make_null_logger());
                g.add(static_cast<int64_t>(ok));
                g.add(t);
                g.add(st.fx());
                g.tensor(st.x());
                g.note = scat("ok=", ok, ",t=", t, ",fx=", st.fx());
            });
    };
    check_object(f, lsearchk_t::all(), no_setup, probe, no_mutate, true);
}

void family_loss(fctx_t& f)
{
    auto&      rng = f.c.rng;
    const auto n = rng.integer(1, 12), k = rng.integer(1, 5);
    tensor4d_t targets(n, k, 1, 1), outputs(n, k, 1, 1);
    for (tensor_size_t s = 0; s < n; ++s)
    {
        const auto hot = rng.integer(0, k - 1);
        for (tensor_size_t i = 0; i < k; ++i)
        {
            double t = rng.uniform(-2.0, 2.0);
            if (f.id.rfind("s-", 0) == 0)
            {
                t = (i == hot) ? +1.0 : -1.0;
            }
            else if (f.id.rfind("m-", 0) == 0)
            {
                t = rng.chance(0.5) ? +1.0 : -1.0;
            }
            targets(s, i, 0, 0) = t;
            outputs(s, i, 0, 0) = 2.0 * rng.normal();
        }
    }
    f.t.steps.push_back("probe: error/value/vgrad on random targets and outputs");
    const auto probe = [&](const loss_t& l)
    {
        return guarded(
            [&](sig_t& g)
            {
                tensor1d_t errors, values;
                tensor4d_t vgrads;
                l.error(targets, outputs, errors);
                l.value(targets, outputs, values);
                l.vgrad(targets, outputs, vgrads);
                g.tensor(errors);
                g.tensor(values);
                g.tensor(vgrads);
                g.note = scat("value0=", values(0), ",error0=", errors(0));
            });
    };
    check_object(f, loss_t::all(), no_setup, probe, no_mutate, true);
}

void family_splitter(fctx_t& f)
{
    auto&      rng = f.c.rng;
    const auto n   = rng.integer(10, 120);
    f.t.steps.push_back("probe: split " + std::to_string(n) + " samples");
    const auto probe = [&](const splitter_t& s)
    {
        return guarded(
            [&](sig_t& g)
            {
                const auto splits = s.split(arange(0, n));
                g.add(static_cast<int64_t>(splits.size()));
                for (const auto& [train, valid] : splits)
                {
                    g.tensor(train);
                    g.tensor(valid);
                }
                g.note = scat("folds=", splits.size());
            });
    };
    check_object(f, splitter_t::all(), no_setup, probe, no_mutate, true);
}

void family_tuner(fctx_t& f)
{
    auto&          rng = f.c.rng;
    param_spaces_t spaces;
    const auto     dims = rng.integer(1, 2);
    std::vector<double> centers;
    for (int64_t i = 0; i < dims; ++i)
    {
        const auto m   = rng.integer(3, 9);
        const bool lg  = rng.chance(0.5);
        tensor1d_t grid(m);
        double     cur = lg ? 1e-4 : -2.0;
        for (tensor_size_t j = 0; j < m; ++j)
        {
            cur     = lg ? cur * rng.uniform(2.0, 10.0) : cur + rng.uniform(0.1, 1.0);
            grid(j) = cur;
        }
        centers.push_back(grid(rng.integer(0, m - 1)));
        spaces.emplace_back(scat("h", i), lg ? param_space_t::type::log10 : param_space_t::type::linear, grid);
    }
    const auto callback = [&](const tensor2d_t& params)
    {
        tensor1d_t values(params.size<0>());
        for (tensor_size_t r = 0; r < params.size<0>(); ++r)
        {
            double v = 0.0;
            for (int64_t i = 0; i < dims; ++i)
            {
                const auto d = std::log1p(std::fabs(params(r, i))) - std::log1p(std::fabs(centers[static_cast<size_t>(i)]));
                v += d * d;
            }
            values(r) = v;
        }
        return values;
    };
    f.t.steps.push_back("probe: optimize a " + std::to_string(dims) + "-dimensional grid");
    const auto probe = [&](const tuner_t& t)
    {
        return guarded(
            [&](sig_t& g)
            {
                const auto steps = t.optimize(spaces, callback, make_null_logger());
                g.add(static_cast<int64_t>(steps.size()));
                for (const auto& step : steps)
                {
                    g.tensor(step.m_igrid);
                    g.tensor(step.m_param);
                    g.add(step.m_value);
                }
                g.note = scat("steps=", steps.size(), ",best=", steps.empty() ? 0.0 : steps[0].m_value);
            });
    };
    check_object(f, tuner_t::all(), no_setup, probe, no_mutate, true);
}

void family_wlearner(fctx_t& f)
{
    auto& rng = f.c.rng;
    auto  ds  = probe_datasource_t{f.id == "dtree" ? rng.integer(120, 200) : rng.integer(30, 60), rng.next(), true};
    ds.load();
    auto dataset = dataset_t{ds, 1U};
    for (const char* id : {"identity-sclass", "identity-mclass", "identity-scalar", "identity-struct"})
    {
        dataset.add(generator_t::all().get(id));
    }
    const auto samples = random_subset(rng, dataset.samples(), 8);
    tensor4d_t gradients(cat_dims(dataset.samples(), dataset.target_dims()));
    for (tensor_size_t i = 0; i < gradients.size(); ++i)
    {
        gradients.data()[i] = rng.normal();
    }
    const auto all = arange(0, dataset.samples());
    f.t.steps.push_back("probe: fit " + std::to_string(samples.size()) + " of " + std::to_string(dataset.samples()) + " samples, predict all");
    const auto probe = [&](wlearner_t& w)
    {
        return guarded(
            [&](sig_t& g)
            {
                const auto score = w.fit(dataset, samples, gradients);
                g.add(score);
                g.note = scat("score=", score);
                if (score != wlearner_t::no_fit_score())
                {
                    g.tensor(w.features());
                    g.tensor(w.predict(dataset, all));
                    const auto cluster = w.split(dataset, all);
                    g.add(cluster.groups());
                    for (tensor_size_t s = 0; s < cluster.samples(); ++s)
                    {
                        g.add(cluster.group(s));
                    }
                    g.note += scat(",features=", w.features().size(), ",groups=", cluster.groups());
                }
            });
    };
    const auto mutate = [&](wlearner_t& w)
    {
        // a fitted weak learner: halve its predictions
        (void)throws(
            [&]()
            {
                if (w.features().size() > 0 && w.features().min() >= 0)
                {
                    vector_t scale(1);
                    scale(0) = 0.5;
                    w.scale(scale);
                }
            });
    };
    const auto post = [&](const wlearner_t& w)
    {
        return guarded(
            [&](sig_t& g)
            {
                if (w.features().size() > 0 && w.features().min() >= 0)
                {
                    g.tensor(w.features());
                    g.tensor(w.predict(dataset, all));
                    g.add(w.split(dataset, all).groups());
                }
                else
                {
                    g.add(std::string("not fitted"));
                }
            });
    };
    check_object(f, wlearner_t::all(), no_setup, probe, mutate, true, post);
}

void family_linear(fctx_t& f)
{
    auto& rng = f.c.rng;
    auto  ds  = probe_datasource_t{rng.integer(24, 40), rng.next(), false};
    ds.load();
    auto dataset = dataset_t{ds, 1U};
    dataset.add(generator_t::all().get("identity-scalar"));
    dataset.add(generator_t::all().get("identity-sclass"));
    const auto samples = arange(0, dataset.samples());
    const auto loss    = loss_t::all().get(rng.chance(0.5) ? "mse" : "mae");
    auto       params  = ml::params_t{};
    {
        auto splitter                          = splitter_t::all().get("k-fold");
        splitter->parameter("splitter::folds") = 2;
        auto tuner                             = tuner_t::all().get("local-search");
        tuner->parameter("tuner::max_evals")   = 10;
        auto solver                            = solver_t::all().get("lbfgs");
        solver->parameter("solver::max_evals") = 40;
        solver->parameter("solver::epsilon")   = 1e-4;
        params.splitter(*splitter).tuner(*tuner).solver(*solver);
    }
    f.t.steps.push_back("probe: fit " + std::to_string(dataset.samples()) + " samples with loss " + loss->type_id());
    const auto probe = [&](linear_t& m)
    {
        return guarded(
            [&](sig_t& g)
            {
                const auto result = m.fit(dataset, samples, *loss, params);
                g.add(result.trials());
                g.add(result.optimum_trial());
                g.tensor(m.weights());
                g.tensor(m.bias());
                g.tensor(m.predict(dataset, samples));
                g.note = scat("trials=", result.trials(), ",optimum=", result.optimum_trial(), ",weights=", m.weights().size());
            });
    };
    const auto post = [&](const linear_t& m)
    {
        return guarded(
            [&](sig_t& g)
            {
                g.tensor(m.weights());
                g.tensor(m.bias());
                g.tensor(m.predict(dataset, samples));
            });
    };
    check_object(f, linear_t::all(), no_setup, probe, no_mutate, true, post);
}

void family_function(fctx_t& f)
{
    auto&      rng  = f.c.rng;
    const auto size = function_t::all().get(f.id)->size();
    const auto x    = random_point(rng, size, 2.0);
    f.t.steps.push_back("probe: value and gradient at a random point");
    const auto probe = [&](const function_t& fn)
    {
        return guarded(
            [&](sig_t& g)
            {
                vector_t   gx(fn.size());
                const auto fx  = fn.vgrad(x, gx);
                const auto fx2 = fn.vgrad(x);
                g.add(fx);
                g.add(fx2);
                g.tensor(gx);
                g.note = scat("fx=", fx);
            });
    };
    const auto mutate = [&](function_t& fn) { (void)fn.constrain(-3.0, +3.0); };
    check_object(f, function_t::all(), no_setup, probe, mutate, true);
}

std::string write_csv(vf::rng_t& rng, const std::string& id)
{
    // synthetic files with the layout the registered tabular data sources expect
    const auto base = (std::filesystem::temp_directory_path() / ("c19-ds-" + std::to_string(rng.next() % 1000000))).string();
    std::filesystem::create_directories(base + "/" + id);
    const char* labels[] = {"ka", "kb", "kc"};
    if (id == "iris")
    {
        std::ofstream os(base + "/iris/iris.data");
        for (int r = 0; r < 150; ++r)
        {
            os << rng.uniform(4.0, 8.0) << "," << rng.uniform(2.0, 4.5) << "," << rng.uniform(1.0, 7.0) << "," << rng.uniform(0.1, 2.5) << ","
               << labels[r < 3 ? r : rng.integer(0, 2)] << "\n";
        }
    }
    else
    {
        std::ofstream os(base + "/wine/wine.data");
        for (int r = 0; r < 178; ++r)
        {
            os << labels[r < 3 ? r : rng.integer(0, 2)];
            for (int k = 0; k < 13; ++k)
            {
                os << "," << rng.uniform(0.0, 20.0);
            }
            os << "\n";
        }
    }
    return base;
}

sig_t datasource_sig(datasource_t& d)
{
    return guarded(
        [&](sig_t& g)
        {
            d.load();
            g.add(d.samples());
            g.add(d.features());
            g.add(static_cast<int64_t>(d.type()));
            g.tensor(d.train_samples());
            g.tensor(d.test_samples());
            for (tensor_size_t i = 0; i < d.features(); ++i)
            {
                g.add(scat(d.feature(i)));
                d.visit_inputs(i,
                               [&](const feature_t&, const auto& data, const auto& mask)
                               {
                                   g.tensor(data);
                                   g.tensor(mask);
                               });
            }
            g.note = scat("samples=", d.samples(), ",features=", d.features());
        });
}

void family_datasource(fctx_t& f)
{
    auto&       rng  = f.c.rng;
    std::string base = "/nonexistent/c19";
    const bool  real = (f.id == "iris" || f.id == "wine");
    if (real)
    {
        base = write_csv(rng, f.id);
        f.t.steps.push_back("probe: load synthetic csv files");
    }
    else
    {
        f.t.steps.push_back("probe: load() without data files (must fail identically)");
    }
    const auto setup = [&](datasource_t& d) { d.parameter("datasource::basedir") = base; };
    const auto probe = [&](datasource_t& d) { return datasource_sig(d); };
    const auto post = [&](const datasource_t& d)
    {
        return guarded(
            [&](sig_t& g)
            {
                g.add(d.samples());
                g.add(d.features());
                g.tensor(d.train_samples());
                for (tensor_size_t i = 0; i < d.features(); ++i)
                {
                    g.add(scat(d.feature(i)));
                    d.visit_inputs(i,
                                   [&](const feature_t&, const auto& data, const auto& mask)
                                   {
                                       g.tensor(data);
                                       g.tensor(mask);
                                   });
                }
            });
    };
    check_object(f, datasource_t::all(), setup, probe, no_mutate, true, post);
    if (real)
    {
        std::error_code ec;
        std::filesystem::remove_all(base, ec);
    }
}

void family_generator(fctx_t& f)
{
    auto& rng = f.c.rng;
    auto& c   = f.c;
    auto  ds  = probe_datasource_t{rng.integer(10, 40), rng.next(), true};
    ds.load();
    const auto samples = random_subset(rng, ds.samples(), 2);
    auto&      factory = generator_t::all();

    c.count("factory_get");
    auto obj = factory.get(f.id);
    if (!obj)
    {
        f.fail("factory-get", "get(id) returned null for a listed id");
        return;
    }
    if (obj->type_id() != f.id)
    {
        f.fail("type-id", "type_id() = '" + obj->type_id() + "'");
        return;
    }
    // clones of the unfitted generator, each fitted inside its own dataset
    auto       unfitted_clone = obj->clone();
    const auto raw            = obj.get();
    auto       d1 = dataset_t{ds, 1U}, d2 = dataset_t{ds, 1U};
    d1.add(std::move(obj));
    c.count("clone_equal_checks");
    if (!unfitted_clone || unfitted_clone->type_id() != f.id)
    {
        f.fail("clone-not-equal", "clone() of the unfitted generator: null or another type_id");
        return;
    }
    d2.add(std::move(unfitted_clone));
    const auto r1 = dataset_sig(d1, samples), r2 = dataset_sig(d2, samples);
    c.count("clone_behaviour_checks");
    if (r1 != r2)
    {
        f.fail("clone-behaves-differently", "fitted generator vs fitted clone of the unfitted one: " + sig_diff(r1, r2));
        return;
    }
    // clone of the fitted generator: same features and the same flattened values without fitting again
    auto       victim = raw->clone();
    const auto direct = [&](const generator_t& g)
    {
        return guarded(
            [&](sig_t& s)
            {
                s.add(g.type_id());
                s.add(g.features());
                for (tensor_size_t i = 0; i < g.features(); ++i)
                {
                    s.add(scat(g.feature(i)));
                }
                tensor2d_t buffer(samples.size(), d1.columns());
                buffer.full(-7.0);
                g.flatten(samples, buffer.tensor(), 0);
                s.tensor(buffer);
                s.note = scat("features=", g.features(), ",columns=", d1.columns());
            });
    };
    const auto g1 = direct(*raw), g3 = direct(*victim);
    c.count("clone_behaviour_checks");
    if (g1 != g3)
    {
        f.fail("clone-behaves-differently", "fitted generator vs its clone: " + sig_diff(g1, g3));
        return;
    }
    // modify the clone (drop + shuffle a feature): the original keeps producing the same values
    if (raw->features() > 0)
    {
        nano::verif::rng_seed().store(c.seed | 1U);
        const auto feature = rng.integer(0, raw->features() - 1);
        victim->drop(feature);
        victim->shuffle(rng.integer(0, raw->features() - 1));
        c.count("independence_checks");
        const auto g1b = direct(*raw);
        const auto r1b = dataset_sig(d1, samples);
        if (g1b != g1 || r1b != r1)
        {
            f.fail("clone-not-independent", "drop/shuffle on the clone changed the original: " + sig_diff(g1, g1b));
            return;
        }
        // and the other way round
        const auto g3b = direct(*victim);
        d1.drop(feature);
        c.count("independence_checks");
        if (direct(*victim) != g3b)
        {
            f.fail("clone-not-independent", "drop on the original changed the clone");
            return;
        }
        d1.undrop();
    }
    c.count("prototype_checks");
    auto fresh = factory.get(f.id);
    if (!fresh || fresh->type_id() != f.id)
    {
        f.fail("prototype-changed", "second get(id): null or another type_id");
        return;
    }
    auto d4 = dataset_t{ds, 1U};
    d4.add(std::move(fresh));
    if (const auto r4 = dataset_sig(d4, samples); r4 != r1)
    {
        f.fail("prototype-changed", "an object obtained later from the factory behaves differently: " + sig_diff(r1, r4));
        return;
    }
    if (raw->features() > 0)
    {
        c.nontrivial(vf::hash_bytes(r1.bytes.data(), r1.bytes.size(), vf::hash_str(f.tag.c_str())));
    }
    else
    {
        c.count("generator_without_features");
    }
    if (c.want_sample())
    {
        vf::json_t j;
        j.kv("object", f.tag).kv("probe", r1.note).kv("samples", static_cast<long long>(samples.size()));
        c.sample(j);
    }
}

struct entry_t
{
    const char* family;
    std::string id;
    void (*run)(fctx_t&);
};

const std::vector<entry_t>& entries()
{
    static const auto all = []()
    {
        std::vector<entry_t> e;
        const auto           add = [&](const char* family, const strings_t& ids, void (*run)(fctx_t&))
        {
            for (const auto& id : ids)
            {
                e.push_back({family, id, run});
            }
        };
        add("lsearch0", lsearch0_t::all().ids(), family_lsearch0);
        add("lsearchk", lsearchk_t::all().ids(), family_lsearchk);
        add("solver", solver_t::all().ids(), family_solver);
        add("loss", loss_t::all().ids(), family_loss);
        add("splitter", splitter_t::all().ids(), family_splitter);
        add("tuner", tuner_t::all().ids(), family_tuner);
        add("generator", generator_t::all().ids(), family_generator);
        add("wlearner", wlearner_t::all().ids(), family_wlearner);
        add("linear", linear_t::all().ids(), family_linear);
        add("datasource", datasource_t::all().ids(), family_datasource);
        add("function", function_t::all().ids(), family_function);
        return e;
    }();
    return all;
}

void case_factory(vf::ctx_t& c)
{
    const auto& all = entries();
    const auto& e   = all[static_cast<size_t>(c.index) % all.size()];
    fctx_t      f{c, e.family, e.id, std::string(e.family) + ":" + e.id, trace_t{}};
    c.count(std::string("family:") + e.family);
    c.maxc("ids_total", static_cast<int64_t>(all.size()));
    e.run(f);
}
} // namespace

int main(int argc, char** argv)
{
    const auto args = vf::parse_args(argc, argv);
    if (args.mode == "factory")
    {
        nano::verif::pool_max_size().store(2U); // the pools created by ml::tune: two workers are enough here
        return vf::run(args, "C19",
                       "case i = id (i mod 143) of the 11 factories with a random configuration, probe input and modification; "
                       "non-trivial: the behaviour probe (minimize/line-search/evaluate/split/optimize/fit+predict/load/generate) "
                       "returned data, i.e. did not end with the same exception in object and clones (generators: >= 1 generated feature); "
                       "distinct by hash(id, configuration, probe result)",
                       [](vf::ctx_t& c) { case_factory(c); });
    }
    const int depth = std::atoi(args.get("exh-depth", args.thorough() ? "2" : "0").c_str());
    return vf::run(args, "C19",
                   "cases [0,539136) = every history of 4 operations over a 12-operation alphabet for 26 (kind x LE/LT) "
                   "configurations (with --exh-depth d: each followed by every history of <= d more operations); later cases = "
                   "1-5 random parameters in a configurable_t, 2-14 random operations; non-trivial: an accepted assignment "
                   "changed the value and a later assignment was rejected; distinct by hash(configuration, operations)",
                   [&](vf::ctx_t& c)
                   {
                       if (c.index < g_exhaustive_cases)
                       {
                           case_exhaustive(c, depth);
                       }
                       else
                       {
                           case_random(c);
                       }
                   });
}
