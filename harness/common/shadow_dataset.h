// Shadow datasource: a harness-owned store of feature values (value + presence per sample/feature/component) that
// (a) fills the library's in-memory datasource through the protected set() API and (b) stays the reference.
// Reference encoders (expected dataset features, flatten columns, per-feature select values, targets) are computed
// from the store ONLY - the library is never asked for an expected value.
//
// Used by C08 (all views), reusable by C09/C10/C11 (random datasets with known contents):
//   auto store = shadow::make_store(rng, shadow::store_options_t{});
//   shadow::datasource_t ds(store); ds.load();
//   nano::dataset_t dataset(ds, threads);
//   const auto stack = shadow::make_stack(rng, store, shadow::stack_options_t{});   // or shadow::identity_stack()
//   shadow::add_generators(dataset, stack);
//   const auto feats = shadow::expected_features(store, stack);                     // what the dataset must expose
//   shadow::ref_flatten_row(store, feats, sample, row)                              // NaN for missing
//   shadow::ref_target_row(store, sample, row)
#pragma once

#include "common/vf.h"
#include <limits>
#include <memory>
#include <nano/dataset.h>
#include <nano/generator/elemwise_gradient.h>
#include <nano/generator/elemwise_identity.h>
#include <nano/generator/pairwise_product.h>
#include <set>
#include <string>
#include <vector>

namespace shadow
{
using nano::tensor_size_t;

constexpr double NaN = std::numeric_limits<double>::quiet_NaN();

enum : int
{
    k_scalar = 0,
    k_struct = 1,
    k_sclass = 2,
    k_mclass = 3
};

inline const char* kind_name(const int kind)
{
    switch (kind)
    {
    case k_scalar: return "scalar";
    case k_struct: return "struct";
    case k_sclass: return "sclass";
    default: return "mclass";
    }
}

///
/// \brief one stored feature: descriptor + per sample presence + values.
///     scalar: width 1 (the value), struct: width size(dims) (row-major), sclass: width 1 (the label),
///     mclass: width classes (0/1 hits).
///
struct sfeature_t
{
    nano::feature_t       feature;
    int                   kind{k_scalar};
    tensor_size_t         classes{0};
    nano::tensor3d_dims_t dims{{1, 1, 1}};
    tensor_size_t         width{1};
    std::vector<uint8_t>  given;
    std::vector<double>   values;

    bool has(const tensor_size_t sample) const { return given[static_cast<size_t>(sample)] != 0; }

    double at(const tensor_size_t sample, const tensor_size_t comp) const
    {
        return values[static_cast<size_t>(sample * width + comp)];
    }

    double& at(const tensor_size_t sample, const tensor_size_t comp)
    {
        return values[static_cast<size_t>(sample * width + comp)];
    }

    // number of columns in the flattened dense view when used as an INPUT (documented encoding)
    tensor_size_t flatten_columns() const
    {
        switch (kind)
        {
        case k_sclass: return classes - 1;
        case k_mclass: return classes;
        default: return nano::size(dims);
        }
    }

    // flattened value of column `col` for a stored sample (NaN if missing)
    double flatten_value(const tensor_size_t sample, const tensor_size_t col) const
    {
        if (!has(sample))
        {
            return NaN;
        }
        switch (kind)
        {
        case k_sclass: return static_cast<tensor_size_t>(at(sample, 0)) == col ? +1.0 : -1.0;
        case k_mclass: return 2.0 * at(sample, col) - 1.0;
        default: return at(sample, col);
        }
    }

    // number of values per sample in the per-feature (select) view
    tensor_size_t select_width() const { return kind == k_sclass ? 1 : (kind == k_mclass ? classes : nano::size(dims)); }

    // per-feature value (NaN for missing continuous, -1 for missing categorical)
    double select_value(const tensor_size_t sample, const tensor_size_t comp) const
    {
        if (!has(sample))
        {
            return (kind == k_sclass || kind == k_mclass) ? -1.0 : NaN;
        }
        return at(sample, comp);
    }

    // number of target values per sample when used as the TARGET
    tensor_size_t target_columns() const { return (kind == k_sclass || kind == k_mclass) ? classes : nano::size(dims); }

    double target_value(const tensor_size_t sample, const tensor_size_t col) const
    {
        if (!has(sample))
        {
            return NaN;
        }
        switch (kind)
        {
        case k_sclass: return static_cast<tensor_size_t>(at(sample, 0)) == col ? +1.0 : -1.0;
        case k_mclass: return 2.0 * at(sample, col) - 1.0;
        default: return at(sample, col);
        }
    }

    // identifies the typed value pool the library is documented to use (only to pick harmless probes, never an oracle)
    int pool_id() const
    {
        if (kind == k_mclass)
        {
            return static_cast<int>(nano::feature_type::uint8);
        }
        if (kind == k_sclass)
        {
            return static_cast<int>(classes <= 256 ? nano::feature_type::uint8 : nano::feature_type::uint16);
        }
        return static_cast<int>(feature.type());
    }
};

struct store_t
{
    tensor_size_t           samples{0};
    std::vector<sfeature_t> features;
    int                     target{-1}; ///< index in `features` or -1 (unsupervised)

    // store indices of the input features, in datasource input order
    std::vector<int> inputs() const
    {
        std::vector<int> r;
        for (int k = 0; k < static_cast<int>(features.size()); ++k)
        {
            if (k != target)
            {
                r.push_back(k);
            }
        }
        return r;
    }

    tensor_size_t missing() const
    {
        tensor_size_t n = 0;
        for (const auto& f : features)
        {
            for (const auto g : f.given)
            {
                n += g ? 0 : 1;
            }
        }
        return n;
    }

    int kinds() const
    {
        int mask = 0;
        for (const auto& f : features)
        {
            mask |= 1 << f.kind;
        }
        return __builtin_popcount(static_cast<unsigned>(mask));
    }

    uint64_t hash() const
    {
        uint64_t h = vf::mix(static_cast<uint64_t>(samples), static_cast<uint64_t>(target + 1));
        for (const auto& f : features)
        {
            h = vf::mix(h, static_cast<uint64_t>(f.kind) * 1000003ULL + static_cast<uint64_t>(f.classes) * 131ULL +
                               static_cast<uint64_t>(f.feature.type()));
            h = vf::mix(h, static_cast<uint64_t>(f.dims[0] * 10000 + f.dims[1] * 100 + f.dims[2]));
            h = vf::hash_bytes(f.given.data(), f.given.size(), h);
            h = vf::hash_bytes(f.values.data(), f.values.size() * sizeof(double), h);
        }
        return h;
    }
};

struct store_options_t
{
    tensor_size_t min_samples{1};
    tensor_size_t max_samples{200};
    int           min_features{1};
    int           max_features{12};
    bool          allow_scalar{true};
    bool          allow_struct{true};
    bool          allow_sclass{true};
    bool          allow_mclass{true};
    bool          gradient_dims{true};   ///< also structured dims (1..2, 3..4, 3..4) so that the gradient generator applies
    tensor_size_t max_classes{300};      ///< crosses the u8/u16 class storage switch when > 256
    double        p_unsupervised{0.25};  ///< probability of no target
    int           target_kind{-1};       ///< force the kind of the target (-1: any)
    bool          extreme_values{true};  ///< also the extreme values of the storage types
    double        max_missing{0.6};
};

namespace detail
{
// a value exactly representable both in the storage type and in double
inline double random_value(vf::rng_t& rng, const nano::feature_type type, const bool extremes)
{
    const auto small = rng.chance(0.5);
    if (small)
    {
        switch (type)
        {
        case nano::feature_type::uint8:
        case nano::feature_type::uint16:
        case nano::feature_type::uint32:
        case nano::feature_type::uint64: return static_cast<double>(rng.integer(0, 9));
        case nano::feature_type::float32:
        case nano::feature_type::float64: return static_cast<double>(rng.integer(-20, 20)) * 0.25;
        default: return static_cast<double>(rng.integer(-9, 9));
        }
    }
    const auto edge = extremes && rng.chance(0.15);
    switch (type)
    {
    case nano::feature_type::int8: return edge ? (rng.chance(0.5) ? -128.0 : 127.0) : static_cast<double>(rng.integer(-128, 127));
    case nano::feature_type::int16:
        return edge ? (rng.chance(0.5) ? -32768.0 : 32767.0) : static_cast<double>(rng.integer(-32768, 32767));
    case nano::feature_type::int32:
        return edge ? (rng.chance(0.5) ? -2147483648.0 : 2147483647.0)
                    : static_cast<double>(rng.integer(-2147483648LL, 2147483647LL));
    case nano::feature_type::int64:
        return edge ? (rng.chance(0.5) ? -9223372036854775808.0 : 4611686018427387904.0)
                    : static_cast<double>(rng.integer(-(1LL << 53), (1LL << 53)));
    case nano::feature_type::uint8: return edge ? 255.0 : static_cast<double>(rng.integer(0, 255));
    case nano::feature_type::uint16: return edge ? 65535.0 : static_cast<double>(rng.integer(0, 65535));
    case nano::feature_type::uint32: return edge ? 4294967295.0 : static_cast<double>(rng.integer(0, 4294967295LL));
    case nano::feature_type::uint64: return edge ? 9223372036854775808.0 : static_cast<double>(rng.integer(0, (1LL << 53)));
    case nano::feature_type::float32:
        return static_cast<double>(static_cast<float>(edge ? (rng.chance(0.5) ? 3.0e+30 : -1.0e-30) : rng.normal() * 100.0));
    default: return edge ? (rng.chance(0.5) ? 1.0e+100 : -1.0e-100) : rng.normal() * 1000.0;
    }
}
} // namespace detail

///
/// \brief random store: mixed feature kinds and storage types, missing masks from empty to full, any target or none.
///
inline store_t make_store(vf::rng_t& rng, const store_options_t& opt = store_options_t{})
{
    static const std::vector<nano::feature_type> ctypes = {
        nano::feature_type::int8,   nano::feature_type::int16,  nano::feature_type::int32,   nano::feature_type::int64,
        nano::feature_type::uint8,  nano::feature_type::uint16, nano::feature_type::uint32,  nano::feature_type::uint64,
        nano::feature_type::float32, nano::feature_type::float64};

    store_t st;
    {
        const auto r = rng.integer(0, 9);
        if (r == 0)
        {
            st.samples = rng.integer(1, 3);
        }
        else if (r <= 2)
        {
            st.samples = 8 * rng.integer(1, std::max<tensor_size_t>(1, opt.max_samples / 8));
        }
        else
        {
            st.samples = rng.integer(1, opt.max_samples);
        }
        st.samples = std::min(opt.max_samples, std::max(opt.min_samples, st.samples));
    }
    const auto nfeatures = static_cast<int>(rng.integer(opt.min_features, opt.max_features));
    const auto rmiss     = rng.integer(0, 9);
    const auto pmiss     = rmiss <= 1 ? 0.0 : (rmiss == 2 ? 1.0 : rng.uniform(0.0, opt.max_missing));

    std::vector<int> kinds;
    if (opt.allow_scalar) kinds.push_back(k_scalar);
    if (opt.allow_struct) kinds.push_back(k_struct);
    if (opt.allow_sclass) kinds.push_back(k_sclass);
    if (opt.allow_mclass) kinds.push_back(k_mclass);

    for (int k = 0; k < nfeatures; ++k)
    {
        sfeature_t f;
        f.kind = rng.pick(kinds);
        if (f.kind == k_sclass)
        {
            const auto r = rng.integer(0, 9);
            f.classes    = r <= 1 ? rng.integer(257, std::max<tensor_size_t>(257, opt.max_classes)) : (r == 2 ? 1 : (r == 3 ? rng.integer(255, 256) : rng.integer(2, 8)));
            f.classes    = std::min(f.classes, opt.max_classes);
            f.width      = 1;
            f.feature    = nano::feature_t{"f" + std::to_string(k) + "_sclass"}.sclass(static_cast<size_t>(f.classes));
        }
        else if (f.kind == k_mclass)
        {
            f.classes = rng.chance(0.1) ? rng.integer(7, 12) : rng.integer(1, 6);
            f.width   = f.classes;
            f.feature = nano::feature_t{"f" + std::to_string(k) + "_mclass"}.mclass(static_cast<size_t>(f.classes));
        }
        else
        {
            const auto type = rng.pick(ctypes);
            if (f.kind == k_struct)
            {
                if (opt.gradient_dims && rng.chance(0.3))
                {
                    f.dims = nano::make_dims(rng.integer(1, 2), rng.integer(3, 4), rng.integer(3, 4));
                }
                else
                {
                    do
                    {
                        f.dims = nano::make_dims(rng.integer(1, 3), rng.integer(1, 3), rng.integer(1, 2));
                    } while (nano::size(f.dims) == 1);
                }
            }
            f.width   = nano::size(f.dims);
            f.feature = nano::feature_t{"f" + std::to_string(k) + "_" + kind_name(f.kind)}.scalar(type, f.dims);
        }

        const auto rm = rng.integer(0, 9);
        const auto pm = rm == 0 ? 0.0 : (rm == 1 ? 1.0 : pmiss);
        f.given.assign(static_cast<size_t>(st.samples), 0);
        f.values.assign(static_cast<size_t>(st.samples * f.width), 0.0);
        for (tensor_size_t s = 0; s < st.samples; ++s)
        {
            f.given[static_cast<size_t>(s)] = rng.chance(pm) ? 0 : 1;
        }
        st.features.push_back(std::move(f));
    }

    // target: any feature (any position) or none; targets cannot be optional
    if (!rng.chance(opt.p_unsupervised))
    {
        std::vector<int> candidates;
        for (int k = 0; k < nfeatures; ++k)
        {
            if (opt.target_kind < 0 || st.features[static_cast<size_t>(k)].kind == opt.target_kind)
            {
                candidates.push_back(k);
            }
        }
        if (!candidates.empty())
        {
            st.target = rng.pick(candidates);
            auto& g   = st.features[static_cast<size_t>(st.target)].given;
            std::fill(g.begin(), g.end(), uint8_t{1});
        }
    }

    // values (for present entries only; missing entries are never written to the library)
    for (auto& f : st.features)
    {
        for (tensor_size_t s = 0; s < st.samples; ++s)
        {
            if (!f.has(s))
            {
                continue;
            }
            if (f.kind == k_sclass)
            {
                // the last class (all columns -1) and the first one show up regularly
                const auto r = rng.integer(0, 5);
                f.at(s, 0)   = static_cast<double>(r == 0 ? f.classes - 1 : (r == 1 ? 0 : rng.integer(0, f.classes - 1)));
            }
            else if (f.kind == k_mclass)
            {
                for (tensor_size_t c = 0; c < f.classes; ++c)
                {
                    f.at(s, c) = static_cast<double>(rng.integer(0, 1));
                }
            }
            else
            {
                for (tensor_size_t c = 0; c < f.width; ++c)
                {
                    f.at(s, c) = detail::random_value(rng, f.feature.type(), opt.extreme_values);
                }
            }
        }
    }
    return st;
}

///
/// \brief the datasource under test, filled from the store through the protected set() API.
///
class datasource_t final : public nano::datasource_t
{
public:
    explicit datasource_t(store_t store)
        : nano::datasource_t("shadow")
        , m_store(std::make_shared<const store_t>(std::move(store)))
    {
    }

    nano::rdatasource_t clone() const override { return std::make_unique<datasource_t>(*this); }

    const store_t& store() const { return *m_store; }

private:
    void do_load() override
    {
        const auto&      st = *m_store;
        nano::features_t features;
        for (const auto& f : st.features)
        {
            features.push_back(f.feature);
        }
        if (st.target >= 0)
        {
            resize(st.samples, features, static_cast<size_t>(st.target));
        }
        else
        {
            resize(st.samples, features);
        }
        for (tensor_size_t k = 0; k < static_cast<tensor_size_t>(st.features.size()); ++k)
        {
            const auto& f = st.features[static_cast<size_t>(k)];
            for (tensor_size_t s = 0; s < st.samples; ++s)
            {
                if (!f.has(s))
                {
                    continue;
                }
                if (f.kind == k_sclass)
                {
                    set(s, k, static_cast<int64_t>(f.at(s, 0)));
                }
                else if (f.kind == k_mclass)
                {
                    nano::tensor_mem_t<int8_t, 1> hits(f.classes);
                    for (tensor_size_t c = 0; c < f.classes; ++c)
                    {
                        hits(c) = static_cast<int8_t>(f.at(s, c));
                    }
                    set(s, k, hits);
                }
                else if (f.kind == k_scalar)
                {
                    set(s, k, f.at(s, 0));
                }
                else
                {
                    // row-major: component (i0, i1, i2) is stored at (i0 * d1 + i1) * d2 + i2
                    nano::tensor_mem_t<double, 3> t(f.dims);
                    for (tensor_size_t i0 = 0, c = 0; i0 < f.dims[0]; ++i0)
                    {
                        for (tensor_size_t i1 = 0; i1 < f.dims[1]; ++i1)
                        {
                            for (tensor_size_t i2 = 0; i2 < f.dims[2]; ++i2, ++c)
                            {
                                t(i0, i1, i2) = f.at(s, c);
                            }
                        }
                    }
                    set(s, k, t);
                }
            }
        }
    }

    std::shared_ptr<const store_t> m_store;
};

// ------------------------------------------------------------------------------------------------------------------
// generator stacks and the features the dataset must expose

enum : int
{
    g_scalar   = 0, ///< scalar identity
    g_struct   = 1,
    g_sclass   = 2,
    g_mclass   = 3,
    g_product  = 4, ///< pairwise product of scalar features
    g_gradient = 5  ///< 3x3 gradient features of structured features
};

inline const char* generator_name(const int how)
{
    switch (how)
    {
    case g_scalar: return "identity-scalar";
    case g_struct: return "identity-struct";
    case g_sclass: return "identity-sclass";
    case g_mclass: return "identity-mclass";
    case g_product: return "product";
    default: return "gradient";
    }
}

struct gen_spec_t
{
    int                        how{g_scalar};
    int                        nsubsets{0}; ///< 0: all input features, 1: subset1 (both sides for product), 2: product of subset1 x subset2
    std::vector<tensor_size_t> subset1;     ///< datasource INPUT feature indices (any order, distinct, never empty when used)
    std::vector<tensor_size_t> subset2;
    int                        kernel{0}; ///< gradient: 0 sobel, 1 scharr, 2 prewitt
};

using stack_t = std::vector<gen_spec_t>;

inline stack_t identity_stack()
{
    stack_t s(4);
    s[0].how = g_sclass;
    s[1].how = g_mclass;
    s[2].how = g_scalar;
    s[3].how = g_struct;
    return s;
}

struct stack_options_t
{
    bool allow_product{true};
    bool allow_gradient{true};
    bool allow_subsets{true};
    int  max_generators{6};
};

inline std::vector<tensor_size_t> random_subset(vf::rng_t& rng, const tensor_size_t ninputs)
{
    std::vector<tensor_size_t> all;
    for (tensor_size_t i = 0; i < ninputs; ++i)
    {
        all.push_back(i);
    }
    // Fisher-Yates, then keep a non-empty prefix (an empty list means "all features" to the library)
    for (tensor_size_t i = ninputs - 1; i > 0; --i)
    {
        std::swap(all[static_cast<size_t>(i)], all[static_cast<size_t>(rng.integer(0, i))]);
    }
    all.resize(static_cast<size_t>(rng.integer(1, std::max<tensor_size_t>(1, ninputs))));
    if (rng.chance(0.5))
    {
        std::sort(all.begin(), all.end());
    }
    return all;
}

inline stack_t make_stack(vf::rng_t& rng, const store_t& store, const stack_options_t& opt = stack_options_t{})
{
    const auto ninputs = static_cast<tensor_size_t>(store.inputs().size());
    if (rng.chance(0.3))
    {
        auto s = identity_stack();
        if (rng.chance(0.5))
        {
            for (size_t i = s.size() - 1; i > 0; --i)
            {
                std::swap(s[i], s[static_cast<size_t>(rng.integer(0, static_cast<int64_t>(i)))]);
            }
        }
        return s;
    }
    stack_t    s;
    const auto n = rng.integer(1, opt.max_generators);
    for (int64_t g = 0; g < n; ++g)
    {
        gen_spec_t spec;
        for (;;)
        {
            spec.how = static_cast<int>(rng.integer(0, 5));
            if ((spec.how == g_product && !opt.allow_product) || (spec.how == g_gradient && !opt.allow_gradient))
            {
                continue;
            }
            break;
        }
        if (opt.allow_subsets && ninputs > 0 && rng.chance(0.4))
        {
            spec.nsubsets = (spec.how == g_product && rng.chance(0.5)) ? 2 : 1;
            spec.subset1  = random_subset(rng, ninputs);
            if (spec.nsubsets == 2)
            {
                spec.subset2 = random_subset(rng, ninputs);
            }
        }
        spec.kernel = static_cast<int>(rng.integer(0, 2));
        s.push_back(std::move(spec));
    }
    return s;
}

inline nano::indices_t to_indices(const std::vector<tensor_size_t>& v)
{
    nano::indices_t r(static_cast<tensor_size_t>(v.size()));
    for (size_t i = 0; i < v.size(); ++i)
    {
        r(static_cast<tensor_size_t>(i)) = v[i];
    }
    return r;
}

inline void add_generators(nano::dataset_t& dataset, const stack_t& stack)
{
    for (const auto& g : stack)
    {
        const auto s1 = to_indices(g.subset1);
        const auto s2 = to_indices(g.subset2);
        switch (g.how)
        {
        case g_scalar: g.nsubsets ? dataset.add<nano::scalar_identity_generator_t>(s1) : dataset.add<nano::scalar_identity_generator_t>(); break;
        case g_struct: g.nsubsets ? dataset.add<nano::struct_identity_generator_t>(s1) : dataset.add<nano::struct_identity_generator_t>(); break;
        case g_sclass: g.nsubsets ? dataset.add<nano::sclass_identity_generator_t>(s1) : dataset.add<nano::sclass_identity_generator_t>(); break;
        case g_mclass: g.nsubsets ? dataset.add<nano::mclass_identity_generator_t>(s1) : dataset.add<nano::mclass_identity_generator_t>(); break;
        case g_product:
            if (g.nsubsets == 0)
            {
                dataset.add<nano::pairwise_product_generator_t>();
            }
            else if (g.nsubsets == 1)
            {
                dataset.add<nano::pairwise_product_generator_t>(s1);
            }
            else
            {
                dataset.add<nano::pairwise_product_generator_t>(s1, s2);
            }
            break;
        default:
        {
            const auto kernel = g.kernel == 0 ? nano::kernel3x3_type::sobel : (g.kernel == 1 ? nano::kernel3x3_type::scharr : nano::kernel3x3_type::prewitt);
            g.nsubsets ? dataset.add<nano::gradient_generator_t>(kernel, s1) : dataset.add<nano::gradient_generator_t>(kernel);
            break;
        }
        }
    }
}

///
/// \brief a feature the dataset must expose, derived from the store and the stack only.
///
struct efeature_t
{
    int                   generator{0}; ///< index in the stack
    int                   how{g_scalar};
    int                   kind{k_scalar}; ///< the kind the dataset reports (is_scalar/is_struct/is_sclass/is_mclass)
    int                   src1{-1};       ///< store feature index
    int                   src2{-1};       ///< second source (product)
    tensor_size_t         channel{0};     ///< gradient: input channel
    int                   gmode{0};       ///< gradient: 0 gx, 1 gy, 2 magnitude, 3 angle
    tensor_size_t         classes{0};
    nano::tensor3d_dims_t dims{{1, 1, 1}};
    tensor_size_t         columns{1};     ///< flatten columns
    tensor_size_t         width{1};       ///< select values per sample

    bool values_known() const { return how != g_gradient; }
};

using efeatures_t = std::vector<efeature_t>;

inline efeatures_t expected_features(const store_t& store, const stack_t& stack)
{
    const auto inputs  = store.inputs();
    const auto ninputs = static_cast<tensor_size_t>(inputs.size());

    const auto listed = [&](const std::vector<tensor_size_t>& subset, const bool use)
    {
        std::vector<tensor_size_t> r;
        if (use && !subset.empty())
        {
            r = subset;
        }
        else
        {
            for (tensor_size_t i = 0; i < ninputs; ++i)
            {
                r.push_back(i);
            }
        }
        return r;
    };

    efeatures_t out;
    for (int g = 0; g < static_cast<int>(stack.size()); ++g)
    {
        const auto& spec = stack[static_cast<size_t>(g)];
        if (spec.how <= g_mclass)
        {
            for (const auto i : listed(spec.subset1, spec.nsubsets >= 1))
            {
                const auto  k = inputs[static_cast<size_t>(i)];
                const auto& f = store.features[static_cast<size_t>(k)];
                if (f.kind == spec.how)
                {
                    efeature_t e;
                    e.generator = g;
                    e.how       = spec.how;
                    e.kind      = f.kind;
                    e.src1      = k;
                    e.classes   = f.classes;
                    e.dims      = f.dims;
                    e.columns   = f.flatten_columns();
                    e.width     = f.select_width();
                    out.push_back(e);
                }
            }
        }
        else if (spec.how == g_product)
        {
            const auto l1 = listed(spec.subset1, spec.nsubsets >= 1);
            const auto l2 = listed(spec.nsubsets == 2 ? spec.subset2 : spec.subset1, spec.nsubsets >= 1);
            std::set<std::pair<tensor_size_t, tensor_size_t>> pairs;
            for (const auto i1 : l1)
            {
                if (store.features[static_cast<size_t>(inputs[static_cast<size_t>(i1)])].kind != k_scalar)
                {
                    continue;
                }
                for (const auto i2 : l2)
                {
                    if (store.features[static_cast<size_t>(inputs[static_cast<size_t>(i2)])].kind != k_scalar)
                    {
                        continue;
                    }
                    pairs.emplace(std::min(i1, i2), std::max(i1, i2));
                }
            }
            for (const auto& p : pairs)
            {
                efeature_t e;
                e.generator = g;
                e.how       = g_product;
                e.kind      = k_scalar;
                e.src1      = inputs[static_cast<size_t>(p.first)];
                e.src2      = inputs[static_cast<size_t>(p.second)];
                out.push_back(e);
            }
        }
        else
        {
            for (const auto i : listed(spec.subset1, spec.nsubsets >= 1))
            {
                const auto  k = inputs[static_cast<size_t>(i)];
                const auto& f = store.features[static_cast<size_t>(k)];
                if (f.kind != k_struct || f.dims[1] < 3 || f.dims[2] < 3)
                {
                    continue;
                }
                for (tensor_size_t channel = 0; channel < f.dims[0]; ++channel)
                {
                    for (int gmode = 0; gmode < 4; ++gmode)
                    {
                        efeature_t e;
                        e.generator = g;
                        e.how       = g_gradient;
                        e.src1      = k;
                        e.channel   = channel;
                        e.gmode     = gmode;
                        e.dims      = nano::make_dims(1, f.dims[1] - 2, f.dims[2] - 2);
                        e.columns   = nano::size(e.dims);
                        e.width     = e.columns;
                        e.kind      = e.columns == 1 ? k_scalar : k_struct;
                        out.push_back(e);
                    }
                }
            }
        }
    }
    return out;
}

inline tensor_size_t total_columns(const efeatures_t& feats)
{
    tensor_size_t n = 0;
    for (const auto& e : feats)
    {
        n += e.columns;
    }
    return n;
}

// is the generated feature present for this stored sample?
inline bool ref_given(const store_t& store, const efeature_t& e, const tensor_size_t sample)
{
    const auto& f1 = store.features[static_cast<size_t>(e.src1)];
    if (e.how == g_product)
    {
        return f1.has(sample) && store.features[static_cast<size_t>(e.src2)].has(sample);
    }
    return f1.has(sample);
}

// flattened value (documented encoding), NaN if missing; only for features with values_known()
inline double ref_flatten(const store_t& store, const efeature_t& e, const tensor_size_t sample, const tensor_size_t col)
{
    const auto& f1 = store.features[static_cast<size_t>(e.src1)];
    if (e.how == g_product)
    {
        const auto& f2 = store.features[static_cast<size_t>(e.src2)];
        return (f1.has(sample) && f2.has(sample)) ? f1.at(sample, 0) * f2.at(sample, 0) : NaN;
    }
    return f1.flatten_value(sample, col);
}

// per-feature value, NaN / -1 if missing; only for features with values_known()
inline double ref_select(const store_t& store, const efeature_t& e, const tensor_size_t sample, const tensor_size_t comp)
{
    const auto& f1 = store.features[static_cast<size_t>(e.src1)];
    if (e.how == g_product)
    {
        const auto& f2 = store.features[static_cast<size_t>(e.src2)];
        return (f1.has(sample) && f2.has(sample)) ? f1.at(sample, 0) * f2.at(sample, 0) : NaN;
    }
    return f1.select_value(sample, comp);
}

// one flattened row (all features, nothing dropped or shuffled); gradient columns are set to NaN when missing and to
// +infinity ("present, value not modelled") otherwise
inline void ref_flatten_row(const store_t& store, const efeatures_t& feats, const tensor_size_t sample, std::vector<double>& row)
{
    row.clear();
    for (const auto& e : feats)
    {
        for (tensor_size_t c = 0; c < e.columns; ++c)
        {
            row.push_back(e.values_known() ? ref_flatten(store, e, sample, c)
                                           : (ref_given(store, e, sample) ? std::numeric_limits<double>::infinity() : NaN));
        }
    }
}

inline void ref_target_row(const store_t& store, const tensor_size_t sample, std::vector<double>& row)
{
    row.clear();
    if (store.target >= 0)
    {
        const auto& f = store.features[static_cast<size_t>(store.target)];
        for (tensor_size_t c = 0; c < f.target_columns(); ++c)
        {
            row.push_back(f.target_value(sample, c));
        }
    }
}

inline std::string describe(const store_t& store)
{
    std::string s;
    for (size_t k = 0; k < store.features.size(); ++k)
    {
        const auto& f = store.features[k];
        s += (k ? " " : "");
        s += std::to_string(k) + ":" + kind_name(f.kind);
        if (f.kind == k_sclass || f.kind == k_mclass)
        {
            s += "(" + std::to_string(f.classes) + ")";
        }
        else
        {
            s += "(" + nano::scat(f.feature.type()) + "," + std::to_string(f.dims[0]) + "x" + std::to_string(f.dims[1]) + "x" + std::to_string(f.dims[2]) + ")";
        }
        if (static_cast<int>(k) == store.target)
        {
            s += "*";
        }
    }
    return s;
}

inline std::string describe(const stack_t& stack)
{
    std::string s;
    for (size_t g = 0; g < stack.size(); ++g)
    {
        s += (g ? " " : "");
        s += generator_name(stack[g].how);
        if (stack[g].nsubsets > 0)
        {
            s += "[";
            for (size_t i = 0; i < stack[g].subset1.size(); ++i)
            {
                s += (i ? "," : "") + std::to_string(stack[g].subset1[i]);
            }
            if (stack[g].nsubsets == 2)
            {
                s += "|";
                for (size_t i = 0; i < stack[g].subset2.size(); ++i)
                {
                    s += (i ? "," : "") + std::to_string(stack[g].subset2[i]);
                }
            }
            s += "]";
        }
    }
    return s;
}
} // namespace shadow
