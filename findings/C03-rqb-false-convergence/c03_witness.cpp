// C03 - bundle / ellipsoid solvers: a reported `converged` certifies eps-optimality.
//
// Monitor: harness-owned convex functions with an analytically known sharp minimum (f* = 0 at x*), so the optimality
// gap of whatever the solver returns is known exactly; the sharpness premise f(x)-f* >= |x-x*|_2 is verified numerically
// per generated function (a function failing it is inconclusive, never judged).  Bundle sizes, proximity and curve-search
// parameters are drawn from their declared domains; ASan/UBSan underneath.
#include "common/solver_util.h"

using namespace nano;
using namespace vfs;

namespace
{
void run_case(vf::ctx_t& c)
{
    auto& rng = c.rng;
    using K   = harness_function_t::kind;

    const auto n     = static_cast<int>(rng.integer(1, 8));
    const auto kinds = std::vector<K>{K::l1, K::linf, K::l1quad, K::linfquad};
    const auto kind  = rng.pick(kinds);
    const bool inf   = kind == K::linf || kind == K::linfquad;
    // sigma_min >= 1 gives f >= |x-x*|_2 for the 1-norm; the inf-norm needs sigma_min >= sqrt(n)
    const auto function = harness_function_t{kind, n, rng, inf ? std::sqrt(static_cast<double>(n)) * 1.0000001 : 1.0000001};
    const auto& xs      = function.center();

    // premise: sharp minimum (checked on random points at several scales)
    for (int t = 0; t < 100; ++t)
    {
        vector_t   x{n};
        const auto r = rng.loguniform(1e-6, 10.0);
        for (int i = 0; i < n; ++i)
        {
            x(i) = xs(i) + r * rng.normal();
        }
        const auto f = function.vgrad(x);
        if (!(f >= (x.vector() - xs).norm() * (1.0 - 1e-12)))
        {
            c.inconclusive("premise-not-sharp");
            return;
        }
    }

    Eigen::VectorXd dir(n);
    for (int i = 0; i < n; ++i)
    {
        dir(i) = rng.normal();
    }
    const auto      dist0 = rng.chance(0.05) ? 0.0 : 4.0 * rng.u01();
    Eigen::VectorXd x0e   = xs + dir.normalized() * dist0;
    vector_t        x0{n};
    x0.vector() = x0e;

    const auto ids     = std::vector<std::string>{"rqb", "fpba1", "fpba2", "ellipsoid"};
    auto       id      = rng.pick(ids);
    const auto forced  = c.args.get("solver");
    if (!forced.empty())
    {
        id = forced;
    }
    const bool ell     = id == "ellipsoid";
    const auto epsilon = rng.loguniform(1e-8, 1e-3);
    auto       solver  = solver_t::all().get(id);
    const auto max_evals = ell ? 20000 : rng.integer(100, 20000);
    solver->parameter("solver::epsilon")   = epsilon;
    solver->parameter("solver::max_evals") = max_evals;
    std::string config;
    if (!ell)
    {
        // the bundle size over the whole quantifier [2, 100], small sizes over-represented
        const auto bsize = rng.chance(0.4) ? rng.integer(2, 8) : rng.integer(2, 100);
        solver->parameter("solver::" + id + "::bundle::max_size") = bsize;
        config = "bundle::max_size=" + std::to_string(bsize) + " ";
        if (rng.chance(0.5))
        {
            config += fuzz_parameters(*solver, rng,
                                      [&](const string_t& name)
                                      {
                                          return name == "solver::epsilon" || name == "solver::max_evals" ||
                                                 name.find("bundle::max_size") != string_t::npos || name == "solver::tolerance";
                                      },
                                      0.5, 98);
        }
    }
    else
    {
        const auto R = std::max(1e-3, dist0) * rng.uniform(1.0, 10.0);
        solver->parameter("solver::ellipsoid::R") = R;
        config = "R=" + vf::json_t::num(R) + " ";
    }

    const int64_t cap = 20 * (max_evals + 1100 + 8 * n);
    auto          cf  = counting_function_t{function, cap};

    const auto witness = [&](const solver_state_t* state)
    {
        vf::json_t j;
        j.kv("solver", id).kv("function", kind_name(kind)).kv("n", n).kv("epsilon", epsilon).kv("max_evals", static_cast<long long>(max_evals));
        j.kv("config", config).kv("dist0", dist0).kv("mu", function.mu());
        j.kv("performed", static_cast<long long>(cf.m_f + cf.m_g));
        if (state != nullptr)
        {
            j.kv("status", status_name(state->status())).kv("fx", state->fx());
        }
        return j;
    };

    solver_state_t state;
    try
    {
        state = solver->minimize(cf, x0, c.args.get("log") == "1" ? make_stdout_logger() : make_null_logger());
        {
            // debug: evaluate the function on the segment between returned x and x*
            for (int k = 0; k <= 10; ++k) { vector_t z{n}; z.vector() = state.x().vector() + (xs - state.x().vector()) * (k / 10.0); vector_t gz{n}; double fz = function.vgrad(z, gz); std::printf("seg k=%d f=%.6g g.(xs-x)=%.6g\n", k, fz, gz.vector().dot(xs - state.x().vector())); }
            vector_t gxx{n}; double fxx = function.vgrad(state.x(), gxx);
            std::printf("at x: f=%.10g  subgrad ineq to x*: f + g.(x*-x) = %.6g (must be <= 0)\n", fxx, fxx + gxx.vector().dot(xs - state.x().vector()));
        }
    }
    catch (const budget_exceeded_t&)
    {
        c.violation("C03|termination|evaluation-cap|" + id, witness(nullptr));
        return;
    }
    catch (const std::exception& e)
    {
        c.violation("C03|exception|" + id, witness(nullptr).kv("what", std::string(e.what()).substr(0, 300)));
        return;
    }
    c.count("solves:" + id);
    c.count(std::string("status:") + status_name(state.status()) + ":" + id);
    if (state.x().size() != n)
    {
        c.violation("C03|dimension|" + id, witness(&state));
        return;
    }

    // the gap is recomputed from the harness function (f* = 0)
    const double gap  = function.vgrad(state.x());
    const double dist = (state.x().vector() - xs).norm();
    if (state.status() == solver_status::converged)
    {
        const double bound = ell ? 10.0 * epsilon : 2.0 * epsilon * std::sqrt(static_cast<double>(n)) * (1.0 + dist);
        c.count(ell ? "clause_ellipsoid_gap" : "clause_bundle_gap");
        c.maxc(ell ? "ellipsoid_gap_over_bound_permille" : "bundle_gap_over_bound_permille", static_cast<int64_t>(1000.0 * gap / bound));
        if (!(gap <= bound))
        {
            c.violation("C03|converged-not-eps-optimal|" + id, witness(&state).kv("gap", gap).kv("bound", bound).kv("dist", dist));
        }
        if (cf.m_f + cf.m_g >= 6)
        {
            uint64_t h = vf::mix(vf::hash_str(id.c_str()), vf::hash_str(config.c_str()));
            h          = vf::hash_bytes(x0.data(), static_cast<size_t>(n) * sizeof(double), h);
            h          = vf::hash_double(epsilon, h);
            c.nontrivial(h);
        }
    }
    else if (ell && n <= 6)
    {
        // "on such functions with n <= 6 the ellipsoid method always reports converged within 20000 evaluations"
        c.count("clause_ellipsoid_always_converges");
        c.violation("C03|ellipsoid-not-converged|ellipsoid", witness(&state).kv("gap", gap));
    }
    if (ell && n <= 6 && state.status() == solver_status::converged)
    {
        c.count("clause_ellipsoid_always_converges");
    }
    if (c.want_sample())
    {
        c.sample(witness(&state).kv("gap", gap).kv("dist", dist));
    }
}
} // namespace

int main(int argc, char** argv)
{
    const auto args = vf::parse_args(argc, argv);
    return vf::run(args, "C03",
                   "case = (function |A(x-x*)|_1, |A(x-x*)|_inf or their sum with mu/2|x-x*|^2, n 1..8, sigma_min(A) >= 1 (sqrt(n) for the "
                   "inf-norm), x* in [-3,3]^n, |x0-x*| <= 4; solver rqb|fpba1|fpba2|ellipsoid; epsilon 1e-8..1e-3; bundle size 2..100; max_evals "
                   "100..20000; proximity/curve-search parameters fuzzed); non-trivial: status converged after >= 6 evaluations; distinct by "
                   "hash(solver, configuration, x0, epsilon)",
                   run_case);
}
