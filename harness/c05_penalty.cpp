// C05 - penalty / augmented-Lagrangian functions match their defining formulas; the augmented-Lagrangian solver's
//       `converged` implies feasibility within epsilon and truthful stored constraint values.
//
// Monitor (mode "formula"): the harness generates every constraint from its own coefficient record (11 kinds), registers
// it with the library and re-implements value and gradient of each kind in long double.  The value and the gradient
// returned by linear_penalty_function_t / quadratic_penalty_function_t / augmented_lagrangian_function_t::vgrad are
// compared with
//     f + c sum|h| + c sum max(0,g),   f + c sum h^2 + c sum max(0,g)^2,   f + ro/2 sum (h+l/ro)^2 + ro/2 sum max(0,g+m/ro)^2
// evaluated in long double.  Tolerance: 1e-12 * sum|terms| where the terms are propagated through the formula (the
// rounding of a constraint value, 1e-12 * sum of the absolute values of its summands, is multiplied by the derivative
// of the penalty term) - this is re-association noise only.  At kinks of the linear penalty (|h| or |g| below its own
// rounding noise, or exactly zero for dyadic coefficient records whose arithmetic is exact) the returned vector has to
// lie in the convex hull of the one-sided gradients.  At points feasible by construction (zero multipliers) the three
// functions have to return the objective value.
//
// Monitor (mode "solver"): solver_augmented_lagrangian_t on KKT-constructed convex QPs/LPs converted with
// make_function(program), ball/box constrained quadratics and anchor-feasible mixes of the 11 kinds.  When the returned
// status is `converged`: every |h_j| and max(0,g_i) recomputed (long double, harness record) at state.x() is at most
// epsilon; state.ceq()/cineq() and kkt_optimality_test1/2 equal the recomputation.  Non-convergence is never judged.
#include "common/solver_util.h"
#include "common/vf.h"
#include <Eigen/Dense>
#include <memory>
#include <nano/core/random.h>
#include <nano/function/penalty.h>
#include <nano/function/program.h>
#include <nano/solver/augmented.h>

using namespace nano;

namespace
{
using ld    = long double;
using ldvec = std::vector<ld>;
using evec  = Eigen::VectorXd;
using emat  = Eigen::MatrixXd;

constexpr ld REL = 1e-12L; ///< relative re-association tolerance (DESIGN.md, C05/O)

enum kind_t : int
{
    k_constant = 0,
    k_minimum,
    k_maximum,
    k_ball_eq,
    k_ball_ineq,
    k_lin_eq,
    k_lin_ineq,
    k_quad_eq,
    k_quad_ineq,
    k_func_eq,
    k_func_ineq,
    k_count
};

const char* const kind_names[] = {"constant",     "minimum",        "maximum",       "ball-eq",
                                  "ball-ineq",    "linear-eq",      "linear-ineq",   "quadratic-eq",
                                  "quadratic-ineq", "functional-eq", "functional-ineq"};

bool kind_is_eq(const int k)
{
    return k == k_constant || k == k_ball_eq || k == k_lin_eq || k == k_quad_eq || k == k_func_eq;
}

// ------------------------------------------------------------------------------------------------------------------
// harness-owned functions

///
/// \brief objective 0.5 x'Ax + a'x (A symmetric, not necessarily PSD).
///
class quad_objective_t final : public function_t
{
public:
    quad_objective_t(emat A, evec a, const bool is_convex)
        : function_t("vf-quadratic", a.size())
        , m_A(std::move(A))
        , m_a(std::move(a))
    {
        convex(is_convex ? convexity::yes : convexity::no);
        smooth(smoothness::yes);
    }

    rfunction_t clone() const override { return std::make_unique<quad_objective_t>(*this); }

    scalar_t do_vgrad(vector_cmap_t x, vector_map_t gx) const override
    {
        const evec xe = x.vector();
        const evec Ax = m_A * xe;
        if (gx.size() == x.size())
        {
            gx.vector() = Ax + m_a;
        }
        return 0.5 * xe.dot(Ax) + m_a.dot(xe);
    }

    emat m_A;
    evec m_a;
};

///
/// \brief function wrapped by functional constraints: s(x) - b with s one of four separable / log-sum-exp shapes.
///
class cfunc_t final : public function_t
{
public:
    enum class type : int
    {
        sumsq = 0, ///< sum w_i (x_i - c_i)^2
        sines,     ///< sum w_i sin(x_i - c_i)
        absdev,    ///< sum w_i |x_i - c_i|        (non-smooth)
        logsumexp  ///< log sum exp(w_i (x_i - c_i))
    };

    cfunc_t(const type t, evec w, evec c, const double b)
        : function_t("vf-cfunc", w.size())
        , m_type(t)
        , m_w(std::move(w))
        , m_c(std::move(c))
        , m_b(b)
    {
        const bool nonneg = (m_w.array() >= 0.0).all();
        const bool cvx    = t == type::logsumexp || ((t == type::sumsq || t == type::absdev) && nonneg);
        convex(cvx ? convexity::yes : convexity::no);
        smooth(t == type::absdev ? smoothness::no : smoothness::yes);
    }

    rfunction_t clone() const override { return std::make_unique<cfunc_t>(*this); }

    double raw(const evec& x, evec* g) const
    {
        const auto n = x.size();
        double     s = 0.0;
        if (g != nullptr)
        {
            g->resize(n);
        }
        switch (m_type)
        {
        case type::sumsq:
            for (Eigen::Index i = 0; i < n; ++i)
            {
                const double d = x(i) - m_c(i);
                s += m_w(i) * d * d;
                if (g != nullptr)
                {
                    (*g)(i) = 2.0 * m_w(i) * d;
                }
            }
            break;
        case type::sines:
            for (Eigen::Index i = 0; i < n; ++i)
            {
                const double d = x(i) - m_c(i);
                s += m_w(i) * std::sin(d);
                if (g != nullptr)
                {
                    (*g)(i) = m_w(i) * std::cos(d);
                }
            }
            break;
        case type::absdev:
            for (Eigen::Index i = 0; i < n; ++i)
            {
                const double d = x(i) - m_c(i);
                s += m_w(i) * std::fabs(d);
                if (g != nullptr)
                {
                    (*g)(i) = m_w(i) * (d > 0 ? 1.0 : (d < 0 ? -1.0 : 0.0));
                }
            }
            break;
        case type::logsumexp:
        {
            double zmax = -1e300;
            for (Eigen::Index i = 0; i < n; ++i)
            {
                zmax = std::max(zmax, m_w(i) * (x(i) - m_c(i)));
            }
            double sum = 0.0;
            for (Eigen::Index i = 0; i < n; ++i)
            {
                sum += std::exp(m_w(i) * (x(i) - m_c(i)) - zmax);
            }
            s = zmax + std::log(sum);
            if (g != nullptr)
            {
                for (Eigen::Index i = 0; i < n; ++i)
                {
                    (*g)(i) = m_w(i) * std::exp(m_w(i) * (x(i) - m_c(i)) - zmax) / sum;
                }
            }
            break;
        }
        }
        return s;
    }

    scalar_t do_vgrad(vector_cmap_t x, vector_map_t gx) const override
    {
        const evec xe = x.vector();
        if (gx.size() == x.size())
        {
            evec         g;
            const double s = raw(xe, &g);
            gx.vector()    = g;
            return s - m_b;
        }
        return raw(xe, nullptr) - m_b;
    }

    type   m_type;
    evec   m_w, m_c;
    double m_b;
};

const char* cfunc_name(const cfunc_t::type t)
{
    switch (t)
    {
    case cfunc_t::type::sumsq: return "sumsq";
    case cfunc_t::type::sines: return "sines";
    case cfunc_t::type::absdev: return "absdev";
    case cfunc_t::type::logsumexp: return "logsumexp";
    }
    return "?";
}

// ------------------------------------------------------------------------------------------------------------------
// the harness' own record of a constraint + its reference evaluation

struct ceval_t
{
    ld    v{0};  ///< value
    ld    sv{0}; ///< sum of the absolute values of the summands of v (0 when the arithmetic is exact)
    ldvec g;     ///< gradient
    ldvec sg;    ///< per component: sum of the absolute values of the summands (0 when exact)
};

struct cons_t
{
    int                      kind{0};
    tensor_size_t            dim{0};
    double                   value{0};
    evec                     origin;
    double                   radius{1};
    evec                     q;
    double                   r{0};
    emat                     P;
    std::shared_ptr<cfunc_t> func;
    bool                     dyadic{false}; ///< all coefficients are small dyadic rationals

    bool eq() const { return kind_is_eq(kind); }

    void eval(const evec& x, const bool xexact, ceval_t& e) const
    {
        const auto n = static_cast<size_t>(x.size());
        e.g.assign(n, 0.0L);
        e.sg.assign(n, 0.0L);
        e.v = e.sv = 0.0L;
        switch (kind)
        {
        case k_constant:
        case k_maximum:
            e.v                            = static_cast<ld>(x(dim)) - static_cast<ld>(value);
            e.sv                           = std::fabs(static_cast<ld>(x(dim))) + std::fabs(static_cast<ld>(value));
            e.g[static_cast<size_t>(dim)] = 1.0L;
            break;
        case k_minimum:
            e.v                            = static_cast<ld>(value) - static_cast<ld>(x(dim));
            e.sv                           = std::fabs(static_cast<ld>(x(dim))) + std::fabs(static_cast<ld>(value));
            e.g[static_cast<size_t>(dim)] = -1.0L;
            break;
        case k_ball_eq:
        case k_ball_ineq:
        {
            ld s = 0.0L;
            for (size_t i = 0; i < n; ++i)
            {
                const ld d = static_cast<ld>(x(static_cast<Eigen::Index>(i))) - static_cast<ld>(origin(static_cast<Eigen::Index>(i)));
                s += d * d;
                e.g[i]  = 2.0L * d;
                e.sg[i] = 2.0L * std::fabs(d);
            }
            const ld r2 = static_cast<ld>(radius) * static_cast<ld>(radius);
            e.v         = s - r2;
            e.sv        = s + r2;
            break;
        }
        case k_lin_eq:
        case k_lin_ineq:
        {
            ld s = static_cast<ld>(r), a = std::fabs(static_cast<ld>(r));
            for (size_t i = 0; i < n; ++i)
            {
                const ld t = static_cast<ld>(q(static_cast<Eigen::Index>(i))) * static_cast<ld>(x(static_cast<Eigen::Index>(i)));
                s += t;
                a += std::fabs(t);
                e.g[i] = static_cast<ld>(q(static_cast<Eigen::Index>(i)));
            }
            e.v  = s;
            e.sv = a;
            break;
        }
        case k_quad_eq:
        case k_quad_ineq:
        {
            ld s = static_cast<ld>(r), a = std::fabs(static_cast<ld>(r));
            for (size_t i = 0; i < n; ++i)
            {
                const auto ii = static_cast<Eigen::Index>(i);
                ld         px = 0.0L, spx = 0.0L;
                for (size_t j = 0; j < n; ++j)
                {
                    const auto jj = static_cast<Eigen::Index>(j);
                    const ld   t  = static_cast<ld>(P(ii, jj)) * static_cast<ld>(x(jj));
                    px += t;
                    spx += std::fabs(t);
                }
                const ld xi = static_cast<ld>(x(ii)), qi = static_cast<ld>(q(ii));
                s += 0.5L * xi * px + qi * xi;
                a += 0.5L * std::fabs(xi) * spx + std::fabs(qi * xi);
                e.g[i]  = px + qi;
                e.sg[i] = spx + std::fabs(qi);
            }
            e.v  = s;
            e.sv = a;
            break;
        }
        default:
        {
            // functional: by definition the value/gradient of the wrapped (harness-owned, pure) function
            vector_t xx{static_cast<tensor_size_t>(n)}, gg{static_cast<tensor_size_t>(n)};
            xx.vector() = x;
            e.v         = static_cast<ld>(func->vgrad(xx, gg));
            for (size_t i = 0; i < n; ++i)
            {
                e.g[i] = static_cast<ld>(gg(static_cast<tensor_size_t>(i)));
            }
            break;
        }
        }
        if ((dyadic && xexact) || kind >= k_func_eq)
        {
            // every partial result is exactly representable: no rounding, whatever the association
            e.sv = 0.0L;
            std::fill(e.sg.begin(), e.sg.end(), 0.0L);
        }
    }

    bool add_to(function_t& f) const
    {
        const auto n  = f.size();
        const auto tv = [&](const evec& v)
        {
            vector_t t{static_cast<tensor_size_t>(v.size())};
            t.vector() = v;
            return t;
        };
        const auto tm = [&]()
        {
            matrix_t t{n, n};
            t.matrix() = P;
            return t;
        };
        switch (kind)
        {
        case k_constant: return f.constrain(constraint::constant_t{value, dim});
        case k_minimum: return f.constrain(constraint::minimum_t{value, dim});
        case k_maximum: return f.constrain(constraint::maximum_t{value, dim});
        case k_ball_eq: return f.constrain(constraint::euclidean_ball_equality_t{tv(origin), radius});
        case k_ball_ineq: return f.constrain(constraint::euclidean_ball_inequality_t{tv(origin), radius});
        case k_lin_eq: return f.constrain(constraint::linear_equality_t{tv(q), r});
        case k_lin_ineq: return f.constrain(constraint::linear_inequality_t{tv(q), r});
        case k_quad_eq: return f.constrain(constraint::quadratic_equality_t{tm(), tv(q), r});
        case k_quad_ineq: return f.constrain(constraint::quadratic_inequality_t{tm(), tv(q), r});
        case k_func_eq: return f.constrain(constraint::functional_equality_t{func->clone()});
        default: return f.constrain(constraint::functional_inequality_t{func->clone()});
        }
    }

    uint64_t hash(uint64_t h) const
    {
        h = vf::mix(h, static_cast<uint64_t>(kind));
        switch (kind)
        {
        case k_constant:
        case k_minimum:
        case k_maximum: return vf::hash_double(value, vf::mix(h, static_cast<uint64_t>(dim)));
        case k_ball_eq:
        case k_ball_ineq: return vf::hash_double(radius, vf::hash_bytes(origin.data(), sizeof(double) * static_cast<size_t>(origin.size()), h));
        case k_lin_eq:
        case k_lin_ineq: return vf::hash_double(r, vf::hash_bytes(q.data(), sizeof(double) * static_cast<size_t>(q.size()), h));
        case k_quad_eq:
        case k_quad_ineq:
            h = vf::hash_bytes(P.data(), sizeof(double) * static_cast<size_t>(P.size()), h);
            return vf::hash_double(r, vf::hash_bytes(q.data(), sizeof(double) * static_cast<size_t>(q.size()), h));
        default:
            h = vf::mix(h, static_cast<uint64_t>(func->m_type));
            h = vf::hash_bytes(func->m_w.data(), sizeof(double) * static_cast<size_t>(func->m_w.size()), h);
            h = vf::hash_bytes(func->m_c.data(), sizeof(double) * static_cast<size_t>(func->m_c.size()), h);
            return vf::hash_double(func->m_b, h);
        }
    }

    vf::json_t json() const
    {
        vf::json_t j;
        j.kv("kind", kind_names[kind]).kv("dyadic", dyadic);
        switch (kind)
        {
        case k_constant:
        case k_minimum:
        case k_maximum: j.kv("dim", static_cast<long long>(dim)).kv("value", value); break;
        case k_ball_eq:
        case k_ball_ineq: j.vec("origin", origin).kv("radius", radius); break;
        case k_lin_eq:
        case k_lin_ineq: j.vec("q", q).kv("r", r); break;
        case k_quad_eq:
        case k_quad_ineq: j.arr("P_colmajor", P.data(), static_cast<size_t>(P.size()), 64).vec("q", q).kv("r", r); break;
        default: j.kv("function", cfunc_name(func->m_type)).vec("w", func->m_w).vec("c", func->m_c).kv("b", func->m_b); break;
        }
        return j;
    }
};

std::string cons_json(const std::vector<cons_t>& cons, const size_t limit = 12)
{
    std::string s = "[";
    for (size_t i = 0; i < cons.size() && i < limit; ++i)
    {
        s += (i ? "," : "") + cons[i].json().str();
    }
    return s + "]";
}

// ------------------------------------------------------------------------------------------------------------------
// generators

struct gen_t
{
    vf::rng_t& rng;
    bool       dyadic;

    double grid(const double lo, const double hi) const
    {
        return dyadic ? static_cast<double>(rng.integer(static_cast<int64_t>(lo * 16), static_cast<int64_t>(hi * 16))) / 16.0
                      : rng.uniform(lo, hi);
    }

    double coef(const double scale = 1.0) const
    {
        return dyadic ? static_cast<double>(rng.integer(-4, 4)) : scale * rng.normal();
    }

    double slack() const { return dyadic ? static_cast<double>(rng.integer(1, 32)) / 8.0 : rng.uniform(0.05, 3.0); }

    evec point(const int n, const double lo, const double hi) const
    {
        evec x(n);
        for (int i = 0; i < n; ++i)
        {
            x(i) = grid(lo, hi);
        }
        return x;
    }
};

enum class relation
{
    through, ///< the constraint function vanishes at the anchor (equalities hold, inequalities are active)
    inactive, ///< strictly satisfied at the anchor
    free     ///< unrelated to the anchor
};

///
/// \brief one constraint of the given kind, placed relative to the anchor point.
///
cons_t make_constraint(const gen_t& G, const int n, const int kind, const evec& anchor, const relation rel, const bool convex_only)
{
    auto&  rng = G.rng;
    cons_t c;
    c.kind   = kind;
    c.dyadic = G.dyadic;
    const double slack = rel == relation::inactive ? G.slack() : 0.0;
    const double scale = G.dyadic ? 1.0 : rng.loguniform(0.1, 10.0);
    switch (kind)
    {
    case k_constant:
    case k_minimum:
    case k_maximum:
        c.dim = static_cast<tensor_size_t>(rng.integer(0, n - 1));
        if (rel == relation::free)
        {
            c.value = G.grid(-5.0, 5.0);
        }
        else
        {
            c.value = kind == k_minimum ? anchor(c.dim) - slack : anchor(c.dim) + slack;
        }
        break;
    case k_ball_eq:
    case k_ball_ineq:
    {
        c.radius = G.dyadic ? static_cast<double>(rng.integer(2, 28)) / 8.0 : rng.uniform(0.5, 3.5);
        if (rel == relation::free)
        {
            c.origin = G.point(n, -3.0, 3.0);
        }
        else if (rel == relation::through)
        {
            // the anchor lies on the sphere
            if (G.dyadic)
            {
                c.origin = anchor;
                c.origin(rng.integer(0, n - 1)) += rng.chance(0.5) ? c.radius : -c.radius;
            }
            else
            {
                evec u(n);
                for (int i = 0; i < n; ++i)
                {
                    u(i) = rng.normal();
                }
                if (u.norm() < 1e-6)
                {
                    u(0) = 1.0;
                }
                c.origin = anchor - c.radius * u / u.norm();
            }
        }
        else
        {
            // the anchor lies strictly inside
            c.origin = anchor;
            if (G.dyadic)
            {
                if (rng.chance(0.7))
                {
                    c.origin(rng.integer(0, n - 1)) += (rng.chance(0.5) ? 0.5 : -0.5) * c.radius;
                }
            }
            else
            {
                evec u(n);
                for (int i = 0; i < n; ++i)
                {
                    u(i) = rng.normal();
                }
                c.origin += rng.uniform(0.0, 0.9) * c.radius * u / std::max(1e-6, u.norm());
            }
        }
        break;
    }
    case k_lin_eq:
    case k_lin_ineq:
    {
        c.q = evec(n);
        for (int i = 0; i < n; ++i)
        {
            c.q(i) = G.coef(scale);
        }
        if (c.q.cwiseAbs().maxCoeff() == 0.0)
        {
            c.q(rng.integer(0, n - 1)) = 1.0;
        }
        c.r = rel == relation::free ? 2.0 * G.coef(scale) : -c.q.dot(anchor) - slack;
        break;
    }
    case k_quad_eq:
    case k_quad_ineq:
    {
        const bool psd = convex_only || rng.chance(0.5);
        if (psd)
        {
            const auto k = static_cast<int>(rng.integer(1, n));
            emat       B(n, k);
            for (int i = 0; i < n; ++i)
            {
                for (int j = 0; j < k; ++j)
                {
                    B(i, j) = G.dyadic ? static_cast<double>(rng.integer(-2, 2)) : scale * rng.normal() / std::sqrt(static_cast<double>(k));
                }
            }
            c.P = B * B.transpose();
        }
        else
        {
            emat S(n, n);
            for (int i = 0; i < n; ++i)
            {
                for (int j = 0; j < n; ++j)
                {
                    S(i, j) = G.coef(scale);
                }
            }
            c.P = S + S.transpose().eval();
        }
        c.P = (0.5 * (c.P + c.P.transpose().eval())).eval(); // exactly symmetric
        c.q = evec(n);
        for (int i = 0; i < n; ++i)
        {
            c.q(i) = G.coef(scale);
        }
        c.r = rel == relation::free ? 2.0 * G.coef(scale) : -(0.5 * anchor.dot(c.P * anchor) + c.q.dot(anchor)) - slack;
        break;
    }
    default:
    {
        using T = cfunc_t::type;
        T t     = T::sumsq;
        if (convex_only)
        {
            const auto r = rng.integer(0, 9);
            t            = r < 5 ? T::sumsq : (r < 9 ? T::logsumexp : T::absdev);
        }
        else
        {
            t = static_cast<T>(rng.integer(0, 3));
        }
        evec w(n), cc(n);
        for (int i = 0; i < n; ++i)
        {
            w(i)  = G.dyadic ? static_cast<double>(rng.integer(-3, 3)) : rng.normal();
            cc(i) = G.grid(-3.0, 3.0);
            if (convex_only || t == T::logsumexp)
            {
                w(i) = std::fabs(w(i));
            }
            if (t == T::logsumexp)
            {
                w(i) = std::min(w(i), 2.0); // keeps exp() far away from overflow
            }
        }
        if (w.cwiseAbs().maxCoeff() == 0.0)
        {
            w(rng.integer(0, n - 1)) = 1.0;
        }
        c.func = std::make_shared<cfunc_t>(t, w, cc, 0.0);
        if (rel == relation::free)
        {
            c.func->m_b = c.func->raw(G.point(n, -5.0, 5.0), nullptr);
        }
        else
        {
            c.func->m_b = c.func->raw(anchor, nullptr) + slack;
        }
        break;
    }
    }
    return c;
}

const rfunctions_t& registered_pool()
{
    static const rfunctions_t pool = []()
    {
        nano::verif::rng_seed().store(0x5eedULL);
        rfunctions_t out;
        auto         fs = function_t::make({1, 8, convexity::ignore, smoothness::yes, 20}, std::regex(".+"));
        for (auto& f : fs)
        {
            if (f && f->smooth() && f->constraints().empty())
            {
                out.push_back(std::move(f));
            }
        }
        return out;
    }();
    return pool;
}

rfunction_t make_quadratic_objective(vf::rng_t& rng, const int n, const bool convex_only, const bool dyadic, uint64_t& hash)
{
    emat M(n, n);
    for (int i = 0; i < n; ++i)
    {
        for (int j = 0; j < n; ++j)
        {
            M(i, j) = dyadic ? static_cast<double>(rng.integer(-2, 2)) : rng.normal();
        }
    }
    const bool cvx = convex_only || rng.chance(0.7);
    emat       A   = cvx ? emat(M * M.transpose() + (dyadic ? 0.125 : 0.1) * emat::Identity(n, n)) : emat(M + M.transpose());
    if (!dyadic)
    {
        A *= rng.loguniform(0.1, 10.0);
    }
    A = (0.5 * (A + A.transpose().eval())).eval();
    evec a(n);
    for (int i = 0; i < n; ++i)
    {
        a(i) = dyadic ? static_cast<double>(rng.integer(-4, 4)) : 3.0 * rng.normal();
    }
    hash = vf::hash_bytes(A.data(), sizeof(double) * static_cast<size_t>(A.size()), hash);
    hash = vf::hash_bytes(a.data(), sizeof(double) * static_cast<size_t>(a.size()), hash);
    return std::make_unique<quad_objective_t>(A, a, cvx);
}

vector_t to_tensor(const evec& x)
{
    vector_t t{static_cast<tensor_size_t>(x.size())};
    t.vector() = x;
    return t;
}

// ------------------------------------------------------------------------------------------------------------------
// mode "formula"

enum formula_t : int
{
    f_linear = 0,
    f_quadratic,
    f_augmented
};

const char* const formula_names[] = {"linear-penalty", "quadratic-penalty", "augmented-lagrangian"};

struct kink_t
{
    ldvec dir; ///< contribution t * dir with t in [lo, hi]
    ld    lo{0}, hi{1};
};

struct reference_t
{
    ld                  value{0}, tol_value{0};
    ldvec               grad, tol_grad;
    std::vector<kink_t> kinks;
};

///
/// \brief the defining formulas in long double + first-order propagation of the re-association noise.
///
reference_t reference(const formula_t formula, const double rho_, const double f, const vector_t& gf,
                      const std::vector<cons_t>& cons, const std::vector<ceval_t>& evals, const vector_t& lambda,
                      const vector_t& miu)
{
    const auto  n   = static_cast<size_t>(gf.size());
    const ld    rho = static_cast<ld>(rho_);
    reference_t R;
    R.value = static_cast<ld>(f);
    R.grad.assign(n, 0.0L);
    R.tol_grad.assign(n, 0.0L);
    for (size_t i = 0; i < n; ++i)
    {
        R.grad[i]     = static_cast<ld>(gf(static_cast<tensor_size_t>(i)));
        R.tol_grad[i] = REL * std::fabs(R.grad[i]);
    }
    ld            sumabs = std::fabs(static_cast<ld>(f));
    tensor_size_t ie = 0, ii = 0;
    for (size_t k = 0; k < cons.size(); ++k)
    {
        const auto& e  = evals[k];
        const bool  eq = cons[k].eq();
        ld          m  = 0.0L;
        if (formula == f_augmented)
        {
            m = static_cast<ld>(eq ? lambda(ie) : miu(ii));
        }
        (eq ? ie : ii)++;
        const ld shift = (m != 0.0L) ? m / rho : 0.0L;
        const ld u     = e.v + shift;
        const ld du    = REL * e.sv + ((m != 0.0L) ? REL * (std::fabs(e.v) + std::fabs(shift)) : 0.0L);
        const ld p     = eq ? u : std::max<ld>(0.0L, u);

        ld   T = 0, dT = 0, K = 0, LK = 0;
        bool kink = false;
        switch (formula)
        {
        case f_linear:
            T    = rho * std::fabs(p);
            dT   = rho;
            kink = std::fabs(u) <= du;
            K    = kink ? 0.0L : (eq ? (u > 0 ? rho : -rho) : (u > 0 ? rho : 0.0L));
            break;
        case f_quadratic:
            T  = rho * p * p;
            dT = 2.0L * rho * (std::fabs(p) + du);
            K  = 2.0L * rho * p;
            LK = 2.0L * rho;
            break;
        default:
            T  = 0.5L * rho * p * p;
            dT = rho * (std::fabs(p) + du);
            K  = rho * p;
            LK = rho;
            break;
        }
        R.value += T;
        sumabs += std::fabs(T);
        R.tol_value += dT * du;
        if (kink)
        {
            kink_t kk;
            kk.lo = eq ? -1.0L : 0.0L;
            kk.hi = 1.0L;
            kk.dir.assign(n, 0.0L);
            for (size_t i = 0; i < n; ++i)
            {
                kk.dir[i] = rho * e.g[i];
                R.tol_grad[i] += REL * rho * (std::fabs(e.g[i]) + e.sg[i]);
            }
            R.kinks.push_back(std::move(kk));
        }
        else
        {
            for (size_t i = 0; i < n; ++i)
            {
                R.grad[i] += K * e.g[i];
                R.tol_grad[i] += REL * std::fabs(K) * (std::fabs(e.g[i]) + e.sg[i]) + LK * du * (std::fabs(e.g[i]) + REL * e.sg[i]);
            }
        }
    }
    R.tol_value += REL * sumabs;
    return R;
}

///
/// \brief is `got` in { grad + sum t_k dir_k : t_k in [lo_k, hi_k] } (component-wise within tol)?
///     vertices first (that is what an implementation with a branch returns), then a box-constrained least-squares fit.
///
bool in_hull(const reference_t& R, const vector_t& got, ld& worst)
{
    const auto n = R.grad.size();
    const auto k = R.kinks.size();
    ldvec      res(n);
    for (size_t i = 0; i < n; ++i)
    {
        res[i] = static_cast<ld>(got(static_cast<tensor_size_t>(i))) - R.grad[i];
    }
    const auto fits = [&](const ldvec& t, ld& ratio)
    {
        ratio = 0.0L;
        for (size_t i = 0; i < n; ++i)
        {
            ld r = res[i];
            for (size_t j = 0; j < k; ++j)
            {
                r -= t[j] * R.kinks[j].dir[i];
            }
            if (!(std::fabs(r) <= R.tol_grad[i]))
            {
                const ld q = R.tol_grad[i] > 0 ? std::fabs(r) / R.tol_grad[i] : std::numeric_limits<ld>::infinity();
                ratio      = (q > ratio || !(q == q)) ? (q == q ? q : std::numeric_limits<ld>::infinity()) : ratio;
            }
        }
        return ratio == 0.0L;
    };
    worst = std::numeric_limits<ld>::infinity();
    ldvec t(k);
    if (k <= 12)
    {
        for (uint64_t mask = 0; mask < (1ULL << k); ++mask)
        {
            for (size_t j = 0; j < k; ++j)
            {
                t[j] = ((mask >> j) & 1ULL) ? R.kinks[j].hi : R.kinks[j].lo;
            }
            ld ratio = 0;
            if (fits(t, ratio))
            {
                worst = 0.0L;
                return true;
            }
            worst = std::min(worst, ratio);
        }
    }
    // interior of the hull: cyclic coordinate descent on 0.5 |res - D t|^2 over the box
    for (size_t j = 0; j < k; ++j)
    {
        t[j] = 0.5L * (R.kinks[j].lo + R.kinks[j].hi);
    }
    for (int it = 0; it < 2000; ++it)
    {
        ld moved = 0.0L;
        for (size_t j = 0; j < k; ++j)
        {
            ld num = 0.0L, den = 0.0L;
            for (size_t i = 0; i < n; ++i)
            {
                ld r = res[i];
                for (size_t l = 0; l < k; ++l)
                {
                    if (l != j)
                    {
                        r -= t[l] * R.kinks[l].dir[i];
                    }
                }
                num += r * R.kinks[j].dir[i];
                den += R.kinks[j].dir[i] * R.kinks[j].dir[i];
            }
            if (den > 0.0L)
            {
                const ld tn = std::min(R.kinks[j].hi, std::max(R.kinks[j].lo, num / den));
                moved       = std::max(moved, std::fabs(tn - t[j]));
                t[j]        = tn;
            }
        }
        if (moved < 1e-15L)
        {
            break;
        }
    }
    // the iterative fit gets a small numerical slack of its own (never reached by a branch-based implementation)
    ld scale = 0.0L;
    for (size_t i = 0; i < n; ++i)
    {
        scale = std::max(scale, std::fabs(res[i]));
    }
    bool ok = true;
    for (size_t i = 0; i < n; ++i)
    {
        ld r = res[i];
        for (size_t j = 0; j < k; ++j)
        {
            r -= t[j] * R.kinks[j].dir[i];
        }
        ok = ok && (std::fabs(r) <= R.tol_grad[i] + 1e-9L * scale);
    }
    return ok;
}

struct problem_t
{
    rfunction_t         objective; ///< with the constraints registered
    rfunction_t         fref;      ///< clone taken before any constraint was registered
    std::string         oname;
    std::vector<cons_t> cons;
    tensor_size_t       neq{0}, nineq{0};
    vector_t            lambda, miu;
};

struct point_t
{
    evec        x;
    bool        exact{false};
    bool        expect_feasible{false};
    const char* type{"random"};
};

double draw_penalty(vf::rng_t& rng)
{
    const auto k = rng.integer(0, 15);
    return k == 0 ? 1e-3 : (k == 1 ? 1e6 : rng.loguniform(1e-3, 1e6));
}

double draw_multiplier(vf::rng_t& rng, const bool equality)
{
    const auto k = rng.integer(0, 11);
    double     m = 0.0;
    if (k <= 1)
    {
        m = 0.0;
    }
    else if (k == 2)
    {
        m = 1e6;
    }
    else if (k == 3)
    {
        m = 1e-6;
    }
    else
    {
        m = std::fabs(rng.normal()) * std::pow(10.0, rng.uniform(-2.0, 3.0));
    }
    if (equality ? rng.chance(0.5) : rng.chance(0.05))
    {
        m = -m;
    }
    return m;
}

vf::json_t witness(const problem_t& pb, const point_t& pt, const double rho, const formula_t formula)
{
    vf::json_t j;
    j.kv("object", formula_names[formula]).kv("objective", pb.oname).kv("n", static_cast<long long>(pt.x.size()));
    j.kv("point_type", pt.type).kv("point_exact", pt.exact).kv("penalty", rho);
    j.vec("x", pt.x).vec("lambda", pb.lambda).vec("miu", pb.miu);
    j.raw("constraints", cons_json(pb.cons));
    return j;
}

///
/// \brief evaluate the three penalty objects at one point and compare with the formulas.
/// returns (number of inequalities with g > noise, number with g < -noise).
///
std::pair<int, int> check_point(vf::ctx_t& c, problem_t& pb, linear_penalty_function_t& lp, quadratic_penalty_function_t& qp,
                                augmented_lagrangian_function_t& al, const point_t& pt)
{
    auto&      rng = c.rng;
    const auto n   = static_cast<tensor_size_t>(pt.x.size());
    const auto x   = to_tensor(pt.x);

    // the objective (a pure function: the clone returns the very bits the penalty object sees)
    vector_t     gf{n};
    const double f = pb.fref->vgrad(x, gf);
    if (!std::isfinite(f) || !gf.all_finite())
    {
        c.count("points_skipped_nonfinite_objective");
        return {0, 0};
    }

    std::vector<ceval_t> evals(pb.cons.size());
    int                  active = 0, inactive = 0;
    bool                 feasible = true;
    for (size_t k = 0; k < pb.cons.size(); ++k)
    {
        pb.cons[k].eval(pt.x, pt.exact, evals[k]);
        const auto& e     = evals[k];
        const ld    noise = REL * e.sv;
        if (pb.cons[k].eq())
        {
            feasible = feasible && std::fabs(e.v) <= noise;
        }
        else
        {
            active += e.v > noise ? 1 : 0;
            inactive += e.v < -noise ? 1 : 0;
            feasible = feasible && e.v <= noise;
        }
        c.count(std::string("kind:") + kind_names[pb.cons[k].kind]);
    }
    c.count("points");
    c.count(std::string("point:") + pt.type);
    c.count("inequalities_active", active);
    c.count("inequalities_inactive", inactive);

    // multipliers of this point (the augmented lagrangian object refers to the vectors)
    const bool zero_multipliers = rng.chance(0.15);
    for (tensor_size_t i = 0; i < pb.neq; ++i)
    {
        pb.lambda(i) = zero_multipliers ? 0.0 : draw_multiplier(rng, true);
    }
    for (tensor_size_t i = 0; i < pb.nineq; ++i)
    {
        pb.miu(i) = zero_multipliers ? 0.0 : draw_multiplier(rng, false);
    }

    const auto check_object = [&](const formula_t formula, penalty_function_t& object, const bool feasible_clause)
    {
        const double rho = draw_penalty(rng);
        object.penalty(rho);
        const auto R = reference(formula, rho, f, gf, pb.cons, evals, pb.lambda, pb.miu);

        vector_t     g{n};
        const double v  = object.vgrad(x, g);
        const double v0 = object.vgrad(x);

        c.count(std::string("value_checks:") + formula_names[formula]);
        if (R.tol_value > 0.0L)
        {
            // how much of the tolerance the unchanged library uses (parts per million), for the evidence
            c.maxc("value_error_ppm_of_tolerance", static_cast<int64_t>(std::min<ld>(1e12L, 1e6L * std::fabs(static_cast<ld>(v) - R.value) / R.tol_value)));
        }
        if (!(std::fabs(static_cast<ld>(v) - R.value) <= R.tol_value))
        {
            auto j = witness(pb, pt, rho, formula);
            j.kv("got", v).kv("expected", R.value).kv("tolerance", R.tol_value).kv("objective_value", f);
            c.violation(std::string("C05|value|") + formula_names[formula], j);
        }
        c.count(std::string("valueonly_checks:") + formula_names[formula]);
        if (!(std::fabs(static_cast<ld>(v0) - R.value) <= R.tol_value))
        {
            auto j = witness(pb, pt, rho, formula);
            j.kv("got", v0).kv("expected", R.value).kv("tolerance", R.tol_value).kv("with_gradient", v);
            c.violation(std::string("C05|value-only|") + formula_names[formula], j);
        }
        if (R.kinks.empty())
        {
            c.count(std::string("gradient_checks:") + formula_names[formula]);
            for (tensor_size_t i = 0; i < n; ++i)
            {
                const auto ui = static_cast<size_t>(i);
                if (R.tol_grad[ui] > 0.0L)
                {
                    c.maxc("gradient_error_ppm_of_tolerance", static_cast<int64_t>(std::min<ld>(1e12L, 1e6L * std::fabs(static_cast<ld>(g(i)) - R.grad[ui]) / R.tol_grad[ui])));
                }
                if (!(std::fabs(static_cast<ld>(g(i)) - R.grad[ui]) <= R.tol_grad[ui]))
                {
                    auto j = witness(pb, pt, rho, formula);
                    j.kv("component", static_cast<long long>(i)).kv("got", g(i)).kv("expected", R.grad[ui]).kv("tolerance", R.tol_grad[ui]);
                    j.vec("gradient", g);
                    c.violation(std::string("C05|gradient|") + formula_names[formula], j);
                    break;
                }
            }
        }
        else
        {
            c.count("subgradient_hull_checks");
            c.count("subgradient_hull_kinks", static_cast<int64_t>(R.kinks.size()));
            ld worst = 0;
            if (!in_hull(R, g, worst))
            {
                auto j = witness(pb, pt, rho, formula);
                j.kv("kinks", static_cast<long long>(R.kinks.size())).kv("best_vertex_error_over_tolerance", worst);
                j.vec("gradient", g);
                j.arr("smooth_part", R.grad.data(), R.grad.size());
                c.violation(std::string("C05|subgradient-hull|") + formula_names[formula], j);
            }
        }
        if (feasible_clause)
        {
            // feasible by construction and verified by the record: the penalty terms vanish, the objective remains
            c.count(std::string("feasible_checks:") + formula_names[formula]);
            if (!(std::fabs(static_cast<ld>(v) - static_cast<ld>(f)) <= R.tol_value) ||
                !(std::fabs(static_cast<ld>(v0) - static_cast<ld>(f)) <= R.tol_value))
            {
                auto j = witness(pb, pt, rho, formula);
                j.kv("got", v).kv("got_value_only", v0).kv("objective_value", f).kv("tolerance", R.tol_value);
                c.violation(std::string("C05|feasible-equals-objective|") + formula_names[formula], j);
            }
        }
    };

    const bool feasible_point = pt.expect_feasible && feasible;
    if (pt.expect_feasible && !feasible)
    {
        c.count("feasible_by_construction_not_verified");
    }
    check_object(f_linear, lp, feasible_point);
    check_object(f_quadratic, qp, feasible_point);
    check_object(f_augmented, al, feasible_point && zero_multipliers);
    if (feasible_point && !zero_multipliers)
    {
        pb.lambda.full(0.0);
        pb.miu.full(0.0);
        check_object(f_augmented, al, true);
    }
    return {active, inactive};
}

///
/// \brief a problem = objective + 0..8 constraints placed relative to an anchor point.
///
void make_problem(vf::ctx_t& c, problem_t& pb, const gen_t& G, evec& anchor, const bool anchor_only, const bool convex_only,
                  const bool allow_registered, const int min_constraints, uint64_t& hash)
{
    auto& rng = c.rng;
    int   n   = 0;
    if (allow_registered && rng.chance(0.5))
    {
        const auto& pool = registered_pool();
        std::vector<size_t> candidates;
        for (size_t i = 0; i < pool.size(); ++i)
        {
            if (!convex_only || pool[i]->convex())
            {
                candidates.push_back(i);
            }
        }
        const auto i = candidates[static_cast<size_t>(rng.integer(0, static_cast<int64_t>(candidates.size()) - 1))];
        pb.objective = pool[i]->clone();
        pb.oname     = pb.objective->name();
        n            = static_cast<int>(pb.objective->size());
        hash         = vf::mix(hash, vf::hash_str(pb.oname.c_str()));
    }
    else
    {
        n            = static_cast<int>(rng.integer(1, 8));
        pb.objective = make_quadratic_objective(rng, n, convex_only, G.dyadic, hash);
        pb.oname     = "vf-quadratic";
    }
    pb.fref = pb.objective->clone();
    anchor  = G.point(n, -5.0, 5.0);
    hash    = vf::hash_bytes(anchor.data(), sizeof(double) * static_cast<size_t>(n), hash);

    const auto nc = static_cast<int>(rng.integer(min_constraints, 8));
    for (int k = 0; k < nc; ++k)
    {
        int kind = static_cast<int>(rng.integer(0, k_count - 1));
        if (convex_only)
        {
            // convex feasible sets only: no non-linear equalities
            while (kind == k_ball_eq || kind == k_quad_eq || kind == k_func_eq)
            {
                kind = static_cast<int>(rng.integer(0, k_count - 1));
            }
        }
        relation rel = relation::through;
        if (kind_is_eq(kind))
        {
            rel = (anchor_only || rng.chance(0.6)) ? relation::through : relation::free;
        }
        else if (anchor_only)
        {
            rel = rng.chance(0.35) ? relation::through : relation::inactive;
        }
        else
        {
            const auto r = rng.integer(0, 19);
            rel          = r < 5 ? relation::through : (r < 12 ? relation::inactive : relation::free);
        }
        auto cons = make_constraint(G, n, kind, anchor, rel, convex_only);
        if (cons.add_to(*pb.objective))
        {
            hash = cons.hash(hash);
            pb.cons.push_back(std::move(cons));
        }
        else
        {
            // every generated record is compatible by construction
            c.violation("C05|registration|" + std::string(kind_names[kind]), cons.json());
        }
    }
    for (const auto& cons : pb.cons)
    {
        (cons.eq() ? pb.neq : pb.nineq)++;
    }
    pb.lambda = vector_t{pb.neq};
    pb.miu    = vector_t{pb.nineq};
    pb.lambda.full(0.0);
    pb.miu.full(0.0);
}

void case_formula(vf::ctx_t& c)
{
    auto& rng = c.rng;
    nano::verif::rng_seed().store(c.seed | 1U);

    const gen_t G{rng, rng.chance(0.45)};
    const bool  anchor_only = rng.chance(0.35);
    uint64_t    hash        = G.dyadic ? 11 : 13;
    problem_t   pb;
    evec        anchor;
    make_problem(c, pb, G, anchor, anchor_only, false, true, 0, hash);
    const auto n = static_cast<int>(anchor.size());

    if (count_equalities(*pb.objective) != pb.neq || count_inequalities(*pb.objective) != pb.nineq)
    {
        vf::json_t j;
        j.kv("equalities", static_cast<long long>(count_equalities(*pb.objective))).kv("expected", static_cast<long long>(pb.neq));
        j.raw("constraints", cons_json(pb.cons));
        c.violation("C05|registration|count", j);
        return;
    }

    auto lp = linear_penalty_function_t{*pb.objective};
    auto qp = quadratic_penalty_function_t{*pb.objective};
    auto al = augmented_lagrangian_function_t{*pb.objective, pb.lambda, pb.miu};

    // the points
    std::vector<point_t> points;
    points.push_back({anchor, G.dyadic, anchor_only, "anchor"});
    {
        point_t p{anchor, G.dyadic, false, "near-anchor"};
        const auto d = rng.integer(0, n - 1);
        p.x(d) += G.dyadic ? static_cast<double>(rng.integer(1, 8)) / 16.0 * (rng.chance(0.5) ? 1.0 : -1.0)
                           : std::pow(10.0, -rng.uniform(0.0, 7.0)) * (rng.chance(0.5) ? 1.0 : -1.0);
        points.push_back(std::move(p));
    }
    for (int r = 0; r < 3; ++r)
    {
        points.push_back({G.point(n, -5.0, 5.0), G.dyadic, false, "random"});
    }
    {
        // a random point put exactly (bounds), or up to rounding (hyperplane, sphere), on the zero set of one constraint
        point_t p{G.point(n, -5.0, 5.0), G.dyadic, false, "random"};
        if (!pb.cons.empty())
        {
            const auto& cons = pb.cons[static_cast<size_t>(rng.integer(0, static_cast<int64_t>(pb.cons.size()) - 1))];
            if (cons.kind <= k_maximum)
            {
                p.x(cons.dim) = cons.value;
                p.type        = "on-bound";
            }
            else if (cons.kind == k_lin_eq || cons.kind == k_lin_ineq)
            {
                const double t = (cons.q.dot(p.x) + cons.r) / cons.q.squaredNorm();
                p.x -= t * cons.q;
                p.exact = false;
                p.type  = "on-hyperplane";
            }
            else if (cons.kind == k_ball_eq || cons.kind == k_ball_ineq)
            {
                evec u = p.x - cons.origin;
                if (u.norm() > 1e-6)
                {
                    p.x     = cons.origin + cons.radius * u / u.norm();
                    p.exact = false;
                    p.type  = "on-sphere";
                }
            }
        }
        points.push_back(std::move(p));
    }
    {
        point_t p{evec(n), true, false, "corner"};
        for (int i = 0; i < n; ++i)
        {
            p.x(i) = rng.chance(0.5) ? 5.0 : -5.0;
        }
        p.exact = G.dyadic;
        points.push_back(std::move(p));
    }

    bool nontrivial = false;
    for (const auto& pt : points)
    {
        hash                    = vf::hash_bytes(pt.x.data(), sizeof(double) * static_cast<size_t>(n), hash);
        const auto [act, inact] = check_point(c, pb, lp, qp, al, pt);
        nontrivial              = nontrivial || (act >= 1 && inact >= 1);
    }
    if (nontrivial)
    {
        c.nontrivial(hash);
    }
    if (c.want_sample())
    {
        vf::json_t j;
        j.kv("objective", pb.oname).kv("n", n).kv("dyadic", G.dyadic).kv("anchor_feasible_by_construction", anchor_only);
        j.vec("anchor", anchor).raw("constraints", cons_json(pb.cons, 8)).kv("points", static_cast<long long>(points.size()));
        c.sample(j);
    }
}

// ------------------------------------------------------------------------------------------------------------------
// mode "solver"

struct solve_problem_t
{
    std::string                                    family;
    std::unique_ptr<program::linear_program_t>    lprog; ///< kept alive: make_function captures the program by reference
    std::unique_ptr<program::quadratic_program_t> qprog;
    rfunction_t                                    function;
    std::vector<cons_t>                            cons; ///< in registration order
    evec                                           anchor; ///< a feasible point (the constructed optimum for programs)
};

cons_t linear_record(const evec& row, const double b, const bool equality)
{
    cons_t c;
    c.kind = equality ? k_lin_eq : k_lin_ineq;
    c.q    = row;
    c.r    = -b;
    return c;
}

///
/// \brief convex QP / LP with a KKT-constructed optimum x*, converted with make_function(program).
///
void make_program_problem(vf::ctx_t& c, solve_problem_t& sp, const bool qp, uint64_t& hash)
{
    auto&      rng = c.rng;
    const auto n   = static_cast<int>(rng.integer(1, 8));
    const auto p   = static_cast<int>(rng.integer(0, std::min(n - 1, 3)));
    auto       m   = static_cast<int>(rng.integer(p == 0 ? 1 : 0, 8));
    const bool box = !qp || rng.chance(0.3);

    evec xs(n);
    for (int i = 0; i < n; ++i)
    {
        xs(i) = rng.uniform(-3.0, 3.0);
    }
    const double scale = rng.loguniform(0.1, 10.0);
    emat         A(p, n), Gm(m + (box ? 2 * n : 0), n);
    evec         b(p), h(m + (box ? 2 * n : 0)), nu(p), mu = evec::Zero(m + (box ? 2 * n : 0));
    for (int i = 0; i < p; ++i)
    {
        for (int j = 0; j < n; ++j)
        {
            A(i, j) = scale * rng.normal();
        }
        nu(i) = rng.normal();
        b(i)  = A.row(i).dot(xs);
    }
    int nactive = static_cast<int>(rng.integer(0, std::min(m, n - p)));
    if (!qp)
    {
        nactive = std::min(m, n - p);
    }
    for (int i = 0; i < m; ++i)
    {
        const double s = std::pow(10.0, rng.uniform(-0.5, 0.5));
        for (int j = 0; j < n; ++j)
        {
            Gm(i, j) = s * rng.normal();
        }
        if (i < nactive)
        {
            mu(i) = rng.uniform(0.1, 3.0);
            h(i)  = Gm.row(i).dot(xs);
        }
        else
        {
            h(i) = Gm.row(i).dot(xs) + rng.uniform(0.1, 2.0);
        }
    }
    if (box)
    {
        const double bound = rng.uniform(4.0, 12.0);
        for (int i = 0; i < n; ++i)
        {
            Gm.row(m + 2 * i).setZero();
            Gm.row(m + 2 * i + 1).setZero();
            Gm(m + 2 * i, i)     = 1.0;
            Gm(m + 2 * i + 1, i) = -1.0;
            h(m + 2 * i)         = bound;
            h(m + 2 * i + 1)     = bound;
        }
        m += 2 * n;
    }
    emat Q = emat::Zero(n, n);
    if (qp)
    {
        const auto r = static_cast<int>(rng.integer(1, n));
        emat       D(r, n);
        for (int i = 0; i < r; ++i)
        {
            for (int j = 0; j < n; ++j)
            {
                D(i, j) = rng.normal();
            }
        }
        Q = scale * D.transpose() * D;
        if (rng.chance(0.7))
        {
            Q += 0.1 * emat::Identity(n, n);
        }
        Q = (0.5 * (Q + Q.transpose().eval())).eval();
    }
    evec cc = -(Q * xs);
    if (p > 0)
    {
        cc -= A.transpose() * nu;
    }
    if (m > 0)
    {
        cc -= Gm.transpose() * mu;
    }

    matrix_t tA{p, n}, tG{m, n}, tQ{n, n};
    vector_t tb{p}, th{m}, tc{n};
    tA.matrix() = A;
    tG.matrix() = Gm;
    tQ.matrix() = Q;
    tb.vector() = b;
    th.vector() = h;
    tc.vector() = cc;
    if (qp)
    {
        sp.qprog = std::make_unique<program::quadratic_program_t>(tQ, tc);
        if (p > 0 && m > 0)
        {
            sp.qprog->constrain(program::make_equality(tA, tb), program::make_inequality(tG, th));
        }
        else if (p > 0)
        {
            sp.qprog->constrain(program::make_equality(tA, tb));
        }
        else
        {
            sp.qprog->constrain(program::make_inequality(tG, th));
        }
        sp.function = make_function(*sp.qprog);
    }
    else
    {
        sp.lprog = std::make_unique<program::linear_program_t>(tc);
        if (p > 0 && m > 0)
        {
            sp.lprog->constrain(program::make_equality(tA, tb), program::make_inequality(tG, th));
        }
        else if (p > 0)
        {
            sp.lprog->constrain(program::make_equality(tA, tb));
        }
        else
        {
            sp.lprog->constrain(program::make_inequality(tG, th));
        }
        sp.function = make_function(*sp.lprog);
    }
    for (int i = 0; i < p; ++i)
    {
        sp.cons.push_back(linear_record(A.row(i).transpose(), b(i), true));
    }
    for (int i = 0; i < m; ++i)
    {
        sp.cons.push_back(linear_record(Gm.row(i).transpose(), h(i), false));
    }
    sp.anchor = xs;
    sp.family = qp ? "quadratic-program" : "linear-program";
    hash      = vf::hash_bytes(Q.data(), sizeof(double) * static_cast<size_t>(Q.size()), hash);
    hash      = vf::hash_bytes(cc.data(), sizeof(double) * static_cast<size_t>(n), hash);
    hash      = vf::hash_bytes(A.data(), sizeof(double) * static_cast<size_t>(A.size()), hash);
    hash      = vf::hash_bytes(Gm.data(), sizeof(double) * static_cast<size_t>(Gm.size()), hash);
    hash      = vf::hash_bytes(h.data(), sizeof(double) * static_cast<size_t>(h.size()), hash);
}

///
/// \brief convex quadratic restricted to a box and/or a ball (function_t::constrain overloads).
///
void make_ballbox_problem(vf::ctx_t& c, solve_problem_t& sp, uint64_t& hash)
{
    auto&      rng = c.rng;
    const auto n   = static_cast<int>(rng.integer(1, 8));
    sp.function    = make_quadratic_objective(rng, n, true, false, hash);
    sp.family      = "ball-box-quadratic";
    const auto how = rng.integer(0, 4);
    evec       center(n);
    for (int i = 0; i < n; ++i)
    {
        center(i) = rng.uniform(-3.0, 3.0);
    }
    sp.anchor      = center;
    const auto bound = [&](const int kind, const int dim, const double value)
    {
        cons_t k;
        k.kind  = kind;
        k.dim   = dim;
        k.value = value;
        sp.cons.push_back(k);
    };
    bool ok = true;
    if (how == 0 || how == 4)
    {
        // the same interval in every dimension
        const double lo = -rng.uniform(0.2, 4.0), hi = rng.uniform(0.2, 4.0);
        ok = sp.function->constrain(lo, hi) && ok;
        for (int i = 0; i < n; ++i)
        {
            bound(k_minimum, i, lo);
            bound(k_maximum, i, hi);
        }
        sp.anchor = evec::Constant(n, 0.5 * (lo + hi));
    }
    if (how == 1)
    {
        evec lo(n), hi(n);
        for (int i = 0; i < n; ++i)
        {
            lo(i) = center(i) - rng.uniform(0.1, 3.0);
            hi(i) = center(i) + rng.uniform(0.1, 3.0);
        }
        ok = sp.function->constrain(to_tensor(lo), to_tensor(hi)) && ok;
        for (int i = 0; i < n; ++i)
        {
            bound(k_minimum, i, lo(i));
            bound(k_maximum, i, hi(i));
        }
    }
    if (how == 2)
    {
        // some dimensions only
        for (int i = 0; i < n; ++i)
        {
            if (i == 0 || rng.chance(0.5))
            {
                const double lo = center(i) - rng.uniform(0.1, 3.0), hi = center(i) + rng.uniform(0.1, 3.0);
                ok = sp.function->constrain(lo, hi, i) && ok;
                bound(k_minimum, i, lo);
                bound(k_maximum, i, hi);
            }
        }
    }
    if (how == 3 || how == 4)
    {
        cons_t k;
        k.kind   = k_ball_ineq;
        k.origin = how == 4 ? sp.anchor : center;
        k.radius = rng.uniform(0.3, 4.0);
        ok       = k.add_to(*sp.function) && ok;
        sp.cons.push_back(k);
    }
    if (!ok)
    {
        c.violation("C05|registration|ball-box", vf::json_t().kv("how", static_cast<long long>(how)));
    }
    for (const auto& k : sp.cons)
    {
        hash = k.hash(hash);
    }
}

void case_solver(vf::ctx_t& c)
{
    auto& rng = c.rng;
    nano::verif::rng_seed().store(c.seed | 1U);

    uint64_t        hash = 17;
    solve_problem_t sp;
    problem_t       pb; // family "mixed" re-uses the generator of the formula mode
    const auto      fam = rng.integer(0, 19);
    if (fam < 6)
    {
        make_program_problem(c, sp, true, hash);
    }
    else if (fam < 9)
    {
        make_program_problem(c, sp, false, hash);
    }
    else if (fam < 13)
    {
        make_ballbox_problem(c, sp, hash);
    }
    else
    {
        const bool  convex_only = rng.chance(0.8);
        const gen_t G{rng, false};
        make_problem(c, pb, G, sp.anchor, true, convex_only, rng.chance(0.4), 1, hash);
        sp.function = std::move(pb.objective);
        sp.cons     = pb.cons;
        sp.family   = convex_only ? "mixed-convex" : "mixed-any";
    }
    const auto n = static_cast<int>(sp.function->size());

    tensor_size_t neq = 0, nineq = 0;
    for (const auto& k : sp.cons)
    {
        (k.eq() ? neq : nineq)++;
        c.count(std::string("kind:") + kind_names[k.kind]);
    }
    if (count_equalities(*sp.function) != neq || count_inequalities(*sp.function) != nineq)
    {
        vf::json_t j;
        j.kv("family", sp.family).kv("equalities", static_cast<long long>(count_equalities(*sp.function))).kv("expected", static_cast<long long>(neq));
        j.kv("inequalities", static_cast<long long>(count_inequalities(*sp.function))).kv("expected_inequalities", static_cast<long long>(nineq));
        c.violation("C05|registration|count", j);
        return;
    }

    // epsilon, x0, configuration
    const auto   ke      = rng.integer(0, 15);
    const double epsilon = ke == 0 ? 1e-10 : (ke == 1 ? 1e-4 : rng.loguniform(1e-10, 1e-4));
    evec         x0(n);
    const auto   kx = rng.integer(0, 9);
    for (int i = 0; i < n; ++i)
    {
        x0(i) = kx == 0 ? (rng.chance(0.5) ? 10.0 : -10.0) : (kx == 1 ? sp.anchor(i) : (kx == 2 ? 0.0 : rng.uniform(-10.0, 10.0)));
    }
    auto solver                          = solver_augmented_lagrangian_t{};
    solver.parameter("solver::epsilon") = epsilon;
    std::string config;
    if (rng.chance(0.25))
    {
        config = vfs::fuzz_parameters(
            solver, rng, [](const string_t& name) { return name.rfind("solver::augmented::", 0) != 0; }, 0.4, 190);
    }
    hash = vf::hash_double(epsilon, vf::hash_bytes(x0.data(), sizeof(double) * static_cast<size_t>(n), hash));
    hash = vf::mix(hash, vf::hash_str(config.c_str()));

    solver_state_t state;
    try
    {
        state = solver.minimize(*sp.function, to_tensor(x0), make_null_logger());
    }
    catch (const std::exception& e)
    {
        // no state was returned, so the premise (`converged`) is not met.  Seen on the unchanged tree with fuzzed
        // epsilon0/epsilonK: solver_t::more_precise() multiplies the inner solver's epsilon down to 0, which the
        // parameter domain (0, 0.1] rejects by throwing.  A robustness matter outside this property's statement.
        c.count("family:" + sp.family);
        c.count(std::string("solver_exception:") + (config.empty() ? "default-config" : "fuzzed-config"));
        if (c.want_sample())
        {
            c.sample(vf::json_t().kv("family", sp.family).kv("config", config).kv("exception", std::string(e.what()).substr(0, 200)));
        }
        c.inconclusive("solver-threw");
        return;
    }

    c.count("solves");
    c.count("family:" + sp.family);
    c.count(std::string("status:") + vfs::status_name(state.status()));

    const auto describe = [&]()
    {
        vf::json_t j;
        j.kv("family", sp.family).kv("n", n).kv("epsilon", epsilon).kv("config", config).vec("x0", x0);
        j.kv("status", vfs::status_name(state.status())).vec("x", state.x());
        j.vec("state_ceq", state.ceq()).vec("state_cineq", state.cineq());
        j.raw("constraints", cons_json(sp.cons, 20));
        if (sp.family == "mixed-convex" || sp.family == "mixed-any")
        {
            j.kv("objective", pb.oname);
        }
        return j;
    };

    if (c.want_sample())
    {
        c.sample(describe());
    }
    if (state.status() != solver_status::converged)
    {
        return; // never judged
    }
    if (state.x().size() != n || state.ceq().size() != neq || state.cineq().size() != nineq)
    {
        c.violation("C05|state-size|augmented-lagrangian", describe());
        return;
    }

    // recompute from the harness' records at the returned point
    const evec    x = state.x().vector();
    ceval_t       e;
    tensor_size_t ie = 0, ii = 0;
    ld            kkt1 = 0.0L, kkt2 = 0.0L, noise1 = 0.0L, noise2 = 0.0L;
    const ld      eps = static_cast<ld>(epsilon);
    int           at_boundary = 0;
    for (const auto& k : sp.cons)
    {
        k.eval(x, false, e);
        const ld noise = REL * e.sv;
        if (k.eq())
        {
            c.count("equality_feasibility_checks");
            if (!(std::fabs(e.v) <= eps + noise))
            {
                auto j = describe();
                j.kv("constraint", static_cast<long long>(ie)).kv("kind", kind_names[k.kind]).kv("h", e.v);
                c.violation("C05|converged-infeasible|equality", j);
            }
            c.count("stored_value_checks");
            if (!(std::fabs(static_cast<ld>(state.ceq()(ie)) - e.v) <= noise))
            {
                auto j = describe();
                j.kv("constraint", static_cast<long long>(ie)).kv("kind", kind_names[k.kind]).kv("stored", state.ceq()(ie)).kv("recomputed", e.v);
                c.violation("C05|state-ceq|augmented-lagrangian", j);
            }
            kkt2   = std::max(kkt2, std::fabs(e.v));
            noise2 = std::max(noise2, noise);
            ++ie;
        }
        else
        {
            c.count("inequality_feasibility_checks");
            if (!(std::max<ld>(0.0L, e.v) <= eps + noise))
            {
                auto j = describe();
                j.kv("constraint", static_cast<long long>(ii)).kv("kind", kind_names[k.kind]).kv("g", e.v);
                c.violation("C05|converged-infeasible|inequality", j);
            }
            c.count("stored_value_checks");
            if (!(std::fabs(static_cast<ld>(state.cineq()(ii)) - e.v) <= noise))
            {
                auto j = describe();
                j.kv("constraint", static_cast<long long>(ii)).kv("kind", kind_names[k.kind]).kv("stored", state.cineq()(ii)).kv("recomputed", e.v);
                c.violation("C05|state-cineq|augmented-lagrangian", j);
            }
            kkt1   = std::max(kkt1, std::max<ld>(0.0L, e.v));
            noise1 = std::max(noise1, noise);
            at_boundary += (std::fabs(e.v) <= std::max<ld>(eps, 1e-6L)) ? 1 : 0;
            ++ii;
        }
    }
    c.count("kkt_residual_checks", 2);
    if (!(std::fabs(static_cast<ld>(state.kkt_optimality_test1()) - kkt1) <= noise1))
    {
        auto j = describe();
        j.kv("stored", state.kkt_optimality_test1()).kv("recomputed", kkt1);
        c.violation("C05|kkt-test1|augmented-lagrangian", j);
    }
    if (!(std::fabs(static_cast<ld>(state.kkt_optimality_test2()) - kkt2) <= noise2))
    {
        auto j = describe();
        j.kv("stored", state.kkt_optimality_test2()).kv("recomputed", kkt2);
        c.violation("C05|kkt-test2|augmented-lagrangian", j);
    }
    c.count("converged_family:" + sp.family);
    if (at_boundary > 0)
    {
        c.count("converged_with_active_inequality");
    }
    if ((x - x0).cwiseAbs().maxCoeff() > 1e-3)
    {
        c.count("converged_away_from_x0");
    }
    c.nontrivial(hash);
}
} // namespace

int main(int argc, char** argv)
{
    const auto args = vf::parse_args(argc, argv);
    if (args.mode == "solver")
    {
        return vf::run(args, "C05",
                       "case = one augmented-lagrangian solve: KKT-constructed convex QP/LP via make_function(program) | convex "
                       "quadratic in a box/ball | objective + 1..8 constraints of the 11 kinds feasible at an anchor; epsilon in "
                       "[1e-10,1e-4], x0 in [-10,10]^n, 25% with fuzzed solver::augmented::* parameters; non-trivial: status "
                       "converged (then feasibility and stored values are judged); distinct by hash(problem, x0, epsilon, config)",
                       case_solver);
    }
    return vf::run(args, "C05",
                   "case = objective (registered smooth function or random quadratic, n<=8) + 0..8 constraints of the 11 kinds "
                   "(coefficients real or dyadic-exact, placed through/inside/unrelated to an anchor) evaluated at 7 points (anchor, "
                   "near anchor, random, on a constraint's zero set, corner) with fresh penalty in [1e-3,1e6] and multipliers per "
                   "point, for the linear, quadratic and augmented-lagrangian objects; non-trivial: some point has >= 1 violated "
                   "and >= 1 strictly satisfied inequality; distinct by hash(objective, constraints, points)",
                   case_formula);
}
