// C20 - order statistics and histograms agree with a sorted-array reference.
//
// Monitor: every value returned by percentile/percentile_sorted/median/median_sorted, every histogram bin
// (count, mean, median), bin(v) for arbitrary real queries and ml::store_stats are compared against a reference
// computed by the harness from a sorted copy of the data (the library is never asked for the expected answer).
#include "common/vf.h"
#include <algorithm>
#include <nano/core/histogram.h>
#include <nano/core/stats.h>
#include <nano/machine/stats.h>

using namespace nano;

namespace
{
double ref_percentile(const std::vector<double>& sorted, double p)
{
    const auto   n   = static_cast<double>(sorted.size());
    const double pos = p * (n - 1.0) / 100.0;
    const auto   lo  = static_cast<size_t>(std::floor(pos));
    const auto   hi  = static_cast<size_t>(std::ceil(pos));
    return lo == hi ? sorted[lo] : (sorted[lo] + sorted[hi]) / 2;
}

// the counting rule: a value goes right of every threshold it is greater than or equal to
tensor_size_t ref_bin(const std::vector<double>& sorted_thresholds, double v)
{
    tensor_size_t bin = 0;
    for (const auto t : sorted_thresholds)
    {
        bin += (v >= t) ? 1 : 0;
    }
    return bin;
}

template <class tvalue>
void check_list(vf::ctx_t& c, const std::vector<tvalue>& values, const char* kind)
{
    auto&               rng = c.rng;
    const auto          n   = values.size();
    std::vector<double> sorted(values.begin(), values.end());
    std::sort(sorted.begin(), sorted.end());

    // percentiles: fine grid incl. 0 and 100 and the positions that fall exactly on elements
    const int nq = 24;
    for (int q = 0; q < nq; ++q)
    {
        double p = 0.0;
        switch (q)
        {
        case 0: p = 0.0; break;
        case 1: p = 100.0; break;
        case 2: p = 50.0; break;
        case 3: p = (n > 1) ? 100.0 * static_cast<double>(rng.integer(0, static_cast<int64_t>(n) - 1)) / static_cast<double>(n - 1) : 0.0; break;
        default: p = static_cast<double>(rng.integer(0, 10000)) / 100.0; break;
        }
        p = std::min(100.0, std::max(0.0, p));
        // the reference position uses the same expression p*(n-1)/100 as the statement
        const double expect = ref_percentile(sorted, p);

        auto         copy  = values;
        const double got_u = percentile(copy.begin(), copy.end(), p);
        auto         scopy = values;
        std::sort(scopy.begin(), scopy.end());
        const double got_s = percentile_sorted(scopy.begin(), scopy.end(), p);
        c.count("percentile_checks", 2);
        // integer lists: the statement's mid-point is (a+b)/2 in real arithmetic
        if (got_u != expect || got_s != expect)
        {
            vf::json_t j;
            j.kv("kind", kind).kv("n", static_cast<long long>(n)).kv("p", p).kv("unsorted", got_u).kv("sorted", got_s).kv("expected", expect);
            j.arr("values", sorted.data(), sorted.size(), 40);
            c.violation(got_u != expect ? "C20|percentile|unsorted" : "C20|percentile|sorted", j);
        }
        // the unsorted variant must keep the multiset of values
        std::vector<double> after(copy.begin(), copy.end());
        std::sort(after.begin(), after.end());
        if (after != sorted)
        {
            vf::json_t j;
            j.kv("kind", kind).kv("p", p);
            c.violation("C20|percentile|values-lost", j);
        }
    }
    {
        auto         copy  = values;
        const double m_u   = median(copy.begin(), copy.end());
        auto         scopy = values;
        std::sort(scopy.begin(), scopy.end());
        const double m_s = median_sorted(scopy.begin(), scopy.end());
        const double e   = ref_percentile(sorted, 50.0);
        c.count("median_checks", 2);
        if (m_u != e || m_s != e)
        {
            vf::json_t j;
            j.kv("kind", kind).kv("unsorted", m_u).kv("sorted", m_s).kv("expected", e);
            c.violation("C20|median", j);
        }
    }
}

struct hist_spec_t
{
    std::string         how;
    std::vector<double> thresholds; ///< reference thresholds (sorted), computed by the harness
};

template <class tvalue>
void check_histogram(vf::ctx_t& c, const std::vector<tvalue>& values, const char* kind)
{
    auto&               rng = c.rng;
    std::vector<double> sorted(values.begin(), values.end());
    std::sort(sorted.begin(), sorted.end());
    const double vmin = sorted.front(), vmax = sorted.back();

    const int   how = static_cast<int>(rng.integer(0, 3));
    histogram_t h;
    hist_spec_t spec;
    auto        data = values;

    if (how == 0)
    {
        // explicit thresholds: duplicates, outside the data range, on data values, between them
        const auto          m = rng.integer(1, 20);
        tensor_mem_t<scalar_t, 1> thr(m);
        for (tensor_size_t i = 0; i < m; ++i)
        {
            const auto r = rng.integer(0, 5);
            double     t = 0;
            if (r == 0 && i > 0)
            {
                t = thr(i - 1);
            }
            else if (r == 1)
            {
                t = sorted[static_cast<size_t>(rng.integer(0, static_cast<int64_t>(sorted.size()) - 1))];
            }
            else if (r == 2)
            {
                t = rng.chance(0.5) ? vmin - rng.uniform(0.0, 3.0) : vmax + rng.uniform(0.0, 3.0);
            }
            else if (r == 3)
            {
                t = std::floor(rng.uniform(vmin - 1, vmax + 1)) + 0.5;
            }
            else
            {
                t = rng.uniform(vmin - 0.5, vmax + 0.5);
            }
            thr(i) = t;
            spec.thresholds.push_back(t);
        }
        spec.how = "thresholds";
        h        = histogram_t::make_from_thresholds(data.begin(), data.end(), thr);
    }
    else if (how == 1)
    {
        const auto m = rng.integer(1, 12);
        tensor_mem_t<scalar_t, 1> ratios(m);
        for (tensor_size_t i = 0; i < m; ++i)
        {
            ratios(i) = rng.uniform(0.001, 0.999);
        }
        std::vector<double> rs(ratios.begin(), ratios.end());
        std::sort(rs.begin(), rs.end());
        for (const auto r : rs)
        {
            spec.thresholds.push_back(vmin + r * (vmax - vmin));
        }
        spec.how = "ratios";
        h        = histogram_t::make_from_ratios(data.begin(), data.end(), ratios);
    }
    else if (how == 2)
    {
        const auto m = rng.integer(1, 12);
        tensor_mem_t<scalar_t, 1> pers(m);
        for (tensor_size_t i = 0; i < m; ++i)
        {
            pers(i) = rng.chance(0.3) ? static_cast<double>(rng.integer(1, 99)) : rng.uniform(0.01, 99.99);
        }
        std::vector<double> ps(pers.begin(), pers.end());
        std::sort(ps.begin(), ps.end());
        for (const auto p : ps)
        {
            spec.thresholds.push_back(ref_percentile(sorted, p));
        }
        spec.how = "percentiles";
        h        = histogram_t::make_from_percentiles(data.begin(), data.end(), pers);
    }
    else
    {
        // exponents: thresholds are +-base^k covering the magnitudes; the reference only relies on what the
        // histogram reports as its thresholds being sorted; bins are then judged by the counting rule.
        const double base = rng.pick(std::vector<double>{2.0, 3.0, 10.0});
        spec.how          = "exponents";
        h                 = histogram_t::make_from_exponents(data.begin(), data.end(), base);
        spec.thresholds.assign(h.thresholds().begin(), h.thresholds().end());
        // (a) every threshold is +-base^k for an integer k
        for (const auto t : spec.thresholds)
        {
            const double k = std::log(std::fabs(t)) / std::log(base);
            if (!(std::fabs(k - std::round(k)) < 1e-9))
            {
                vf::json_t j;
                j.kv("threshold", t).kv("base", base);
                c.violation("C20|histogram|exponent-threshold", j);
            }
        }
    }
    std::sort(spec.thresholds.begin(), spec.thresholds.end());
    const auto nthr = static_cast<tensor_size_t>(spec.thresholds.size());

    const auto report = [&](const std::string& key, tensor_size_t bin, double got, double expect)
    {
        vf::json_t j;
        j.kv("kind", kind).kv("how", spec.how).kv("bin", static_cast<long long>(bin)).kv("got", got).kv("expected", expect);
        j.arr("thresholds", spec.thresholds.data(), spec.thresholds.size(), 24);
        j.arr("values", sorted.data(), sorted.size(), 40);
        c.violation(key, j);
    };

    c.count("histograms");
    // thresholds reported by the library = the reference thresholds
    if (h.thresholds().size() != nthr || h.bins() != nthr + 1)
    {
        report("C20|histogram|bins", -1, static_cast<double>(h.bins()), static_cast<double>(nthr + 1));
        return;
    }
    for (tensor_size_t i = 0; i < nthr; ++i)
    {
        const double got = h.thresholds()(i), exp = spec.thresholds[static_cast<size_t>(i)];
        if (!(std::fabs(got - exp) <= 1e-12 * std::max(1.0, std::fabs(exp))))
        {
            report("C20|histogram|thresholds|" + spec.how, i, got, exp);
            return;
        }
    }
    // the library's own (possibly last-bit different) thresholds define the bins from here on
    std::vector<double> thr(h.thresholds().begin(), h.thresholds().end());

    // partition by the counting rule
    std::vector<std::vector<double>> bins(static_cast<size_t>(nthr + 1));
    for (const auto v : sorted)
    {
        bins[static_cast<size_t>(ref_bin(thr, v))].push_back(v);
    }
    tensor_size_t total = 0;
    bool          two   = false;
    for (tensor_size_t b = 0; b <= nthr; ++b)
    {
        const auto& bv = bins[static_cast<size_t>(b)];
        total += h.count(b);
        c.count("bin_checks");
        if (h.count(b) != static_cast<tensor_size_t>(bv.size()))
        {
            report("C20|histogram|count", b, static_cast<double>(h.count(b)), static_cast<double>(bv.size()));
            continue;
        }
        if (bv.empty())
        {
            if (!std::isnan(h.mean(b)) || !std::isnan(h.median(b)))
            {
                report("C20|histogram|empty-bin-not-nan", b, h.mean(b), std::nan(""));
            }
            continue;
        }
        two = two || (b > 0 && !bins[static_cast<size_t>(b - 1)].empty());
        long double sum = 0;
        for (const auto v : bv)
        {
            sum += v;
        }
        const auto mean = static_cast<double>(sum / static_cast<long double>(bv.size()));
        double     amax = 0;
        for (const auto v : bv)
        {
            amax = std::max(amax, std::fabs(v));
        }
        if (!(std::fabs(h.mean(b) - mean) <= 1e-12 * std::max(amax, 1e-300) * 4))
        {
            report("C20|histogram|mean", b, h.mean(b), mean);
        }
        const double med = ref_percentile(bv, 50.0);
        if (h.median(b) != med)
        {
            report("C20|histogram|median", b, h.median(b), med);
        }
    }
    if (total != static_cast<tensor_size_t>(sorted.size()))
    {
        report("C20|histogram|partition", -1, static_cast<double>(total), static_cast<double>(sorted.size()));
    }

    // bin(v) for queries between, on and beyond thresholds, non-integers included
    bool nonint = false;
    for (int q = 0; q < 40; ++q)
    {
        double     v = 0;
        const auto r = rng.integer(0, 6);
        if (r == 0)
        {
            v = thr[static_cast<size_t>(rng.integer(0, nthr - 1))];
        }
        else if (r == 1)
        {
            v = std::nextafter(thr[static_cast<size_t>(rng.integer(0, nthr - 1))], rng.chance(0.5) ? 1e300 : -1e300);
        }
        else if (r == 2)
        {
            v = sorted[static_cast<size_t>(rng.integer(0, static_cast<int64_t>(sorted.size()) - 1))];
        }
        else if (r == 3)
        {
            v = rng.chance(0.5) ? thr.front() - rng.uniform(0.0, 5.0) : thr.back() + rng.uniform(0.0, 5.0);
        }
        else if (r == 4 && nthr > 1)
        {
            const auto i = static_cast<size_t>(rng.integer(0, nthr - 2));
            v            = 0.5 * (thr[i] + thr[i + 1]);
        }
        else
        {
            v = rng.uniform(thr.front() - 1.0, thr.back() + 1.0);
        }
        const auto expect = ref_bin(thr, v);
        const auto got    = h.bin(v);
        nonint            = nonint || (v != std::floor(v));
        c.count("bin_queries");
        if (got != expect)
        {
            vf::json_t j;
            j.kv("kind", kind).kv("how", spec.how).kv("query", v).kv("got", static_cast<long long>(got)).kv("expected", static_cast<long long>(expect));
            j.arr("thresholds", thr.data(), thr.size(), 24);
            c.violation(v != std::floor(v) ? "C20|bin|real-valued-query" : "C20|bin|integer-query", j);
            break;
        }
        // the value must have been *counted* in that bin as well when it is one of the data values
        if (r == 2 && bins[static_cast<size_t>(got)].empty())
        {
            vf::json_t j;
            j.kv("query", v).kv("bin", static_cast<long long>(got));
            c.violation("C20|bin|data-value-in-empty-bin", j);
        }
    }
    // integer-typed queries too (the API is a template)
    for (int q = 0; q < 6; ++q)
    {
        const auto iv = static_cast<int>(rng.integer(static_cast<int64_t>(std::floor(thr.front())) - 2, static_cast<int64_t>(std::ceil(thr.back())) + 2));
        if (h.bin(iv) != ref_bin(thr, static_cast<double>(iv)))
        {
            vf::json_t j;
            j.kv("query", iv).kv("got", static_cast<long long>(h.bin(iv)));
            j.arr("thresholds", thr.data(), thr.size(), 24);
            c.violation("C20|bin|integer-typed-query", j);
        }
    }

    if (two && nonint)
    {
        uint64_t hsh = vf::hash_bytes(sorted.data(), sorted.size() * sizeof(double));
        hsh          = vf::hash_bytes(thr.data(), thr.size() * sizeof(double), hsh);
        c.nontrivial(hsh);
    }
    if (c.want_sample())
    {
        vf::json_t j;
        j.kv("kind", kind).kv("how", spec.how).kv("n", static_cast<long long>(sorted.size()));
        j.arr("thresholds", thr.data(), thr.size(), 24);
        j.arr("values_sorted", sorted.data(), sorted.size(), 24);
        j.arr("counts", h.counts().data(), static_cast<size_t>(h.counts().size()), 24);
        c.sample(j);
    }
}

void check_store_stats(vf::ctx_t& c, const std::vector<double>& values)
{
    // ml::store_stats = mean, stdev (library definition, judged by C11), count and nine percentiles
    tensor1d_t v(static_cast<tensor_size_t>(values.size()));
    for (size_t i = 0; i < values.size(); ++i)
    {
        v(static_cast<tensor_size_t>(i)) = values[i];
    }
    tensor1d_t stats(12);
    ml::store_stats(v.tensor(), stats.tensor());
    const auto s = ml::load_stats(stats.tensor());
    auto       sorted = values;
    std::sort(sorted.begin(), sorted.end());
    const double pers[] = {1, 5, 10, 20, 50, 80, 90, 95, 99};
    const double gots[] = {s.m_per01, s.m_per05, s.m_per10, s.m_per20, s.m_per50, s.m_per80, s.m_per90, s.m_per95, s.m_per99};
    c.count("store_stats");
    for (int i = 0; i < 9; ++i)
    {
        const double e = ref_percentile(sorted, pers[i]);
        if (gots[i] != e)
        {
            vf::json_t j;
            j.kv("percentile", pers[i]).kv("got", gots[i]).kv("expected", e).arr("values", sorted.data(), sorted.size(), 40);
            c.violation("C20|store_stats|percentile", j);
        }
    }
    long double sum = 0;
    for (const auto x : values)
    {
        sum += x;
    }
    const auto mean = static_cast<double>(sum / static_cast<long double>(values.size()));
    double     amax = 1e-300;
    for (const auto x : values)
    {
        amax = std::max(amax, std::fabs(x));
    }
    if (s.m_count != static_cast<double>(values.size()) || !(std::fabs(s.m_mean - mean) <= 4e-12 * amax))
    {
        vf::json_t j;
        j.kv("count", s.m_count).kv("mean", s.m_mean).kv("expected_mean", mean);
        c.violation("C20|store_stats|mean-count", j);
    }
}
} // namespace

int main(int argc, char** argv)
{
    const auto args = vf::parse_args(argc, argv);
    return vf::run(args, "C20",
                   "case = one list (1..500 ints/reals, ties, negatives) + 24 percentile queries + one histogram built from "
                   "thresholds|ratios|percentiles|exponents + 46 bin(v) queries; non-trivial: >= 2 adjacent non-empty bins and "
                   ">= 1 non-integer bin query; distinct by hash(values, thresholds)",
                   [](vf::ctx_t& c)
                   {
                       auto&      rng  = c.rng;
                       const bool ints = rng.chance(0.5);
                       const auto n    = static_cast<size_t>(rng.chance(0.1) ? rng.integer(1, 3) : rng.integer(1, 500));
                       const auto span = rng.pick(std::vector<double>{1.0, 3.0, 10.0, 100.0});
                       if (ints)
                       {
                           std::vector<int64_t> v(n);
                           for (auto& x : v)
                           {
                               x = rng.integer(-static_cast<int64_t>(span), static_cast<int64_t>(span));
                           }
                           check_list(c, v, "int64");
                           check_histogram(c, v, "int64");
                       }
                       else
                       {
                           std::vector<double> v(n);
                           const bool          ties = rng.chance(0.3);
                           for (auto& x : v)
                           {
                               x = ties ? std::round(rng.uniform(-span, span) * 2.0) / 2.0 : rng.uniform(-span, span);
                           }
                           check_list(c, v, "double");
                           check_histogram(c, v, "double");
                           check_store_stats(c, v);
                       }
                   });
}
