// C16 - tensor indexing, slicing and reshaping address exactly the right elements.
//
// Monitor: every tensor under test is mapped over (or copied from) a heap block of exactly size*sizeof(T) bytes
// (malloc, so that ASan red zones sit on both sides; the asan flavour is the one that decides the memory clause).
// The block is filled with a code of the linear offset (the offset itself when size <= 256, a salted hash otherwise),
// so that every element seen through a view identifies the element it aliases.
// Oracle: row-major reference arithmetic of the harness (strides computed here, lexicographic enumeration with a
// running counter); pointer + extent identity for aliasing views (plus the first, the last and one random element read
// through the view), value identity for copies; box sums by definition for the summed-area table.  The library is
// never asked for the expected offset / dims / value.
//
// Structure (compile time matters: the tensor library is header-only and every call is instrumented by ASan+UBSan):
// thin typed shims (shim_t<T, R, tensor type>) only call the library and record what they see in plain structs; the
// enumeration of tuples / prefixes / slices / factorisations and all judging is compiled once per scalar type and works
// on run-time ranks.  See `full_suite` / `with_extras` for which scalar type runs which part.
//
// modes: "exhaustive" = every shape of rank 1..4 with dims 0..4 and rank 5 with dims 0..3 (1804 shapes) x 10 scalar
//                       types = 18040 cases (case index -> (shape, type); more cases wrap around with other gathers),
//        "random"     = rank 1..5, up to 1e5 elements, dims 0 and 1 sprinkled in.
#include "common/vf.h"
#include <array>
#include <nano/tensor.h>
#include <nano/tensor/algorithm.h>
#include <nano/tensor/integral.h>
#include <nano/tensor/stack.h>
#include <utility>

using namespace nano;

namespace
{
template <class T>
const char* tname()
{
    if constexpr (std::is_same_v<T, int8_t>) return "int8";
    else if constexpr (std::is_same_v<T, int16_t>) return "int16";
    else if constexpr (std::is_same_v<T, int32_t>) return "int32";
    else if constexpr (std::is_same_v<T, int64_t>) return "int64";
    else if constexpr (std::is_same_v<T, uint8_t>) return "uint8";
    else if constexpr (std::is_same_v<T, uint16_t>) return "uint16";
    else if constexpr (std::is_same_v<T, uint32_t>) return "uint32";
    else if constexpr (std::is_same_v<T, uint64_t>) return "uint64";
    else if constexpr (std::is_same_v<T, float>) return "float";
    else return "double";
}

// ------------------------------------------------------------------------------------------------------------------
// Compile-time budget (this file has to build in a few minutes under ASan+UBSan): the index arithmetic of the library
// does not depend on the scalar type, so
//  - double gets the complete suite at every rank, on every tensor kind (mutable map, constant map, owning, const owning);
//  - each of the other nine scalar types gets, at every rank, the read suite on the mutable map (shape queries, every index
//    tuple, every prefix view, every slice, reshapes to rank 1-2) and, at ONE rank (type index mod 5, so that every rank is
//    visited by one or two of them), also the storage conversions, the gathers and the summed-area table.
template <class T>
inline constexpr size_t type_index = std::is_same_v<T, int8_t>     ? 0
                                     : std::is_same_v<T, int16_t>  ? 1
                                     : std::is_same_v<T, int32_t>  ? 2
                                     : std::is_same_v<T, int64_t>  ? 3
                                     : std::is_same_v<T, uint8_t>  ? 4
                                     : std::is_same_v<T, uint16_t> ? 5
                                     : std::is_same_v<T, uint32_t> ? 6
                                     : std::is_same_v<T, uint64_t> ? 7
                                     : std::is_same_v<T, float>    ? 8
                                                                   : 9;

template <class T>
inline constexpr bool full_suite = std::is_same_v<T, double>;

template <class T, size_t R>
inline constexpr bool with_extras = full_suite<T> || (type_index<T> % 5 + 1 == R);

///
/// \brief heap block of exactly n*sizeof(T) bytes (n may be 0): ASan red zones on both sides.
///
template <class T>
struct block_t
{
    explicit block_t(tensor_size_t n)
        : m_size(n)
        , m_data(static_cast<T*>(std::malloc(static_cast<size_t>(n) * sizeof(T))))
    {
        if (m_data == nullptr)
        {
            std::fprintf(stderr, "c16: malloc failed\n");
            std::abort();
        }
    }

    block_t(const block_t&)            = delete;
    block_t& operator=(const block_t&) = delete;

    ~block_t() { std::free(m_data); }

    T* data() const { return m_data; }

    tensor_size_t size() const { return m_size; }

    tensor_size_t m_size;
    T*            m_data;
};

///
/// \brief per-case state that does not depend on the rank: value coding, counters, reporting.
///
template <class T>
struct env_t
{
    env_t(vf::ctx_t& ctx, tensor_size_t size, std::string dims)
        : c(ctx)
        , size(size)
        , salt(ctx.seed | 1U)
        , all(size <= 4096)
        , dims_str(std::move(dims))
    {
    }

    vf::ctx_t&                     c;
    tensor_size_t                  size;
    uint64_t                       salt;
    bool                           all; ///< small tensor: every element of every view is compared
    std::string                    dims_str;
    int                            emitted{0};
    std::map<std::string, int64_t> counters;

    // the value stored at linear offset `off`
    T val(tensor_size_t off) const
    {
        const uint64_t h = (size <= 256) ? static_cast<uint64_t>(off) : vf::mix(salt, static_cast<uint64_t>(off));
        if constexpr (std::is_floating_point_v<T>)
        {
            return static_cast<T>(static_cast<double>(h % 16777216ULL));
        }
        else
        {
            return static_cast<T>(h);
        }
    }

    void count(const char* name, int64_t n = 1) { counters[name] += n; }

    void bad(const std::string& clause, const std::string& object, vf::json_t j)
    {
        if (++emitted > 6)
        {
            return; // one broken accessor breaks thousands of comparisons: the first few witnesses are enough
        }
        j.kv("scalar", tname<T>()).kv("dims", dims_str);
        c.violation("C16|" + clause + "|" + object, j);
    }

    void flush()
    {
        for (const auto& [name, n] : counters)
        {
            c.count(name, n);
        }
    }

    // calls fn(j) for the positions of a view of n elements that are compared
    template <class F>
    void positions(tensor_size_t n, const F& fn)
    {
        if (all || n <= 48)
        {
            for (tensor_size_t j = 0; j < n; ++j)
            {
                fn(j);
            }
        }
        else
        {
            fn(0);
            fn(n - 1);
            for (int k = 0; k < 10; ++k)
            {
                fn(c.rng.integer(0, n - 1));
            }
        }
    }
};

///
/// \brief the reference shape: dims, row-major strides and size computed by the harness.
/// \brief the reference shape (rank known at run time): dims, row-major strides and size computed by the harness.
///
using idx_t = std::array<tensor_size_t, 5>;

struct ref_t
{
    ref_t(size_t rank_, const tensor_size_t* d)
        : rank(rank_)
    {
        dims.fill(1);
        stride.fill(0);
        tensor_size_t s = 1;
        for (size_t i = rank; i-- > 0;)
        {
            dims[i]   = d[i];
            stride[i] = s;
            s *= d[i];
        }
        size = s;
    }

    // product of dims[from, to)
    tensor_size_t prod(size_t from, size_t to) const
    {
        tensor_size_t p = 1;
        for (size_t i = from; i < to; ++i)
        {
            p *= dims[i];
        }
        return p;
    }

    // decode the lexicographic rank p of a tuple over the first k dims
    void decode(tensor_size_t p, size_t k, idx_t& idx) const
    {
        for (size_t i = k; i-- > 0;)
        {
            idx[i] = p % dims[i];
            p /= dims[i];
        }
    }

    tensor_size_t offset(const idx_t& idx, size_t k) const
    {
        tensor_size_t o = 0;
        for (size_t i = 0; i < k; ++i)
        {
            o += idx[i] * stride[i];
        }
        return o;
    }

    template <size_t R>
    tensor_dims_t<R> as() const
    {
        tensor_dims_t<R> d{};
        for (size_t i = 0; i < R; ++i)
        {
            d[i] = dims[i];
        }
        return d;
    }

    size_t        rank{1};
    idx_t         dims{};
    idx_t         stride{};
    tensor_size_t size{0};
};

std::string dims_string(const tensor_size_t* d, size_t rank)
{
    std::string s;
    for (size_t i = 0; i < rank; ++i)
    {
        s += (i ? "x" : "") + std::to_string(d[i]);
    }
    return s;
}

template <size_t A>
std::string str_dims(const std::array<tensor_size_t, A>& d)
{
    return dims_string(d.data(), A);
}

template <size_t A>
bool same_dims(const std::array<tensor_size_t, A>& got, const tensor_size_t* expected)
{
    for (size_t i = 0; i < A; ++i)
    {
        if (got[i] != expected[i])
        {
            return false;
        }
    }
    return true;
}

template <class F, size_t N, size_t... I>
decltype(auto) call_with(const F& f, const std::array<tensor_size_t, N>& idx, std::index_sequence<I...>)
{
    return f(idx[I]...);
}

// f(idx[0], ..., idx[K-1])
template <size_t K, class F, size_t N>
decltype(auto) call_prefix(const F& f, const std::array<tensor_size_t, N>& idx)
{
    static_assert(K <= N);
    return call_with(f, idx, std::make_index_sequence<K>{});
}

// ------------------------------------------------------------------------------------------------------------------
// what the harness observes of one view (thin typed shims fill it, rank-agnostic code judges it)
template <class T>
struct view_obs_t
{
    const T*      data{nullptr};
    tensor_size_t size{0};
    size_t        rank{0};
    idx_t         dims{};
    T             first{}, last{};     ///< read through the view (size > 0)
    const T*      last_addr{nullptr};  ///< address of the element at the last full index of the view (tensor views)
    bool          has_probe{false};
    T             probe{};             ///< value read through the view at a position chosen by the caller
};

template <class T, size_t A>
void set_dims(view_obs_t<T>& o, const std::array<tensor_size_t, A>& d)
{
    o.rank = A;
    for (size_t i = 0; i < A; ++i)
    {
        o.dims[i] = d[i];
    }
}

// Eigen vector / array view
template <class T, class TV>
__attribute__((noinline)) void observe_flat(const TV& v, tensor_size_t probe, view_obs_t<T>& o)
{
    o         = view_obs_t<T>{};
    o.data    = v.data();
    o.size    = v.size();
    o.rank    = 1;
    o.dims[0] = v.size();
    if (o.size > 0)
    {
        o.first = v(0);
        o.last  = v(o.size - 1);
        if (probe >= 0 && probe < o.size)
        {
            o.has_probe = true;
            o.probe     = v(probe);
        }
    }
}

// Eigen matrix view (the probe is a linear position, read as m(probe / cols, probe % cols))
template <class T, class TM>
__attribute__((noinline)) void observe_matrix(const TM& m, tensor_size_t probe, view_obs_t<T>& o)
{
    o         = view_obs_t<T>{};
    o.data    = m.data();
    o.size    = m.size();
    o.rank    = 2;
    o.dims[0] = m.rows();
    o.dims[1] = m.cols();
    if (o.size > 0)
    {
        o.first = m(0, 0);
        o.last  = m(m.rows() - 1, m.cols() - 1);
        if (probe >= 0 && probe < o.size)
        {
            o.has_probe = true;
            o.probe     = m(probe / m.cols(), probe % m.cols());
        }
    }
}

// nano tensor view (sub-tensor, slice, reshape)
template <class T, class TS>
__attribute__((noinline)) void observe_tensor(const TS& s, tensor_size_t probe, view_obs_t<T>& o)
{
    constexpr size_t Q = TS::rank();
    o                  = view_obs_t<T>{};
    o.data = s.data();
    o.size = s.size();
    set_dims(o, s.dims());
    if (o.size > 0)
    {
        o.first = s(0);
        o.last  = s(o.size - 1);
        std::array<tensor_size_t, Q> last{};
        for (size_t i = 0; i < Q; ++i)
        {
            last[i] = s.dims()[i] - 1;
        }
        o.last_addr = call_prefix<Q>([&](auto... is) { return &s(is...); }, last);
        if (probe >= 0 && probe < o.size)
        {
            o.has_probe = true;
            o.probe     = s(probe);
        }
    }
}

// does the view alias exactly [off, off + size) of the block with the expected dims?
template <class T>
__attribute__((noinline)) bool aliases(const env_t<T>& e, const view_obs_t<T>& o, const T* base, tensor_size_t off, size_t rank,
                                       const tensor_size_t* dims, tensor_size_t probe)
{
    tensor_size_t size = 1;
    for (size_t i = 0; i < rank; ++i)
    {
        size *= dims[i];
    }
    bool ok = o.size == size && o.rank == rank;
    for (size_t i = 0; ok && i < rank; ++i)
    {
        ok = o.dims[i] == dims[i];
    }
    if (ok && size > 0)
    {
        ok = o.data == base + off && o.first == e.val(off) && o.last == e.val(off + size - 1) &&
             (o.last_addr == nullptr || o.last_addr == base + off + size - 1) &&
             (!o.has_probe || o.probe == e.val(off + probe)) && (o.has_probe == (probe >= 0 && probe < size));
    }
    return ok;
}

template <class T>
__attribute__((noinline)) void bad_view(env_t<T>& e, const char* clause, const std::string& object, const view_obs_t<T>& o, const T* base,
                                        tensor_size_t off, size_t rank, const tensor_size_t* dims, const idx_t& idx, size_t nidx)
{
    vf::json_t j;
    j.kv("got_dims", dims_string(o.dims.data(), o.rank)).kv("expected_dims", dims_string(dims, rank));
    j.kv("got_offset", static_cast<long long>((o.size > 0 && o.data != nullptr) ? o.data - base : 0)).kv("expected_offset", static_cast<long long>(off));
    j.kv("first", static_cast<double>(o.first)).kv("last", static_cast<double>(o.last));
    j.arr("at", idx.data(), nidx);
    e.bad(clause, object, j);
}

// ------------------------------------------------------------------------------------------------------------------
// clause: offset(index tuple) is the row-major bijection onto [0,size); operator() addresses exactly that element
template <class T>
struct elem_obs_t
{
    tensor_size_t offset{0}, offset0{0};
    const T*      addr{nullptr};
    const T*      addr_linear{nullptr};
    T             value{};
};

template <class T>
__attribute__((noinline)) void judge_element(env_t<T>& e, const ref_t& r, const elem_obs_t<T>& o, tensor_size_t k, const idx_t& idx, const T* base,
                                             const char* kind)
{
    if (o.offset != k || o.offset0 != k || o.offset != r.offset(idx, r.rank))
    {
        e.bad("offset", kind, vf::json_t().kv("expected", static_cast<long long>(k)).kv("offset", static_cast<long long>(o.offset)).kv("offset0", static_cast<long long>(o.offset0)).arr("index", idx.data(), r.rank));
    }
    if (o.addr != base + k || o.addr_linear != base + k)
    {
        e.bad("element-address", kind, vf::json_t().kv("expected_offset", static_cast<long long>(k)).kv("got_offset", static_cast<long long>(o.addr - base)).arr("index", idx.data(), r.rank));
    }
    else if (o.value != e.val(k))
    {
        e.bad("element-value", kind, vf::json_t().kv("offset", static_cast<long long>(k)).kv("got", static_cast<double>(o.value)).kv("expected", static_cast<double>(e.val(k))));
    }
}

// ------------------------------------------------------------------------------------------------------------------
// clause: every partial-index view (vector / array / matrix / sub-tensor) aliases exactly the elements obtained by
// full indexing: [prefix offset, prefix offset + product of the remaining dims)
template <class T>
struct prefix_obs_t
{
    tensor_size_t offset0{0};
    size_t        drank{0};
    idx_t         dims0{};
    view_obs_t<T> vec, arr, ten, mat;
};

template <class T>
__attribute__((noinline)) void judge_prefix(env_t<T>& e, const ref_t& r, size_t K, const prefix_obs_t<T>& o, const idx_t& idx, const T* base,
                                            tensor_size_t probe, const char* kind)
{
    const auto  off    = r.offset(idx, K); // == offset of (prefix, 0, ..., 0)
    const auto  vsize  = r.prod(K, r.rank);
    const auto* rest   = r.dims.data() + K;
    const auto  object = std::string(kind) + "|prefix" + std::to_string(K) + "of" + std::to_string(r.rank);

    bool ok = o.offset0 == off && o.drank == r.rank - K;
    for (size_t i = 0; ok && i < r.rank - K; ++i)
    {
        ok = o.dims0[i] == rest[i];
    }
    if (!ok)
    {
        e.bad("offset0-dims0", object, vf::json_t().kv("offset0", static_cast<long long>(o.offset0)).kv("expected", static_cast<long long>(off)).kv("dims0", dims_string(o.dims0.data(), o.drank)).arr("prefix", idx.data(), K));
    }
    if (!aliases(e, o.vec, base, off, 1, &vsize, probe))
    {
        bad_view(e, "vector-view", object, o.vec, base, off, 1, &vsize, idx, K);
    }
    if (!aliases(e, o.arr, base, off, 1, &vsize, probe))
    {
        bad_view(e, "array-view", object, o.arr, base, off, 1, &vsize, idx, K);
    }
    if (!aliases(e, o.ten, base, off, r.rank - K, rest, probe))
    {
        bad_view(e, "tensor-view", object, o.ten, base, off, r.rank - K, rest, idx, K);
    }
    if (K + 2 == r.rank)
    {
        e.count("matrix_views");
        if (!aliases(e, o.mat, base, off, 2, rest, probe))
        {
            bad_view(e, "matrix-view", object, o.mat, base, off, 2, rest, idx, K);
        }
    }
}

// ------------------------------------------------------------------------------------------------------------------
// clause: slice [b,e) of the first axis aliases exactly the elements (b..e-1, *, ..., *)
template <class T>
__attribute__((noinline)) void judge_slice(env_t<T>& e, const ref_t& r, const view_obs_t<T>& o, tensor_size_t b, tensor_size_t en, const T* base,
                                           tensor_size_t probe, const std::string& object)
{
    auto expected = r.dims;
    expected[0]   = en - b;
    e.count("slices");
    if (!aliases(e, o, base, b * r.stride[0], r.rank, expected.data(), probe))
    {
        idx_t at{};
        at[0] = b;
        at[1] = en;
        bad_view(e, "slice", object, o, base, b * r.stride[0], r.rank, expected.data(), at, 2);
    }
}

// ------------------------------------------------------------------------------------------------------------------
// clause: reshape (incl. one inferred -1 dimension) aliases the same elements in the same row-major order
void enumerate_factorisations(size_t Q, tensor_size_t n, size_t pos, idx_t& cur, std::vector<idx_t>& out)
{
    if (pos + 1 == Q)
    {
        cur[pos] = n;
        out.push_back(cur);
        return;
    }
    for (tensor_size_t d = 1; d <= n; ++d)
    {
        if (n % d == 0)
        {
            cur[pos] = d;
            enumerate_factorisations(Q, n / d, pos + 1, cur, out);
        }
    }
}

std::vector<idx_t> factorisations(size_t Q, vf::rng_t& rng, tensor_size_t n)
{
    std::vector<idx_t> out;
    idx_t              cur{};
    if (n == 0)
    {
        // every tuple over 0..3 with at least one zero factor
        tensor_size_t total = 1;
        for (size_t i = 0; i < Q; ++i)
        {
            total *= 4;
        }
        for (tensor_size_t code = 0; code < total; ++code)
        {
            tensor_size_t x = code, p = 1;
            for (size_t i = 0; i < Q; ++i)
            {
                cur[i] = x % 4;
                x /= 4;
                p *= cur[i];
            }
            if (p == 0)
            {
                out.push_back(cur);
            }
        }
    }
    else if (n <= 256)
    {
        enumerate_factorisations(Q, n, 0, cur, out); // all ordered factorisations
    }
    else
    {
        // random ordered factorisations: every prime factor goes to a random position (the first two are lopsided)
        std::vector<tensor_size_t> primes;
        auto                       m = n;
        for (tensor_size_t p = 2; p * p <= m; ++p)
        {
            while (m % p == 0)
            {
                primes.push_back(p);
                m /= p;
            }
        }
        if (m > 1)
        {
            primes.push_back(m);
        }
        for (int k = 0; k < 6; ++k)
        {
            cur.fill(1);
            for (size_t i = Q; i < cur.size(); ++i)
            {
                cur[i] = 0;
            }
            const auto focus = static_cast<size_t>(rng.integer(0, static_cast<int64_t>(Q) - 1));
            for (const auto p : primes)
            {
                const bool to_focus = (k == 0) || (k == 1 && rng.chance(0.5));
                cur[to_focus ? focus : static_cast<size_t>(rng.integer(0, static_cast<int64_t>(Q) - 1))] *= p;
            }
            out.push_back(cur);
        }
    }
    return out;
}

template <class T>
__attribute__((noinline)) void judge_reshape(env_t<T>& e, const ref_t& r, const view_obs_t<T>& o, size_t Q, const idx_t& requested,
                                             const idx_t& expected, const T* base, tensor_size_t probe, const char* clause, const char* kind)
{
    e.count(clause);
    if (!aliases(e, o, base, 0, Q, expected.data(), probe))
    {
        bad_view(e, clause, std::string(kind) + "|to-rank" + std::to_string(Q), o, base, 0, Q, expected.data(), requested, Q);
    }
    (void)r;
}

// ------------------------------------------------------------------------------------------------------------------
// Type-erased access to one tensor object: the shims (one small function per tensor type x accessor) only call the
// library and record what they see; the enumeration and the judging are compiled once per scalar type.
struct shape_obs_t
{
    tensor_size_t size{0}, size0{0}, sizelast{0}, rows{-1}, cols{-1}, span{0};
    size_t        rank{0};
    idx_t         dims{};
    const void*   data{nullptr};
};

template <class T>
struct ops_t
{
    const char* kind{""};
    void*       obj{nullptr};
    const T*    base{nullptr};
    void (*shape)(void*, shape_obs_t&){nullptr};
    void (*element)(void*, const idx_t&, tensor_size_t, elem_obs_t<T>&){nullptr};
    void (*prefix[5])(void*, const idx_t&, tensor_size_t, prefix_obs_t<T>&){};
    void (*slice)(void*, tensor_size_t, tensor_size_t, bool, tensor_size_t, view_obs_t<T>&){nullptr};
    void (*reshape[4])(void*, const idx_t&, tensor_size_t, view_obs_t<T>&){};
};

template <class T, size_t R, class TT> // TT may be const-qualified
struct shim_t
{
    static TT& self(void* obj) { return *static_cast<TT*>(obj); }

    static void shape(void* obj, shape_obs_t& o)
    {
        auto& t = self(obj);
        o.size  = t.size();
        o.rank  = t.rank();
        o.size0 = t.template size<0>();
        o.sizelast = t.template size<R - 1>();
        o.span  = t.end() - t.begin();
        o.data  = t.data();
        std::copy(t.dims().begin(), t.dims().end(), o.dims.begin());
        if constexpr (R >= 2)
        {
            o.rows = t.rows();
            o.cols = t.cols();
        }
    }

    static void element(void* obj, const idx_t& idx, tensor_size_t k, elem_obs_t<T>& o)
    {
        auto& t = self(obj);
        call_prefix<R>(
            [&](auto... is)
            {
                o.offset  = t.offset(is...);
                o.offset0 = t.offset0(is...);
                o.addr    = &t(is...);
                o.value   = t(is...);
            },
            idx);
        o.addr_linear = &t(k);
    }

    template <size_t K>
    static void prefix(void* obj, const idx_t& idx, tensor_size_t probe, prefix_obs_t<T>& o)
    {
        auto& t = self(obj);
        call_prefix<K>(
            [&](auto... is)
            {
                o.offset0      = t.offset0(is...);
                const auto dm0 = t.dims0(is...);
                o.drank        = dm0.size();
                std::copy(dm0.begin(), dm0.end(), o.dims0.begin());
                observe_flat<T>(t.vector(is...), probe, o.vec);
                observe_flat<T>(t.array(is...), probe, o.arr);
                observe_tensor<T>(t.tensor(is...), probe, o.ten);
                if constexpr (K + 2 == R)
                {
                    observe_matrix<T>(t.matrix(is...), probe, o.mat);
                }
            },
            idx);
    }

    static void slice(void* obj, tensor_size_t b, tensor_size_t en, bool range, tensor_size_t probe, view_obs_t<T>& o)
    {
        auto& t = self(obj);
        if (range)
        {
            observe_tensor<T>(t.slice(make_range(b, en)), probe, o);
        }
        else
        {
            observe_tensor<T>(t.slice(b, en), probe, o);
        }
    }

    template <size_t Q>
    static void reshape(void* obj, const idx_t& f, tensor_size_t probe, view_obs_t<T>& o)
    {
        auto& t = self(obj);
        observe_tensor<T>(call_prefix<Q>([&](auto... fs) { return t.reshape(fs...); }, f), probe, o);
    }

    template <size_t... K>
    static void set_prefixes(ops_t<T>& ops, std::index_sequence<K...>)
    {
        ((ops.prefix[K] = &prefix<K>), ...);
    }

    template <bool all_reshapes>
    static ops_t<T> make(TT& t, const T* base, const char* kind)
    {
        ops_t<T> ops;
        ops.kind    = kind;
        ops.obj     = const_cast<void*>(static_cast<const void*>(&t));
        ops.base    = base;
        ops.shape   = &shape;
        ops.element = &element;
        ops.slice   = &slice;
        set_prefixes(ops, std::make_index_sequence<R>{});
        ops.reshape[0] = &reshape<1>;
        ops.reshape[1] = &reshape<2>;
        if constexpr (all_reshapes)
        {
            ops.reshape[2] = &reshape<3>;
            ops.reshape[3] = &reshape<4>;
        }
        return ops;
    }
};

// everything that only reads, for one tensor object (mutable map, constant map, owning; const or not)
template <class T>
__attribute__((noinline)) void check_reads(env_t<T>& e, const ref_t& r, const ops_t<T>& ops)
{
    const auto  R    = r.rank;
    const auto* base = ops.base;
    const auto* kind = ops.kind;
    idx_t       idx{};

    // shape queries
    {
        shape_obs_t o;
        ops.shape(ops.obj, o);
        bool ok = o.size == r.size && o.rank == R && o.size0 == r.dims[0] && o.sizelast == r.dims[R - 1] && o.span == r.size &&
                  (r.size == 0 || o.data == base) && (R < 2 || (o.rows == r.dims[R - 2] && o.cols == r.dims[R - 1]));
        for (size_t i = 0; ok && i < R; ++i)
        {
            ok = o.dims[i] == r.dims[i];
        }
        e.count("shape_queries");
        if (!ok)
        {
            e.bad("shape", kind, vf::json_t().kv("size", static_cast<long long>(o.size)).kv("expected_size", static_cast<long long>(r.size)).kv("got_dims", dims_string(o.dims.data(), o.rank)));
        }
    }
    // full index: lexicographic enumeration, the expected offset is the running counter (=> bijection onto [0,size))
    for (tensor_size_t k = 0; k < r.size; ++k)
    {
        r.decode(k, R, idx);
        elem_obs_t<T> o;
        ops.element(ops.obj, idx, k, o);
        judge_element(e, r, o, k, idx, base, kind);
    }
    e.count("offset_tuples", r.size);
    // every prefix of every length
    for (size_t K = 0; K < R; ++K)
    {
        const auto nprefix = r.prod(0, K);
        const auto vsize   = r.prod(K, R);
        for (tensor_size_t p = 0; p < nprefix; ++p)
        {
            r.decode(p, K, idx);
            const auto      probe = (vsize > 2) ? e.c.rng.integer(0, vsize - 1) : tensor_size_t{0};
            prefix_obs_t<T> o;
            ops.prefix[K](ops.obj, idx, probe, o);
            judge_prefix(e, r, K, o, idx, base, probe, kind);
        }
        e.count("prefix_views", 3 * nprefix);
    }
    // slices of the first axis
    {
        const auto d0  = r.dims[0];
        const auto o1  = std::string(kind) + "|begin-end";
        const auto o2  = std::string(kind) + "|range";
        const auto one = [&](tensor_size_t b, tensor_size_t en)
        {
            const auto    ssize = (en - b) * r.stride[0];
            const auto    probe = (ssize > 2) ? e.c.rng.integer(0, ssize - 1) : tensor_size_t{0};
            view_obs_t<T> o;
            ops.slice(ops.obj, b, en, false, probe, o);
            judge_slice(e, r, o, b, en, base, probe, o1);
            ops.slice(ops.obj, b, en, true, probe, o);
            judge_slice(e, r, o, b, en, base, probe, o2);
        };
        if (d0 <= 8)
        {
            for (tensor_size_t b = 0; b <= d0; ++b)
            {
                for (tensor_size_t en = b; en <= d0; ++en)
                {
                    one(b, en);
                }
            }
        }
        else
        {
            one(0, 0);
            one(0, d0);
            one(d0, d0);
            one(0, 1);
            one(d0 - 1, d0);
            one(1, d0);
            for (int k = 0; k < 10; ++k)
            {
                const auto b = e.c.rng.integer(0, d0);
                one(b, e.c.rng.integer(b, d0));
            }
        }
    }
    // reshapes
    for (size_t Q = 1; Q <= 4; ++Q)
    {
        const auto fn = ops.reshape[Q - 1];
        if (fn == nullptr)
        {
            continue;
        }
        for (const auto& f : factorisations(Q, e.c.rng, r.size))
        {
            const auto    probe = (r.size > 2) ? e.c.rng.integer(0, r.size - 1) : tensor_size_t{0};
            view_obs_t<T> o;
            // explicit factors
            fn(ops.obj, f, probe, o);
            judge_reshape(e, r, o, Q, f, f, base, probe, "reshape", kind);
            // one inferred dimension (only where the other factors have a non-zero product)
            for (size_t q = 0; q < Q; ++q)
            {
                tensor_size_t others = 1;
                for (size_t i = 0; i < Q; ++i)
                {
                    others *= (i == q) ? 1 : f[i];
                }
                if (others == 0)
                {
                    continue;
                }
                auto g = f;
                g[q]   = -1;
                fn(ops.obj, g, probe, o);
                judge_reshape(e, r, o, Q, g, f, base, probe, "reshape-inferred", kind);
            }
        }
    }
}

template <class T>
__attribute__((noinline)) bool holds_codes(const env_t<T>& e, const T* data, tensor_size_t got_size, tensor_size_t size)
{
    if (got_size != size)
    {
        return false;
    }
    for (tensor_size_t k = 0; k < size; ++k)
    {
        if (data[k] != e.val(k))
        {
            return false;
        }
    }
    return true;
}

template <class T, class TT>
bool holds_codes(const env_t<T>& e, const TT& t, tensor_size_t size)
{
    return holds_codes<T>(e, t.data(), t.size(), size);
}

// ------------------------------------------------------------------------------------------------------------------
// clause: owning / mapping / constant-mapping storages convert without changing contents
template <class T, size_t R>
__attribute__((noinline)) void check_conversions(env_t<T>& e, const ref_t& r, tensor_map_t<T, R>& map, const tensor_cmap_t<T, R>& cmap, const T* base)
{
    const auto report = [&](const char* what, bool ok)
    {
        e.count("conversions");
        if (!ok)
        {
            e.bad("conversion", what, vf::json_t());
        }
    };
    const auto dims_ok = [&](const auto& t) { return same_dims<R>(t.dims(), r.dims.data()) && t.size() == r.size; };
    const auto apart   = [&](const T* p) { return r.size == 0 || p + r.size <= base || base + r.size <= p; };

    // copies
    tensor_mem_t<T, R> m1 = map;
    report("mem(map)", dims_ok(m1) && holds_codes(e, m1, r.size) && apart(m1.data()));
    tensor_mem_t<T, R> m2 = cmap;
    report("mem(cmap)", dims_ok(m2) && holds_codes(e, m2, r.size) && apart(m2.data()));
    tensor_mem_t<T, R> m3 = m1;
    report("mem(mem)", dims_ok(m3) && holds_codes(e, m3, r.size) && (r.size == 0 || m3.data() != m1.data()));
    tensor_mem_t<T, R> m4;
    report("mem()", m4.size() == 0);
    m4 = map;
    report("mem=map", dims_ok(m4) && holds_codes(e, m4, r.size) && apart(m4.data()));
    {
        auto other = r.as<R>();
        other[0] += 1;
        tensor_mem_t<T, R> m5(other);
        m5 = cmap;
        report("mem=cmap", dims_ok(m5) && holds_codes(e, m5, r.size) && apart(m5.data()));
        tensor_mem_t<T, R> m6(other);
        m6 = m1;
        report("mem=mem", dims_ok(m6) && holds_codes(e, m6, r.size));
        tensor_mem_t<T, R> m7 = std::move(m6);
        report("mem(move)", dims_ok(m7) && holds_codes(e, m7, r.size));
    }
    // aliases
    tensor_cmap_t<T, R> c1 = m1;
    report("cmap(mem)", dims_ok(c1) && c1.data() == m1.data());
    tensor_map_t<T, R> a1 = m1;
    report("map(mem)", dims_ok(a1) && a1.data() == m1.data());
    tensor_cmap_t<T, R> c2 = map;
    report("cmap(map)", dims_ok(c2) && (r.size == 0 || c2.data() == base));
    tensor_cmap_t<T, R> c3 = cmap;
    report("cmap(cmap)", dims_ok(c3) && (r.size == 0 || c3.data() == base));
    tensor_map_t<T, R> a2 = map;
    report("map(map)", dims_ok(a2) && (r.size == 0 || a2.data() == base));
    {
        const auto& cm1 = m1;
        auto        whole  = m1.tensor();
        auto        cwhole = cm1.tensor();
        report("mem.tensor()", dims_ok(whole) && dims_ok(cwhole) && whole.data() == m1.data() && cwhole.data() == m1.data());
    }
    // assignment to a mutable map copies the elements into the mapped block (same size required)
    {
        block_t<T> blk(r.size);
        for (tensor_size_t k = 0; k < r.size; ++k)
        {
            blk.data()[k] = T(0);
        }
        auto dst = map_tensor(blk.data(), r.as<R>());
        dst      = m1;
        report("map=mem", dims_ok(dst) && dst.data() == blk.data() && holds_codes(e, dst, r.size));
        for (tensor_size_t k = 0; k < r.size; ++k)
        {
            blk.data()[k] = T(1);
        }
        dst = cmap;
        report("map=cmap", dst.data() == blk.data() && holds_codes(e, dst, r.size));
        for (tensor_size_t k = 0; k < r.size; ++k)
        {
            blk.data()[k] = T(2);
        }
        dst = map;
        report("map=map", dst.data() == blk.data() && holds_codes(e, dst, r.size));
    }
    // nothing of the above changed the source
    report("source-unchanged", holds_codes(e, cmap, r.size) && holds_codes(e, m1, r.size));

    // aliasing conversions: an owning tensor assigned a (mutable or constant) first-axis view of ITSELF keeps exactly
    // the rows [b, e) - the library does this itself (`m = m.slice(0, n)`); the view aliases the destination's buffer
    if (r.dims[0] >= 1)
    {
        const auto d0 = r.dims[0];
        const auto st = r.stride[0];
        const auto b  = static_cast<tensor_size_t>(e.c.rng.integer(0, d0 - 1));
        const auto en = static_cast<tensor_size_t>(e.c.rng.integer(b + 1, d0));
        const auto rows_ok = [&](const tensor_mem_t<T, R>& t)
        {
            bool ok = t.size() == (en - b) * st && t.template size<0>() == en - b;
            for (tensor_size_t k = 0; ok && k < t.size(); ++k)
            {
                ok = t.data()[k] == e.val(b * st + k);
            }
            return ok;
        };
        tensor_mem_t<T, R> s1 = map;
        s1                    = s1.slice(b, en);
        report("mem=own-slice(map)", rows_ok(s1));
        tensor_mem_t<T, R> s2 = map;
        s2                    = std::as_const(s2).slice(b, en);
        report("mem=own-slice(cmap)", rows_ok(s2));
        tensor_mem_t<T, R> s3 = map;
        s3                    = s3.tensor();
        report("mem=own-tensor()", dims_ok(s3) && holds_codes(e, s3, r.size));
    }
}

// ------------------------------------------------------------------------------------------------------------------
// clause: index-gather copies exactly the sub-tensors (index, *, ..., *) in the order of the index list
template <class T, class tout>
__attribute__((noinline)) void judge_gather(env_t<T>& e, const ref_t& r, const std::vector<tensor_size_t>& list, const tout* data,
                                            const tensor_size_t* got_dims, tensor_size_t got_size, const std::string& object)
{
    const auto n        = static_cast<tensor_size_t>(list.size());
    const auto st       = r.stride[0];
    auto       expected = r.dims;
    expected[0]         = n;
    bool ok             = got_size == n * st;
    for (size_t i = 0; ok && i < r.rank; ++i)
    {
        ok = got_dims[i] == expected[i];
    }
    tensor_size_t where = -1;
    for (tensor_size_t k = 0; ok && k < n; ++k)
    {
        e.positions(st,
                    [&](tensor_size_t j)
                    {
                        if (ok && data[k * st + j] != static_cast<tout>(e.val(list[static_cast<size_t>(k)] * st + j)))
                        {
                            ok    = false;
                            where = k * st + j;
                        }
                    });
    }
    e.count("gathers");
    e.count("gathered_subtensors", n);
    if (!ok)
    {
        e.bad("gather", object, vf::json_t().kv("got_dims", dims_string(got_dims, r.rank)).kv("expected_dims", dims_string(expected.data(), r.rank)).kv("first_wrong_offset", static_cast<long long>(where)).arr("indices", list.data(), list.size(), 32));
    }
}

// variants: 1 = returned copy, 2 = returned copy cast to double, 4 = into an owning tensor, 8 = into a mapped block
template <int variants, class T, size_t R, class TT>
__attribute__((noinline)) void check_gather(env_t<T>& e, const ref_t& r, const TT& t, const std::vector<tensor_size_t>& list, const char* kind)
{
    const auto n  = static_cast<tensor_size_t>(list.size());
    const auto st = r.stride[0];
    // the index list lives in an exactly-sized block as well
    block_t<tensor_size_t> iblk(n);
    std::copy(list.begin(), list.end(), iblk.data());
    const auto indices = indices_cmap_t(static_cast<const tensor_size_t*>(iblk.data()), make_dims(n));

    if constexpr ((variants & 1) != 0)
    {
        const auto g = t.indexed(indices);
        judge_gather<T, T>(e, r, list, g.data(), g.dims().data(), g.size(), std::string(kind) + "|return");
    }
    if constexpr ((variants & 2) != 0)
    {
        const auto g = t.template indexed<double>(indices);
        judge_gather<T, double>(e, r, list, g.data(), g.dims().data(), g.size(), std::string(kind) + "|return-cast-double");
    }
    if constexpr ((variants & 4) != 0)
    {
        tensor_mem_t<T, R> g(r.as<R>()); // has to be resized
        t.indexed(indices, g);
        judge_gather<T, T>(e, r, list, g.data(), g.dims().data(), g.size(), std::string(kind) + "|into-mem");
    }
    if constexpr ((variants & 8) != 0)
    {
        auto gdims = r.as<R>();
        gdims[0]   = n;
        block_t<T> blk(n * st);
        auto       g = map_tensor(blk.data(), gdims);
        t.indexed(indices, g);
        judge_gather<T, T>(e, r, list, g.data(), g.dims().data(), g.size(), std::string(kind) + "|into-map");
    }
}

// ------------------------------------------------------------------------------------------------------------------
// clause: views alias (writes through the mutable views land on exactly the addressed element of the block, nowhere else)
template <class T, size_t R>
__attribute__((noinline)) void check_writes(env_t<T>& e, const ref_t& r, tensor_map_t<T, R>& t, T* base)
{
    if (r.size == 0)
    {
        return;
    }
    auto&          rng = e.c.rng;
    std::vector<T> shadow(static_cast<size_t>(r.size));
    for (tensor_size_t k = 0; k < r.size; ++k)
    {
        shadow[static_cast<size_t>(k)] = e.val(k);
    }
    tensor_size_t writes = 0;
    const auto    fresh  = [&](tensor_size_t off)
    {
        ++writes;
        const T w                        = static_cast<T>(shadow[static_cast<size_t>(off)] + T(1));
        shadow[static_cast<size_t>(off)] = w;
        return w;
    };
    idx_t      idx{};
    const auto draw = [&]()
    {
        for (size_t i = 0; i < R; ++i)
        {
            idx[i] = rng.integer(0, r.dims[i] - 1);
        }
    };
    // full index, linear index, whole-tensor views
    draw();
    call_prefix<R>([&](auto... is) { t(is...) = fresh(r.offset(idx, R)); }, idx);
    {
        auto k        = rng.integer(0, r.size - 1);
        t(k)          = fresh(k);
        k             = rng.integer(0, r.size - 1);
        t.vector()(k) = fresh(k);
        k             = rng.integer(0, r.size - 1);
        t.array()(k)  = fresh(k);
        k             = rng.integer(0, r.size - 1);
        t.tensor()(k) = fresh(k);
    }
    // views of one first-axis index
    if constexpr (R > 1)
    {
        draw();
        const auto st    = r.stride[0];
        const auto off   = idx[0] * st;
        auto       j     = rng.integer(0, st - 1);
        t.vector(idx[0])(j) = fresh(off + j);
        j                = rng.integer(0, st - 1);
        t.tensor(idx[0])(j) = fresh(off + j);
    }
    // the matrix of the last two dims
    if constexpr (R >= 2)
    {
        draw();
        const auto off  = r.offset(idx, R - 2);
        const auto cols = r.dims[R - 1];
        const auto j    = rng.integer(0, r.dims[R - 2] * cols - 1);
        call_prefix<R - 2>([&](auto... is) { t.matrix(is...)(j / cols, j % cols) = fresh(off + j); }, idx);
    }
    // slice, reshape
    {
        const auto b      = rng.integer(0, r.dims[0] - 1);
        const auto en     = rng.integer(b + 1, r.dims[0]);
        const auto j      = rng.integer(0, (en - b) * r.stride[0] - 1);
        t.slice(b, en)(j) = fresh(b * r.stride[0] + j);
        const auto k      = rng.integer(0, r.size - 1);
        t.reshape(-1)(k)  = fresh(k);
        const auto k2     = rng.integer(0, r.size - 1);
        t.reshape(1, -1)(0, k2) = fresh(k2);
    }
    e.count("writes_through_views", writes);
    for (tensor_size_t k = 0; k < r.size; ++k)
    {
        if (base[k] != shadow[static_cast<size_t>(k)])
        {
            e.bad("write-through", "map", vf::json_t().kv("offset", static_cast<long long>(k)).kv("got", static_cast<double>(base[k])).kv("expected", static_cast<double>(shadow[static_cast<size_t>(k)])));
            break;
        }
    }
    for (tensor_size_t k = 0; k < r.size; ++k)
    {
        base[k] = e.val(k);
    }
}

// ------------------------------------------------------------------------------------------------------------------
// clause: the summed-area table equals the naive prefix sums
template <class O, class T, size_t R>
__attribute__((noinline)) void check_integral_out(env_t<T>& e, const ref_t& r, const block_t<T>& in, const std::vector<int64_t>& ref,
                        const std::vector<std::pair<tensor_size_t, int64_t>>& naive, const char* oname)
{
    const auto judge = [&](const O* out, const char* how)
    {
        e.count("integrals");
        for (tensor_size_t k = 0; k < r.size; ++k)
        {
            if (out[k] != static_cast<O>(ref[static_cast<size_t>(k)]))
            {
                e.bad("integral", std::string(how) + "|" + oname, vf::json_t().kv("offset", static_cast<long long>(k)).kv("got", static_cast<double>(out[k])).kv("expected", static_cast<double>(ref[static_cast<size_t>(k)])));
                return;
            }
        }
        for (const auto& [k, sum] : naive)
        {
            if (out[k] != static_cast<O>(sum))
            {
                e.bad("integral", std::string(how) + "|naive|" + oname, vf::json_t().kv("offset", static_cast<long long>(k)).kv("got", static_cast<double>(out[k])).kv("expected", static_cast<double>(sum)));
                return;
            }
        }
        e.count("integral_elements", r.size);
    };
    {
        block_t<O> out(r.size);
        for (tensor_size_t k = 0; k < r.size; ++k)
        {
            out.data()[k] = O(77);
        }
        integral(map_tensor(static_cast<const T*>(in.data()), r.as<R>()), map_tensor(out.data(), r.as<R>()));
        judge(out.data(), "maps");
    }
    {
        tensor_mem_t<T, R> min = map_tensor(static_cast<const T*>(in.data()), r.as<R>());
        tensor_mem_t<O, R> mout(r.as<R>());
        mout.full(O(77));
        integral(min, mout);
        if (!same_dims<R>(mout.dims(), r.dims.data()))
        {
            e.bad("integral", "mem|dims", vf::json_t().kv("got_dims", str_dims(mout.dims())));
        }
        else
        {
            judge(mout.data(), "mem");
        }
    }
}

template <class T, size_t R>
__attribute__((noinline)) void check_integral(env_t<T>& e, const ref_t& r)
{
    block_t<T> in(r.size);
    const auto sv = [&](tensor_size_t k) -> int64_t
    {
        const auto h = vf::mix(e.salt ^ 0x5a5aULL, static_cast<uint64_t>(k));
        return std::is_unsigned_v<T> ? static_cast<int64_t>(h % 4U) : static_cast<int64_t>(h % 7U) - 3;
    };
    for (tensor_size_t k = 0; k < r.size; ++k)
    {
        in.data()[k] = static_cast<T>(sv(k));
    }
    // the box sum [0..i] x ... by its definition
    idx_t idx{}, jdx{};
    const auto                   box = [&](tensor_size_t k)
    {
        r.decode(k, R, idx);
        int64_t sum = 0;
        for (tensor_size_t j = 0; j < r.size; ++j)
        {
            r.decode(j, R, jdx);
            bool inside = true;
            for (size_t i = 0; i < R; ++i)
            {
                inside = inside && jdx[i] <= idx[i];
            }
            sum += inside ? sv(j) : 0;
        }
        return sum;
    };
    std::vector<int64_t>                           ref(static_cast<size_t>(r.size));
    std::vector<std::pair<tensor_size_t, int64_t>> naive;
    if (r.size <= 256)
    {
        for (tensor_size_t k = 0; k < r.size; ++k)
        {
            ref[static_cast<size_t>(k)] = box(k);
        }
    }
    else
    {
        // running sums along one axis after the other, plus the definition at a few positions
        for (tensor_size_t k = 0; k < r.size; ++k)
        {
            ref[static_cast<size_t>(k)] = sv(k);
        }
        for (size_t a = 0; a < R; ++a)
        {
            for (tensor_size_t k = 0; k < r.size; ++k)
            {
                if ((k / r.stride[a]) % r.dims[a] > 0)
                {
                    ref[static_cast<size_t>(k)] += ref[static_cast<size_t>(k - r.stride[a])];
                }
            }
        }
        naive.emplace_back(r.size - 1, box(r.size - 1));
        for (int q = 0; q < 3; ++q)
        {
            const auto k = e.c.rng.integer(0, r.size - 1);
            naive.emplace_back(k, box(k));
        }
    }
    if constexpr (full_suite<T>)
    {
        check_integral_out<int64_t, T, R>(e, r, in, ref, naive, "int64");
        check_integral_out<double, T, R>(e, r, in, ref, naive, "double");
        if (sizeof(T) >= 4 || 3 * r.size <= 100)
        {
            check_integral_out<T, T, R>(e, r, in, ref, naive, "same-type");
        }
    }
    else if constexpr (std::is_floating_point_v<T>)
    {
        check_integral_out<double, T, R>(e, r, in, ref, naive, "double");
    }
    else
    {
        check_integral_out<int64_t, T, R>(e, r, in, ref, naive, "int64");
    }
}

// ------------------------------------------------------------------------------------------------------------------
// clause: remove_if compacts the kept sub-tensors (first axis) in order and returns their number
template <class T, size_t R>
__attribute__((noinline)) void check_remove_if(env_t<T>& e, const ref_t& r, const tensor_cmap_t<T, R>& cmap)
{
    const auto d0 = r.dims[0];
    const auto st = r.stride[0];
    const auto one = [&](const std::vector<char>& removed)
    {
        tensor_mem_t<T, R>   x = cmap;
        block_t<int64_t>     yb(d0);
        auto                 y = map_tensor(yb.data(), make_dims(d0));
        std::vector<int64_t> kept;
        for (tensor_size_t i = 0; i < d0; ++i)
        {
            y(i) = i;
            if (removed[static_cast<size_t>(i)] == 0)
            {
                kept.push_back(i);
            }
        }
        const auto op    = [&](tensor_size_t i) { return removed[static_cast<size_t>(i)] != 0; };
        const auto count = nano::remove_if(op, x, y);
        bool       ok    = count == static_cast<tensor_size_t>(kept.size()) && same_dims<R>(x.dims(), r.dims.data()) && y.size() == d0;
        for (tensor_size_t k = 0; ok && k < count; ++k)
        {
            const auto src = kept[static_cast<size_t>(k)];
            ok             = ok && y(k) == src;
            e.positions(st, [&](tensor_size_t j) { ok = ok && x.data()[k * st + j] == e.val(src * st + j); });
        }
        e.count("remove_if_calls");
        if (!ok)
        {
            e.bad("remove_if", "mem+map", vf::json_t().kv("returned", static_cast<long long>(count)).kv("expected", static_cast<long long>(kept.size())).arr("removed", removed.data(), removed.size(), 32));
        }
    };
    std::vector<char> removed(static_cast<size_t>(d0), 0);
    if (d0 <= 4)
    {
        for (int mask = 0; mask < (1 << d0); ++mask)
        {
            for (tensor_size_t i = 0; i < d0; ++i)
            {
                removed[static_cast<size_t>(i)] = static_cast<char>((mask >> i) & 1);
            }
            one(removed);
        }
    }
    else
    {
        for (const double p : {0.0, 1.0, 0.5, 0.05, 0.95})
        {
            for (auto& f : removed)
            {
                f = e.c.rng.chance(p) ? 1 : 0;
            }
            one(removed);
        }
    }
}

// ------------------------------------------------------------------------------------------------------------------
// clause: stack places the blocks row-major without gaps (the blocks carry the codes of their final positions)
template <class T>
__attribute__((noinline)) void check_stack_vector(env_t<T>& e, tensor_size_t n)
{
    const auto one = [&](tensor_size_t a, tensor_size_t b)
    {
        const auto           c = n - a - b;
        tensor_mem_t<T, 1>   A(a);
        eigen_vector_t<T>    B(b);
        block_t<T>           cb(c);
        for (tensor_size_t k = 0; k < a; ++k) A(k) = e.val(k);
        for (tensor_size_t k = 0; k < b; ++k) B(k) = e.val(a + k);
        for (tensor_size_t k = 0; k < c; ++k) cb.data()[k] = e.val(a + b + k);
        const auto C = map_tensor(static_cast<const T*>(cb.data()), make_dims(c));
        const auto judge = [&](const tensor_mem_t<T, 1>& s, const char* how)
        {
            e.count("stacks");
            if (s.size() != n || !holds_codes(e, s, n))
            {
                e.bad("stack", std::string("vector|") + how, vf::json_t().kv("a", static_cast<long long>(a)).kv("b", static_cast<long long>(b)).kv("c", static_cast<long long>(c)).kv("got_size", static_cast<long long>(s.size())));
            }
        };
        judge(stack<T>(n, A, B, C), "tensor-eigen-cmap");
        judge(stack<T>(n, A.vector(), B, C.vector()), "eigen-maps");
    };
    if (n <= 4)
    {
        for (tensor_size_t a = 0; a <= n; ++a)
        {
            for (tensor_size_t b = 0; a + b <= n; ++b)
            {
                one(a, b);
            }
        }
    }
    else
    {
        for (int q = 0; q < 3; ++q)
        {
            const auto a = e.c.rng.integer(0, n);
            one(a, e.c.rng.integer(0, n - a));
        }
    }
}

template <class T>
__attribute__((noinline)) void check_stack_matrix(env_t<T>& e, tensor_size_t rows, tensor_size_t cols)
{
    if (rows < 1 || cols < 1)
    {
        return;
    }
    // a block of h x w at (r0, c0) of the final matrix, filled with the codes of its final positions
    const auto piece = [&](tensor_size_t r0, tensor_size_t c0, tensor_size_t h, tensor_size_t w)
    {
        tensor_mem_t<T, 2> m(h, w);
        for (tensor_size_t i = 0; i < h; ++i)
        {
            for (tensor_size_t j = 0; j < w; ++j)
            {
                m(i, j) = e.val((r0 + i) * cols + c0 + j);
            }
        }
        return m;
    };
    const auto judge = [&](const tensor_mem_t<T, 2>& s, const char* how)
    {
        e.count("stacks");
        if (s.rows() != rows || s.cols() != cols || !holds_codes(e, s, rows * cols))
        {
            e.bad("stack", std::string("matrix|") + how, vf::json_t().kv("got_dims", str_dims(s.dims())));
        }
    };
    {
        const auto whole = piece(0, 0, rows, cols);
        judge(stack<T>(rows, cols, whole), "whole");
    }
    const auto grid = [&](tensor_size_t a, tensor_size_t b1, tensor_size_t b2)
    {
        const auto        M1 = piece(0, 0, a, b1);
        const auto        t2 = piece(0, b1, a, cols - b1);
        eigen_matrix_t<T> M2 = t2.matrix();
        const auto        t3 = piece(a, 0, rows - a, b2);
        block_t<T>        b3(t3.size());
        std::copy(t3.begin(), t3.end(), b3.data());
        const auto M3 = map_tensor(static_cast<const T*>(b3.data()), make_dims(rows - a, b2));
        const auto M4 = piece(a, b2, rows - a, cols - b2);
        judge(stack<T>(rows, cols, M1, M2, M3, M4.matrix()), "grid");
    };
    if (rows >= 2 && cols >= 2)
    {
        if (rows <= 4 && cols <= 4)
        {
            for (tensor_size_t a = 1; a < rows; ++a)
            {
                for (tensor_size_t b1 = 1; b1 < cols; ++b1)
                {
                    for (tensor_size_t b2 = 1; b2 < cols; ++b2)
                    {
                        grid(a, b1, b2);
                    }
                }
            }
        }
        else
        {
            for (int q = 0; q < 3; ++q)
            {
                grid(e.c.rng.integer(1, rows - 1), e.c.rng.integer(1, cols - 1), e.c.rng.integer(1, cols - 1));
            }
        }
    }
    if (cols >= 2)
    {
        // [column vector | matrix]
        tensor_mem_t<T, 1> v(rows);
        for (tensor_size_t i = 0; i < rows; ++i)
        {
            v(i) = e.val(i * cols);
        }
        const auto M = piece(0, 1, rows, cols - 1);
        judge(stack<T>(rows, cols, v, M), "column+matrix");
    }
    if (rows >= 2)
    {
        // [matrix ; transposed vector]
        const auto         M = piece(0, 0, rows - 1, cols);
        tensor_mem_t<T, 1> v(cols);
        for (tensor_size_t j = 0; j < cols; ++j)
        {
            v(j) = e.val((rows - 1) * cols + j);
        }
        judge(stack<T>(rows, cols, M, v.transpose()), "matrix+row");
    }
}

// ------------------------------------------------------------------------------------------------------------------
template <class T>
__attribute__((noinline)) void fill_codes(const env_t<T>& e, T* data, tensor_size_t size)
{
    for (tensor_size_t k = 0; k < size; ++k)
    {
        data[k] = e.val(k);
    }
}

__attribute__((noinline)) void make_gather_lists(vf::rng_t& rng, const ref_t& r, std::vector<tensor_size_t>& list, std::vector<tensor_size_t>& reversed)
{
    const auto d0  = r.dims[0];
    const auto cap = std::max<tensor_size_t>(1, 200000 / std::max<tensor_size_t>(1, r.stride[0]));
    const auto len = (d0 == 0) ? 0 : rng.integer(0, std::min<tensor_size_t>(cap, (d0 <= 8) ? 6 : 2 * d0));
    for (tensor_size_t k = 0; k < len; ++k)
    {
        list.push_back(rng.integer(0, d0 - 1));
    }
    if (d0 > 0 && d0 <= cap)
    {
        for (tensor_size_t k = d0; k-- > 0;)
        {
            reversed.push_back(k);
        }
    }
}

template <class T>
__attribute__((noinline)) void finish_case(env_t<T>& e, const ref_t& r, const T* base, int type_id, const std::vector<tensor_size_t>& list)
{
    auto& c = e.c;
    // the block still holds what it held
    e.count("block_unchanged");
    if (!holds_codes<T>(e, base, r.size, r.size))
    {
        e.bad("block-changed", "map", vf::json_t());
    }
    c.maxc("elements", r.size);
    c.count("rank" + std::to_string(r.rank));
    c.count(std::string("type_") + tname<T>());
    e.flush();
    if (r.size >= 2)
    {
        uint64_t h = vf::mix(static_cast<uint64_t>(type_id), r.rank);
        h          = vf::hash_bytes(r.dims.data(), sizeof(tensor_size_t) * r.rank, h);
        c.nontrivial(vf::mix(h, vf::hash_bytes(list.data(), list.size() * sizeof(tensor_size_t))));
    }
    else
    {
        c.count(r.size == 0 ? "empty_tensors" : "single_element_tensors");
    }
    if (c.want_sample())
    {
        c.sample(vf::json_t().kv("scalar", tname<T>()).kv("rank", static_cast<long long>(r.rank)).kv("dims", e.dims_str).kv("elements", static_cast<long long>(r.size)).kv("suite", full_suite<T> ? "full" : "light").arr("gather_indices", list.data(), list.size(), 32));
    }
}

template <class T, size_t R>
void run_case(vf::ctx_t& c, const std::array<tensor_size_t, 5>& dims5, int type_id)
{
    const ref_t r(R, dims5.data());
    const auto  dims = r.as<R>();
    env_t<T>    e(c, r.size, dims_string(dims5.data(), R));

    // the tensor under test: an exactly-sized heap block holding the codes of the linear offsets
    block_t<T> blk(r.size);
    T* const   base = blk.data();
    fill_codes(e, base, r.size);
    auto       map  = map_tensor(base, dims);
    const auto cmap = map_tensor(static_cast<const T*>(base), dims);
    static_assert(std::is_same_v<decltype(map), tensor_map_t<T, R>>);
    static_assert(std::is_same_v<std::remove_const_t<decltype(cmap)>, tensor_cmap_t<T, R>>);

    // gathers: a random index list (repeats allowed), the empty list, the reversed range
    std::vector<tensor_size_t> list, reversed;
    const std::vector<tensor_size_t> empty;
    make_gather_lists(c.rng, r, list, reversed);

    check_reads(e, r, shim_t<T, R, decltype(map)>::template make<full_suite<T>>(map, base, "map"));
    if constexpr (with_extras<T, R>)
    {
        check_conversions<T, R>(e, r, map, cmap, base);
        check_gather<1 | 8, T, R>(e, r, map, list, "map");
        check_gather<1 | 2 | 4, T, R>(e, r, cmap, list, "cmap");
        check_gather<1, T, R>(e, r, cmap, empty, "cmap");
        check_integral<T, R>(e, r);
        e.count("cases_with_conversions_gathers_integral");
    }
    if constexpr (full_suite<T>)
    {
        check_reads(e, r, shim_t<T, R, decltype(cmap)>::template make<true>(cmap, base, "cmap"));
        const tensor_mem_t<T, R> mem = map;
        check_reads(e, r, shim_t<T, R, const tensor_mem_t<T, R>>::template make<false>(mem, mem.data(), "mem"));
        check_gather<1, T, R>(e, r, mem, reversed, "mem");
        check_remove_if<T, R>(e, r, cmap);
        if constexpr (R == 1)
        {
            check_stack_vector(e, r.dims[0]);
        }
        if constexpr (R == 2)
        {
            check_stack_matrix(e, r.dims[0], r.dims[1]);
        }
        check_writes<T, R>(e, r, map, base);
        e.count("cases_with_full_suite");
    }
    finish_case(e, r, base, type_id, list);
}

template <class T>
void run_rank(vf::ctx_t& c, int rank, const std::array<tensor_size_t, 5>& dims, int type_id)
{
    switch (rank)
    {
    case 1: run_case<T, 1>(c, dims, type_id); break;
    case 2: run_case<T, 2>(c, dims, type_id); break;
    case 3: run_case<T, 3>(c, dims, type_id); break;
    case 4: run_case<T, 4>(c, dims, type_id); break;
    default: run_case<T, 5>(c, dims, type_id); break;
    }
}

void run_type(vf::ctx_t& c, int type_id, int rank, const std::array<tensor_size_t, 5>& dims)
{
    switch (type_id)
    {
    case 0: run_rank<int8_t>(c, rank, dims, type_id); break;
    case 1: run_rank<int16_t>(c, rank, dims, type_id); break;
    case 2: run_rank<int32_t>(c, rank, dims, type_id); break;
    case 3: run_rank<int64_t>(c, rank, dims, type_id); break;
    case 4: run_rank<uint8_t>(c, rank, dims, type_id); break;
    case 5: run_rank<uint16_t>(c, rank, dims, type_id); break;
    case 6: run_rank<uint32_t>(c, rank, dims, type_id); break;
    case 7: run_rank<uint64_t>(c, rank, dims, type_id); break;
    case 8: run_rank<float>(c, rank, dims, type_id); break;
    default: run_rank<double>(c, rank, dims, type_id); break;
    }
}

struct shape_t
{
    int                          rank{1};
    std::array<tensor_size_t, 5> dims{};
};

// every shape of rank 1..4 with dims 0..4 and of rank 5 with dims 0..3
std::vector<shape_t> all_small_shapes()
{
    std::vector<shape_t> shapes;
    for (int rank = 1; rank <= 5; ++rank)
    {
        const tensor_size_t base  = (rank == 5) ? 4 : 5;
        tensor_size_t       total = 1;
        for (int i = 0; i < rank; ++i)
        {
            total *= base;
        }
        for (tensor_size_t code = 0; code < total; ++code)
        {
            shape_t s;
            s.rank = rank;
            auto x = code;
            for (int i = rank; i-- > 0;)
            {
                s.dims[static_cast<size_t>(i)] = x % base;
                x /= base;
            }
            shapes.push_back(s);
        }
    }
    return shapes;
}

shape_t random_shape(vf::rng_t& rng)
{
    shape_t s;
    s.rank              = static_cast<int>(rng.integer(1, 5));
    const auto   rank   = static_cast<size_t>(s.rank);
    const double target = rng.loguniform(1.0, 1e5);
    // split log(target) over the axes
    std::array<double, 5> w{};
    double                sum = 0;
    for (size_t i = 0; i < rank; ++i)
    {
        w[i] = rng.chance(0.2) ? 0.0 : -std::log(1.0 - rng.u01());
        sum += w[i];
    }
    tensor_size_t size = 1;
    for (size_t i = 0; i < rank; ++i)
    {
        const double share = (sum > 0) ? w[i] / sum : 1.0 / static_cast<double>(rank);
        s.dims[i]          = std::max<tensor_size_t>(1, static_cast<tensor_size_t>(std::llround(std::pow(target, share))));
        size *= s.dims[i];
    }
    while (size > 100000)
    {
        const auto i = static_cast<size_t>(std::max_element(s.dims.begin(), s.dims.begin() + s.rank) - s.dims.begin());
        size /= s.dims[i];
        s.dims[i] = std::max<tensor_size_t>(1, s.dims[i] / 2);
        size *= s.dims[i];
    }
    if (rng.chance(0.08))
    {
        s.dims[static_cast<size_t>(rng.integer(0, s.rank - 1))] = 0;
    }
    return s;
}
} // namespace

int main(int argc, char** argv)
{
    const auto args       = vf::parse_args(argc, argv);
    const bool exhaustive = args.mode == "exhaustive";
    const auto shapes     = all_small_shapes();
    const auto rule =
        exhaustive ? "case index i -> (shape (i/10)%1804 of the complete list: rank 1..4 dims 0..4, rank 5 dims 0..3; scalar type i%10 of "
                     "int8..uint64,float,double); every index tuple, prefix, slice, factorisation (ranks 1..4, incl. every -1 position), all "
                     "remove_if masks, all stack splits, random gathers; non-trivial: >= 2 elements; distinct by hash(type, dims, gather list)"
                   : "case = random shape of rank 1..5 with up to 1e5 elements (8% with one zero dim, 20% unit dims) x random scalar type (40% double); all "
                     "index tuples and prefixes, sampled view elements/slices/factorisations; non-trivial: >= 2 elements; distinct by "
                     "hash(type, dims, gather list)";
    return vf::run(args, "C16", rule,
                   [&](vf::ctx_t& c)
                   {
                       if (exhaustive)
                       {
                           const auto  i = static_cast<size_t>(c.index);
                           const auto& s = shapes[(i / 10U) % shapes.size()];
                           run_type(c, static_cast<int>(i % 10U), s.rank, s.dims);
                       }
                       else
                       {
                           // double carries the complete suite: 40% of the cases, the other nine types share the rest
                           const auto type_id = c.rng.chance(0.4) ? 9 : static_cast<int>(c.rng.integer(0, 8));
                           const auto s       = random_shape(c.rng);
                           run_type(c, type_id, s.rank, s.dims);
                       }
                   });
}

