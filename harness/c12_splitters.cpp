// C12 - splitters and samplers return index sets with the promised set structure.
//
// Monitor: the index lists returned at the API boundary (splitter_t::split, sample_with(out)_replacement,
// gboost::sampler_t::sample) and the points returned by sample_from_ball.
// Oracle: pure set algebra on those outputs against a sorted copy of the input list made by the harness
// (sorted / disjoint / union = input / each index once / partition / fold sizes / train size / equal seeds => equal
// splits / members / distinct / zero-weight exclusion / |x - x0| <= r).  std::shuffle is never re-implemented and
// the library is never asked for the expected answer.
//
// Modes:
//   exhaustive : case = (n, folds, seed) of the enumerated sub-space n in 2..40 x folds in 2..min(n,12) x seeds
//                (thorough: all 1025, quick: every 16th, offset by VERIF_SEED) ; inside a case: k-fold and the random
//                splitter for ALL train percentages 10..90.  374 * 1025 = 383350 cases (quick: 374 * 65 = 24310).
//   random     : case = one arbitrary list (n <= 5000, non-contiguous, possibly unsorted) driven through both
//                splitters, the three samplers (both overloads), the ball sampler (four overloads) and the gboost
//                sampler (five variants).
#include "common/vf.h"
#include <algorithm>
#include <nano/core/sampling.h>
#include <nano/gboost/sampler.h>
#include <nano/splitter.h>
#include <set>

using namespace nano;

namespace
{
using ivec_t = std::vector<tensor_size_t>;

enum clause : int
{
    fold_count = 0,
    pair_sorted,
    pair_disjoint,
    pair_union,
    pair_cover_once,
    kfold_partition,
    kfold_fold_sizes,
    random_train_size,
    equal_seeds,
    split_calls,
    sampler_count,
    sampler_sorted,
    sampler_member,
    sampler_distinct,
    sampler_zero_weight,
    sampler_calls,
    ball_inside,
    gboost_calls,
    nclauses
};

const char* const clause_names[nclauses] = {"fold_count",       "pair_sorted",       "pair_disjoint",     "pair_union",
                                            "pair_cover_once",  "kfold_partition",   "kfold_fold_sizes",  "random_train_size",
                                            "equal_seeds",      "split_calls",       "sampler_count",     "sampler_sorted",
                                            "sampler_member",   "sampler_distinct",  "sampler_zero_weight", "sampler_calls",
                                            "ball_inside",      "gboost_calls"};

///
/// \brief per-case bookkeeping: clause counters (flushed once per case) and at most one violation per key and case.
///
struct case_t
{
    explicit case_t(vf::ctx_t& ctx)
        : c(ctx)
    {
    }

    ~case_t()
    {
        for (int i = 0; i < nclauses; ++i)
        {
            if (tally[i] != 0)
            {
                c.count(clause_names[i], tally[i]);
            }
        }
    }

    case_t(const case_t&)            = delete;
    case_t& operator=(const case_t&) = delete;

    bool first(const std::string& key) { return fired.insert(key).second; }

    vf::ctx_t&            c;
    std::set<std::string> fired;
    int64_t               tally[nclauses] = {};
};

ivec_t to_vec(const indices_t& v)
{
    return ivec_t(v.begin(), v.end());
}

bool same(const indices_t& a, const indices_t& b)
{
    return a.size() == b.size() && std::equal(a.begin(), a.end(), b.begin());
}

///
/// \brief n distinct index values, arbitrary gaps, ascending or in arbitrary order.
///
ivec_t make_indices(vf::rng_t& rng, const tensor_size_t n, const int gap_mode, const bool shuffled)
{
    ivec_t v(static_cast<size_t>(n));
    auto   cur = static_cast<tensor_size_t>(gap_mode == 0 ? rng.integer(0, 3) : rng.integer(0, 1000));
    for (auto& x : v)
    {
        x = cur;
        switch (gap_mode)
        {
        case 0: cur += 1; break;                                                     // contiguous
        case 1: cur += 1 + rng.integer(0, 3); break;                                 // small holes
        case 2: cur += 1 + (rng.chance(0.2) ? rng.integer(0, 40) : 0); break;        // runs with holes
        default: cur += 1 + rng.integer(0, 1000); break;                             // sparse
        }
    }
    if (shuffled)
    {
        for (size_t i = v.size(); i > 1; --i)
        {
            std::swap(v[i - 1], v[static_cast<size_t>(rng.integer(0, static_cast<int64_t>(i) - 1))]);
        }
    }
    return v;
}

indices_t to_indices(const ivec_t& v)
{
    indices_t t(static_cast<tensor_size_t>(v.size()));
    std::copy(v.begin(), v.end(), t.begin());
    return t;
}

struct split_case_t
{
    const char*   id{nullptr};
    tensor_size_t n{0};
    tensor_size_t folds{0};
    int64_t       seed{0};
    int64_t       per{-1}; ///< train percentage (random splitter only)
    const ivec_t* input{nullptr};
    const ivec_t* ref{nullptr}; ///< sorted copy of the input (strictly increasing)
};

vf::json_t witness(const split_case_t& s, const int64_t fold, const indices_t* train, const indices_t* valid)
{
    vf::json_t j;
    j.kv("splitter", s.id).kv("n", static_cast<long long>(s.n)).kv("folds", static_cast<long long>(s.folds));
    j.kv("seed", static_cast<long long>(s.seed));
    if (s.per >= 0)
    {
        j.kv("train_per", static_cast<long long>(s.per));
    }
    j.kv("fold", static_cast<long long>(fold));
    j.arr("input", s.input->data(), s.input->size(), 48);
    if (train != nullptr)
    {
        j.kv("train_size", static_cast<long long>(train->size()));
        j.arr("train", train->data(), static_cast<size_t>(train->size()), 48);
    }
    if (valid != nullptr)
    {
        j.kv("valid_size", static_cast<long long>(valid->size()));
        j.arr("valid", valid->data(), static_cast<size_t>(valid->size()), 48);
    }
    return j;
}

void report(case_t& k, const std::string& clause_key, const split_case_t& s, const vf::json_t& j)
{
    const auto key = "C12|" + clause_key + "|" + s.id;
    if (k.first(key))
    {
        k.c.violation(key, j);
    }
}

struct scratch_t
{
    ivec_t a, b, merged, all_valid, tmp;
};

///
/// \brief every clause of the statement about the (training, validation) pairs of one split() call.
///
void check_splits(case_t& k, const split_case_t& s, const splitter_t::splits_t& splits, scratch_t& w)
{
    const bool  kfold = s.per < 0;
    const auto& ref   = *s.ref;

    ++k.tally[split_calls];
    ++k.tally[fold_count];
    if (static_cast<tensor_size_t>(splits.size()) != s.folds)
    {
        auto j = witness(s, -1, nullptr, nullptr);
        j.kv("got_splits", static_cast<long long>(splits.size()));
        report(k, "fold-count", s, j);
    }

    tensor_size_t min_valid = std::numeric_limits<tensor_size_t>::max(), max_valid = 0;
    w.all_valid.clear();

    for (size_t f = 0; f < splits.size(); ++f)
    {
        const auto& train = splits[f].first;
        const auto& valid = splits[f].second;
        const auto  fold  = static_cast<int64_t>(f);

        // sorted
        ++k.tally[pair_sorted];
        const bool sorted = std::is_sorted(train.begin(), train.end()) && std::is_sorted(valid.begin(), valid.end());
        if (!sorted)
        {
            report(k, "sorted", s, witness(s, fold, &train, &valid));
        }

        // disjoint, union = input, every input index exactly once: decided at once on the fast path by
        // merge(train, valid) == sorted input (strictly increasing), diagnosed clause by clause otherwise
        w.a.assign(train.begin(), train.end());
        w.b.assign(valid.begin(), valid.end());
        if (!sorted)
        {
            std::sort(w.a.begin(), w.a.end());
            std::sort(w.b.begin(), w.b.end());
        }
        w.merged.resize(w.a.size() + w.b.size());
        std::merge(w.a.begin(), w.a.end(), w.b.begin(), w.b.end(), w.merged.begin());
        ++k.tally[pair_disjoint];
        ++k.tally[pair_union];
        ++k.tally[pair_cover_once];
        if (w.merged != ref)
        {
            bool explained = false;
            w.tmp.clear();
            std::set_intersection(w.a.begin(), w.a.end(), w.b.begin(), w.b.end(), std::back_inserter(w.tmp));
            if (!w.tmp.empty())
            {
                auto j = witness(s, fold, &train, &valid);
                j.arr("common", w.tmp.data(), w.tmp.size(), 16);
                report(k, "disjoint", s, j);
                explained = true;
            }
            w.tmp = w.merged;
            w.tmp.erase(std::unique(w.tmp.begin(), w.tmp.end()), w.tmp.end());
            if (w.tmp != ref)
            {
                report(k, "union", s, witness(s, fold, &train, &valid));
                explained = true;
            }
            if (std::adjacent_find(w.a.begin(), w.a.end()) != w.a.end() ||
                std::adjacent_find(w.b.begin(), w.b.end()) != w.b.end())
            {
                report(k, "cover-once", s, witness(s, fold, &train, &valid));
                explained = true;
            }
            if (!explained)
            {
                report(k, "union", s, witness(s, fold, &train, &valid));
            }
        }

        // random splitter: the training part has round(percentage * n / 100) elements (exact integer arithmetic,
        // halves round away from zero like std::round)
        if (!kfold)
        {
            ++k.tally[random_train_size];
            const auto expected = static_cast<tensor_size_t>((2 * s.per * s.n + 100) / 200);
            if (train.size() != expected)
            {
                auto j = witness(s, fold, &train, &valid);
                j.kv("expected_train_size", static_cast<long long>(expected));
                report(k, "train-size", s, j);
            }
        }

        min_valid = std::min(min_valid, valid.size());
        max_valid = std::max(max_valid, valid.size());
        w.all_valid.insert(w.all_valid.end(), w.b.begin(), w.b.end());
    }

    if (kfold)
    {
        // the k validation folds partition the input
        ++k.tally[kfold_partition];
        std::sort(w.all_valid.begin(), w.all_valid.end());
        if (w.all_valid != ref)
        {
            auto j = witness(s, -1, nullptr, nullptr);
            j.arr("all_validation_sorted", w.all_valid.data(), w.all_valid.size(), 64);
            std::string sizes;
            for (const auto& sp : splits)
            {
                sizes += (sizes.empty() ? "" : ",") + std::to_string(sp.second.size());
            }
            j.kv("validation_sizes", sizes.substr(0, 400));
            report(k, "partition", s, j);
        }
        // ... with sizes differing by less than k
        if (!splits.empty())
        {
            ++k.tally[kfold_fold_sizes];
            if (!(max_valid - min_valid < s.folds))
            {
                auto j = witness(s, -1, nullptr, nullptr);
                j.kv("min_validation_size", static_cast<long long>(min_valid));
                j.kv("max_validation_size", static_cast<long long>(max_valid));
                report(k, "fold-sizes", s, j);
            }
        }
    }
}

void check_equal_seeds(case_t& k, const split_case_t& s, const splitter_t::splits_t& lhs, const splitter_t::splits_t& rhs,
                       const char* how)
{
    ++k.tally[equal_seeds];
    bool equal = lhs.size() == rhs.size();
    for (size_t f = 0; f < lhs.size() && equal; ++f)
    {
        equal = same(lhs[f].first, rhs[f].first) && same(lhs[f].second, rhs[f].second);
        if (!equal)
        {
            auto j = witness(s, static_cast<int64_t>(f), &lhs[f].first, &lhs[f].second);
            j.kv("how", how);
            j.arr("other_train", rhs[f].first.data(), static_cast<size_t>(rhs[f].first.size()), 48);
            j.arr("other_valid", rhs[f].second.data(), static_cast<size_t>(rhs[f].second.size()), 48);
            report(k, "equal-seeds", s, j);
        }
    }
    if (lhs.size() != rhs.size())
    {
        auto j = witness(s, -1, nullptr, nullptr);
        j.kv("how", how).kv("splits", static_cast<long long>(lhs.size())).kv("other_splits", static_cast<long long>(rhs.size()));
        report(k, "equal-seeds", s, j);
    }
}

rsplitter_t make_splitter(const char* id, const tensor_size_t folds, const int64_t seed)
{
    auto splitter                          = splitter_t::all().get(id);
    splitter->parameter("splitter::folds") = folds;
    splitter->parameter("splitter::seed")  = seed;
    return splitter;
}

///
/// \brief both splitters on one (list, folds, seed); the random splitter for every percentage in `pers`.
///
void run_splitters(case_t& k, const ivec_t& input, const ivec_t& ref, const tensor_size_t folds, const int64_t seed,
                   const std::vector<int64_t>& pers, scratch_t& w)
{
    const auto samples = to_indices(input);

    split_case_t s;
    s.n     = static_cast<tensor_size_t>(input.size());
    s.folds = folds;
    s.seed  = seed;
    s.input = &input;
    s.ref   = &ref;

    {
        s.id  = "k-fold";
        s.per = -1;
        // two independently configured objects + a repeated call on the first one
        const auto first  = make_splitter("k-fold", folds, seed);
        const auto second = make_splitter("k-fold", folds, seed);
        const auto splits = first->split(samples);
        check_splits(k, s, splits, w);
        check_equal_seeds(k, s, splits, second->split(samples), "another object, same folds and seed");
        check_equal_seeds(k, s, splits, first->split(samples), "same object, called again");
    }
    {
        s.id              = "random";
        const auto first  = make_splitter("random", folds, seed);
        const auto second = make_splitter("random", folds, seed);
        for (const auto per : pers)
        {
            s.per                                           = per;
            first->parameter("splitter::random::train_per") = per;
            const auto splits                               = first->split(samples);
            check_splits(k, s, splits, w);
            second->parameter("splitter::random::train_per") = per;
            check_equal_seeds(k, s, splits, second->split(samples), "another object, same folds, seed and percentage");
        }
    }
}

// ------------------------------------------------------------------------------------------------------------
// samplers

struct sampler_case_t
{
    const ivec_t*                                       input{nullptr};
    const ivec_t*                                       ref{nullptr};     ///< sorted input
    const std::vector<std::pair<tensor_size_t, double>>* weights{nullptr}; ///< (index, weight) sorted by index, or null
};

void sreport(case_t& k, const char* clause_key, const std::string& object, const sampler_case_t& s, const indices_t& got,
             const tensor_size_t count, const vf::json_t& extra)
{
    const auto key = std::string("C12|") + clause_key + "|" + object;
    if (!k.first(key))
    {
        return;
    }
    vf::json_t j;
    j.kv("object", object).kv("n", static_cast<long long>(s.input->size())).kv("count", static_cast<long long>(count));
    j.kv("got_size", static_cast<long long>(got.size()));
    j.arr("input", s.input->data(), s.input->size(), 48);
    j.arr("got", got.data(), static_cast<size_t>(got.size()), 48);
    j.kv("extra", extra);
    k.c.violation(key, j);
}

///
/// \brief the clauses on one returned selection: `count` (if known) sorted members, distinct if without replacement,
/// no index of zero weight if weighted.
///
void check_selection(case_t& k, const std::string& object, const sampler_case_t& s, const indices_t& got,
                     const tensor_size_t count, const bool without_replacement, const bool must_be_sorted = true)
{
    const auto& ref = *s.ref;
    ++k.tally[sampler_calls];

    ++k.tally[sampler_count];
    if (got.size() != count)
    {
        sreport(k, "count", object, s, got, count, vf::json_t());
    }
    if (must_be_sorted)
    {
        ++k.tally[sampler_sorted];
        if (!std::is_sorted(got.begin(), got.end()))
        {
            sreport(k, "sorted", object, s, got, count, vf::json_t());
        }
    }
    ++k.tally[sampler_member];
    for (const auto v : got)
    {
        if (!std::binary_search(ref.begin(), ref.end(), v))
        {
            sreport(k, "member", object, s, got, count, vf::json_t().kv("not_in_input", static_cast<long long>(v)));
            break;
        }
    }
    if (without_replacement)
    {
        ++k.tally[sampler_distinct];
        auto sorted = to_vec(got);
        std::sort(sorted.begin(), sorted.end());
        const auto it = std::adjacent_find(sorted.begin(), sorted.end());
        if (it != sorted.end())
        {
            sreport(k, "distinct", object, s, got, count, vf::json_t().kv("repeated", static_cast<long long>(*it)));
        }
    }
    if (s.weights != nullptr)
    {
        ++k.tally[sampler_zero_weight];
        const auto& ws = *s.weights;
        for (const auto v : got)
        {
            const auto it = std::lower_bound(ws.begin(), ws.end(), std::make_pair(v, -1.0));
            if (it != ws.end() && it->first == v && !(it->second > 0.0))
            {
                sreport(k, "zero-weight", object, s, got, count,
                        vf::json_t().kv("index", static_cast<long long>(v)).kv("weight", it->second));
                break;
            }
        }
    }
}

///
/// \brief weights with zeros (never all zero), leading/trailing zeros forced now and then.
///
std::vector<double> make_weights(vf::rng_t& rng, const size_t n, bool& has_zero)
{
    std::vector<double> w(n);
    const double        pzero = rng.pick(std::vector<double>{0.0, 0.1, 0.3, 0.5, 0.9, 0.99});
    const int           kind  = static_cast<int>(rng.integer(0, 2));
    for (auto& x : w)
    {
        x = rng.chance(pzero) ? 0.0 : (kind == 0 ? rng.uniform(0.0, 1.0) : kind == 1 ? rng.loguniform(1e-6, 1e6) : 1.0);
    }
    if (n > 1 && rng.chance(0.3))
    {
        w.front() = 0.0;
    }
    if (n > 1 && rng.chance(0.3))
    {
        w.back() = 0.0;
    }
    if (std::none_of(w.begin(), w.end(), [](const double x) { return x > 0.0; }))
    {
        w[static_cast<size_t>(rng.integer(0, static_cast<int64_t>(n) - 1))] = rng.uniform(0.1, 1.0);
    }
    has_zero = std::any_of(w.begin(), w.end(), [](const double x) { return x == 0.0; });
    return w;
}

std::vector<std::pair<tensor_size_t, double>> by_index(const ivec_t& input, const std::vector<double>& weights)
{
    std::vector<std::pair<tensor_size_t, double>> ws(input.size());
    for (size_t i = 0; i < input.size(); ++i)
    {
        ws[i] = {input[i], weights[i]};
    }
    std::sort(ws.begin(), ws.end());
    return ws;
}

uint64_t run_samplers(case_t& k, const ivec_t& input, const ivec_t& ref, bool& has_zero)
{
    auto&      rng     = k.c.rng;
    const auto n       = static_cast<tensor_size_t>(input.size());
    const auto samples = to_indices(input);
    const auto count   = rng.chance(0.1) ? tensor_size_t{0} : rng.chance(0.12) ? n : static_cast<tensor_size_t>(rng.integer(0, n));

    const auto weights = make_weights(rng, input.size(), has_zero);
    const auto ws      = by_index(input, weights);
    tensor1d_t wtensor(n);
    std::copy(weights.begin(), weights.end(), wtensor.begin());

    sampler_case_t plain;
    plain.input = &input;
    plain.ref   = &ref;
    auto weighted    = plain;
    weighted.weights = &ws;

    auto lrng = make_rng(static_cast<uint64_t>(rng.integer(0, 2147483646)));

    check_selection(k, "sample_without_replacement", plain, sample_without_replacement(samples, count, lrng), count, true);
    check_selection(k, "sample_with_replacement", plain, sample_with_replacement(samples, count, lrng), count, false);
    check_selection(k, "sample_with_replacement(weights)", weighted, sample_with_replacement(samples, wtensor, count, lrng),
                    count, false);
    // the overloads that seed themselves (replayable through the NANO_VERIF hook of make_rng)
    check_selection(k, "sample_without_replacement/default-rng", plain, sample_without_replacement(samples, count), count, true);
    check_selection(k, "sample_with_replacement/default-rng", plain, sample_with_replacement(samples, count), count, false);
    check_selection(k, "sample_with_replacement(weights)/default-rng", weighted,
                    sample_with_replacement(samples, wtensor, count), count, false);

    uint64_t h = vf::mix(static_cast<uint64_t>(count), vf::hash_bytes(weights.data(), weights.size() * sizeof(double)));
    return h;
}

// ------------------------------------------------------------------------------------------------------------
// gboost sampler: the same samplers behind a ratio and loss / gradient derived weights

void run_gboost(case_t& k, const ivec_t& input, const ivec_t& ref, bool& has_zero)
{
    auto&      rng      = k.c.rng;
    const auto n        = static_cast<tensor_size_t>(input.size());
    const auto samples  = to_indices(input); // NB: the sampler keeps a reference to it
    const auto universe = ref.back() + 1 + static_cast<tensor_size_t>(rng.integer(0, 3));

    const auto a = static_cast<tensor_size_t>(rng.integer(1, 3));
    const auto b = static_cast<tensor_size_t>(rng.integer(1, 2));
    tensor2d_t errors_losses(2, universe);
    tensor4d_t gradients(universe, a, b, tensor_size_t{1});

    sampler_case_t plain;
    plain.input = &input;
    plain.ref   = &ref;

    const struct
    {
        gboost_subsample type;
        const char*      name;
    } variants[] = {
        {gboost_subsample::off, "off"},
        {gboost_subsample::subsample, "subsample"},
        {gboost_subsample::bootstrap, "bootstrap"},
        {gboost_subsample::wei_loss_bootstrap, "wei_loss_bootstrap"},
        {gboost_subsample::wei_grad_bootstrap, "wei_grad_bootstrap"},
    };

    for (const auto& variant : variants)
    {
        // ratio in (0, 1]; the count the sampler asks for is the truncation of ratio * n
        const auto ratio    = rng.chance(0.15) ? 1.0 : rng.chance(0.3) ? (static_cast<double>(rng.integer(0, n)) + 0.25) / static_cast<double>(n) : rng.uniform(0.02, 1.0);
        const auto sratio   = std::min(1.0, ratio);
        const auto expected = static_cast<tensor_size_t>(sratio * static_cast<double>(n));
        const auto seed     = static_cast<uint64_t>(rng.integer(0, 1024));
        const auto object   = std::string("gboost::sampler_t/") + variant.name;

        auto sampler = gboost::sampler_t{samples, variant.type, seed, sratio};

        const auto rounds = rng.integer(1, 3);
        for (int64_t round = 0; round < rounds; ++round)
        {
            // fresh errors / losses / gradients per round; rows 0 (errors) and 1 (losses) have different zero patterns
            errors_losses.full(1.0);
            gradients.full(1.0);
            bool       zl = false, zg = false;
            const auto wl = make_weights(rng, input.size(), zl);
            const auto wg = make_weights(rng, input.size(), zg);
            for (size_t i = 0; i < input.size(); ++i)
            {
                errors_losses(0, input[i]) = (wl[i] > 0.0) ? 0.0 : 1.0;
                errors_losses(1, input[i]) = wl[i];
                auto g                     = gradients.vector(input[i]);
                g.setZero();
                if (wg[i] > 0.0)
                {
                    g(rng.integer(0, g.size() - 1)) = rng.chance(0.5) ? wg[i] : -wg[i];
                }
            }
            const auto wsl = by_index(input, wl);
            const auto wsg = by_index(input, wg);

            ++k.tally[gboost_calls];
            const auto got = sampler.sample(errors_losses, gradients);
            switch (variant.type)
            {
            case gboost_subsample::off:
                // not a sampling: every training sample once (order as given)
                check_selection(k, object, plain, got, n, true, false);
                break;
            case gboost_subsample::subsample: check_selection(k, object, plain, got, expected, true); break;
            case gboost_subsample::bootstrap: check_selection(k, object, plain, got, expected, false); break;
            case gboost_subsample::wei_loss_bootstrap:
            {
                auto weighted    = plain;
                weighted.weights = &wsl;
                has_zero         = has_zero || zl;
                check_selection(k, object, weighted, got, expected, false);
                break;
            }
            case gboost_subsample::wei_grad_bootstrap:
            {
                auto weighted    = plain;
                weighted.weights = &wsg;
                has_zero         = has_zero || zg;
                check_selection(k, object, weighted, got, expected, false);
                break;
            }
            }
        }
    }
}

// ------------------------------------------------------------------------------------------------------------
// ball

void run_ball(case_t& k)
{
    auto&        rng    = k.c.rng;
    const auto   d      = static_cast<tensor_size_t>(rng.chance(0.2) ? rng.integer(1, 3) : rng.integer(1, 50));
    const double radius = rng.chance(0.1) ? rng.pick(std::vector<double>{1e-6, 1.0, 1e6}) : rng.loguniform(1e-6, 1e6);
    const double cmag   = rng.chance(0.15) ? 0.0 : rng.chance(0.1) ? 1e6 : rng.loguniform(1e-3, 1e6);

    vector_t x0(d);
    for (tensor_size_t i = 0; i < d; ++i)
    {
        x0(i) = cmag * rng.uniform(-1.0, 1.0);
    }
    long double norm0 = 0;
    for (tensor_size_t i = 0; i < d; ++i)
    {
        norm0 += static_cast<long double>(x0(i)) * static_cast<long double>(x0(i));
    }
    norm0 = std::sqrt(norm0);
    // the statement's |x - x0|_2 <= r, granted the rounding of x = x0 + delta in double precision
    const long double bound = static_cast<long double>(radius) * (1.0L + 1e-12L) +
                              4.0L * static_cast<long double>(std::numeric_limits<double>::epsilon()) * norm0;

    auto lrng = make_rng(static_cast<uint64_t>(rng.integer(0, 2147483646)));
    for (int draw = 0; draw < 8; ++draw)
    {
        vector_t    x;
        const char* object = nullptr;
        switch (draw % 4)
        {
        case 0:
            x      = sample_from_ball(x0, radius, lrng);
            object = "sample_from_ball(x0,r,rng)";
            break;
        case 1:
            x      = sample_from_ball(x0, radius);
            object = "sample_from_ball(x0,r)";
            break;
        case 2:
            x = vector_t(d);
            x.full(std::numeric_limits<double>::quiet_NaN());
            sample_from_ball(x0, radius, x, lrng);
            object = "sample_from_ball(x0,r,x,rng)";
            break;
        default:
            x = vector_t(d);
            x.full(std::numeric_limits<double>::quiet_NaN());
            sample_from_ball(x0, radius, x);
            object = "sample_from_ball(x0,r,x)";
            break;
        }
        ++k.tally[ball_inside];
        long double dist = 0;
        bool        ok   = x.size() == d;
        for (tensor_size_t i = 0; i < d && ok; ++i)
        {
            const long double diff = static_cast<long double>(x(i)) - static_cast<long double>(x0(i));
            dist += diff * diff;
        }
        dist = std::sqrt(dist);
        ok   = ok && (dist <= bound); // false for NaN as well
        if (!ok)
        {
            const auto key = std::string("C12|ball|") + object;
            if (k.first(key))
            {
                vf::json_t j;
                j.kv("object", object).kv("dims", static_cast<long long>(d)).kv("radius", radius).kv("distance", dist);
                j.kv("bound", bound).kv("center_norm", norm0);
                j.arr("x0", x0.data(), static_cast<size_t>(x0.size()), 50);
                j.arr("x", x.data(), static_cast<size_t>(x.size()), 50);
                k.c.violation(key, j);
            }
        }
    }
}

// ------------------------------------------------------------------------------------------------------------
// the enumerated sub-space

const std::vector<std::pair<tensor_size_t, tensor_size_t>>& enumerated_pairs()
{
    static const auto pairs = []()
    {
        std::vector<std::pair<tensor_size_t, tensor_size_t>> p;
        for (tensor_size_t n = 2; n <= 40; ++n)
        {
            for (tensor_size_t folds = 2; folds <= std::min<tensor_size_t>(n, 12); ++folds)
            {
                p.emplace_back(n, folds);
            }
        }
        return p;
    }();
    return pairs;
}

void exhaustive_case(vf::ctx_t& c)
{
    static const auto all_pers = []()
    {
        std::vector<int64_t> p;
        for (int64_t per = 10; per <= 90; ++per)
        {
            p.push_back(per);
        }
        return p;
    }();
    static scratch_t scratch;

    const auto& pairs  = enumerated_pairs();
    const auto  full   = c.args.thorough();
    const auto  nseeds = full ? int64_t{1025} : int64_t{65};
    const auto  total  = static_cast<int64_t>(pairs.size()) * nseeds;
    const auto  index  = c.index % total;
    // the largest lists first (the first cases are the ones sampled into the evidence)
    const auto [n, folds] = pairs[pairs.size() - 1U - static_cast<size_t>(index / nseeds)];
    const auto slot       = index % nseeds;
    const auto seed       = full ? slot : static_cast<int64_t>((c.args.seed % 16 + 16 * static_cast<uint64_t>(slot)) % 1025);

    nano::verif::rng_seed().store(c.seed | 1U);

    auto&      rng      = c.rng;
    const auto gap_mode = static_cast<int>(rng.integer(0, 3));
    const auto shuffled = rng.chance(0.5);
    const auto input    = make_indices(rng, n, gap_mode, shuffled);
    auto       ref      = input;
    std::sort(ref.begin(), ref.end());

    case_t k(c);
    run_splitters(k, input, ref, folds, seed, all_pers, scratch);

    if ((n % folds) != 0 || n < 2 * folds)
    {
        c.nontrivial(vf::mix(vf::mix(static_cast<uint64_t>(n), static_cast<uint64_t>(folds)), static_cast<uint64_t>(seed)));
    }
    if (c.want_sample())
    {
        vf::json_t j;
        j.kv("n", static_cast<long long>(n)).kv("folds", static_cast<long long>(folds)).kv("seed", static_cast<long long>(seed));
        j.kv("train_percentages", "10..90 (all 81)").kv("input_shuffled", shuffled);
        j.arr("input", input.data(), input.size(), 40);
        const auto splits = make_splitter("k-fold", folds, seed)->split(to_indices(input));
        if (!splits.empty())
        {
            j.arr("kfold_train0", splits[0].first.data(), static_cast<size_t>(splits[0].first.size()), 40);
            j.arr("kfold_valid0", splits[0].second.data(), static_cast<size_t>(splits[0].second.size()), 40);
        }
        c.sample(j);
    }
}

void random_case(vf::ctx_t& c)
{
    static scratch_t scratch;
    auto&            rng = c.rng;

    nano::verif::rng_seed().store(c.seed | 1U);

    // the list
    const auto r = rng.u01();
    const auto n = static_cast<tensor_size_t>(r < 0.15   ? rng.integer(2, 12)
                                              : r < 0.60 ? rng.integer(2, 100)
                                              : r < 0.90 ? rng.integer(100, 1000)
                                                         : rng.integer(1000, 5000));
    const auto gap_mode = static_cast<int>(rng.integer(0, 3));
    const auto shuffled = rng.chance(0.6);
    const auto input    = make_indices(rng, n, gap_mode, shuffled);
    auto       ref      = input;
    std::sort(ref.begin(), ref.end());

    // splitter configuration
    const auto    fmax = std::min<tensor_size_t>(n, 100);
    const auto    fr   = rng.u01();
    tensor_size_t folds = 2;
    if (fr < 0.40)
    {
        folds = static_cast<tensor_size_t>(rng.integer(2, std::min<tensor_size_t>(n, 12)));
    }
    else if (fr < 0.65)
    {
        folds = static_cast<tensor_size_t>(rng.integer(2, fmax));
    }
    else if (fr < 0.90)
    {
        // n < 2 * folds whenever the domain of the fold count allows it
        folds = static_cast<tensor_size_t>(rng.integer(std::min<tensor_size_t>(fmax, n / 2 + 1), fmax));
    }
    else
    {
        folds = std::max<tensor_size_t>(2, fmax - static_cast<tensor_size_t>(rng.integer(0, 2)));
    }
    folds = std::max<tensor_size_t>(2, std::min(folds, fmax));

    const auto seed = rng.chance(0.1) ? rng.pick(std::vector<int64_t>{0, 1, 42, 1023, 1024}) : rng.integer(0, 1024);
    std::vector<int64_t> pers;
    pers.push_back(rng.chance(0.15) ? rng.pick(std::vector<int64_t>{10, 50, 80, 90}) : rng.integer(10, 90));
    if (n <= 200)
    {
        pers.push_back(rng.integer(10, 90));
    }

    case_t k(c);
    run_splitters(k, input, ref, folds, seed, pers, scratch);

    // samplers: now and then on a one-element list
    bool     has_zero = false;
    uint64_t hs       = 0;
    if (rng.chance(0.04))
    {
        const ivec_t one(1, input[static_cast<size_t>(rng.integer(0, n - 1))]);
        hs = run_samplers(k, one, one, has_zero);
    }
    else
    {
        hs = run_samplers(k, input, ref, has_zero);
    }

    // the gboost sampler indexes dense tensors with the sample indices: bounded universe
    if (ref.back() < 60000 && n <= 2000)
    {
        run_gboost(k, input, ref, has_zero);
    }

    run_ball(k);

    if ((n % folds) != 0 || n < 2 * folds || has_zero)
    {
        uint64_t h = vf::hash_bytes(input.data(), input.size() * sizeof(tensor_size_t));
        h          = vf::mix(h, vf::mix(static_cast<uint64_t>(folds), static_cast<uint64_t>(seed)));
        h          = vf::mix(h, vf::mix(static_cast<uint64_t>(pers.front()), hs));
        c.nontrivial(h);
    }
    if (c.want_sample())
    {
        vf::json_t j;
        j.kv("n", static_cast<long long>(n)).kv("folds", static_cast<long long>(folds)).kv("seed", static_cast<long long>(seed));
        j.kv("train_per", static_cast<long long>(pers.front())).kv("input_shuffled", shuffled).kv("zero_weight_present", has_zero);
        j.arr("input", input.data(), input.size(), 32);
        const auto splits = make_splitter("random", folds, seed)->split(to_indices(input));
        if (!splits.empty())
        {
            j.kv("random_train0_size", static_cast<long long>(splits[0].first.size()));
            j.arr("random_valid0", splits[0].second.data(), static_cast<size_t>(splits[0].second.size()), 32);
        }
        c.sample(j);
    }
}
} // namespace

int main(int argc, char** argv)
{
    const auto args = vf::parse_args(argc, argv);
    if (args.mode == "exhaustive")
    {
        return vf::run(args, "C12",
                       "case = (n, folds, seed) enumerated over n in 2..40 x folds in 2..min(n,12) x seeds (thorough: all 1025; "
                       "quick: every 16th, offset VERIF_SEED mod 16), index values drawn at random (holes, shuffled); inside the case "
                       "k-fold and the random splitter with all 81 train percentages 10..90; non-trivial: n not divisible by folds "
                       "or n < 2*folds; distinct by hash(n, folds, seed)",
                       exhaustive_case);
    }
    return vf::run(args, "C12",
                   "case = one list of 2..5000 distinct non-contiguous indices (60% unsorted) + folds 2..min(n,100) + seed 0..1024 + "
                   "train percentage(s) 10..90 through both splitters; 6 sampler calls (count 0..n, weights with zeros), gboost "
                   "sampler (5 variants x 1..3 rounds), 8 ball samples (dims 1..50, radius 1e-6..1e6, centre up to 1e6); non-trivial: "
                   "n not divisible by folds or n < 2*folds or a zero weight present; distinct by hash(list, folds, seed, percentage, "
                   "count, weights)",
                   random_case);
}
