// C07 - line-search steps honour the acceptance conditions they advertise.
//
// Monitor: every call of lsearchk_t::get(state, descent, t0) is observed at the API boundary (result tuple + mutated
// state) through a counting wrapper around the objective.  Oracle: everything is recomputed by the harness from the
// objective at the returned point (never state.has_armijo/has_wolfe/...):
//   * success => t finite and > 0, state.x = x0 + t*d (element-wise, up to the rounding of one multiply-add),
//     state.fx / state.gx bitwise equal to f / grad f evaluated at state.x;
//   * backtrack => Armijo; lemarechal => Armijo + Wolfe; fletcher => Armijo + strong Wolfe (up to rounding);
//   * non-descent direction (g.d >= 0 with certainty) => failure and bitwise untouched state (x, fx, gx);
//   * convex quadratics: all five succeed and satisfy what they advertise (morethuente: Armijo + strong Wolfe,
//     cgdescent: Armijo + Wolfe or approximate Wolfe with eps_k = cgdescent::epsilon * |f0|), judged under the premise
//     spelled out at `premise` below (default budget and method parameters, c1 <= 0.4, c2 >= 1e-3, t0 in [1e-3,1e3] or
//     non-finite, a decrease along the ray that double precision can resolve).
// Not judged (the statement is silent): the state after a failed search; morethuente / cgdescent conditions elsewhere
// (counted as info|... so that the evidence shows how often they do not hold).
//
// Modes: `registered` (the library's smooth benchmark functions, 1..16 dims), `quadratic` (random convex quadratics).
#include "common/vf.h"
#include <Eigen/Dense>
#include <cstring>
#include <nano/function.h>
#include <nano/lsearchk.h>
#include <nano/solver/state.h>

using namespace nano;

namespace
{
constexpr double eps = 2.220446049250313e-16;

///
/// \brief counting wrapper: the line search only ever sees this object.
///
class monitored_t final : public function_t
{
public:
    explicit monitored_t(const function_t& inner)
        : function_t("c07-monitored", inner.size())
        , m_inner(&inner)
    {
        convex(inner.convex() ? convexity::yes : convexity::no);
        smooth(smoothness::yes);
    }

    rfunction_t clone() const override { return std::make_unique<monitored_t>(*this); }

    scalar_t do_vgrad(vector_cmap_t x, vector_map_t gx) const override
    {
        ++m_calls;
        const auto fx = m_inner->vgrad(x, gx);
        m_finite_calls += std::isfinite(fx) ? 1 : 0;
        return fx;
    }

    mutable int64_t m_calls{0};        ///< evaluations requested by the line search
    mutable int64_t m_finite_calls{0}; ///< ... of which the objective was finite

private:
    const function_t* m_inner{nullptr};
};

///
/// \brief convex quadratic f(x) = 1/2 x'Ax + a'x with plain loops (harness code, not the library's quadratic).
///
class quadratic_t final : public function_t
{
public:
    quadratic_t(Eigen::MatrixXd A, Eigen::VectorXd a)
        : function_t("c07-quadratic", static_cast<tensor_size_t>(a.size()))
        , m_A(std::move(A))
        , m_a(std::move(a))
    {
        convex(convexity::yes);
        smooth(smoothness::yes);
    }

    rfunction_t clone() const override { return std::make_unique<quadratic_t>(*this); }

    scalar_t do_vgrad(vector_cmap_t x, vector_map_t gx) const override
    {
        const auto   n  = m_a.size();
        const auto*  px = x.data();
        const bool   wg = gx.size() == x.size();
        scalar_t     f  = 0.0;
        for (Eigen::Index i = 0; i < n; ++i)
        {
            scalar_t Ax = 0.0;
            for (Eigen::Index j = 0; j < n; ++j)
            {
                Ax += m_A(i, j) * px[j];
            }
            if (wg)
            {
                gx.data()[i] = Ax + m_a(i);
            }
            f += px[i] * (0.5 * Ax + m_a(i));
        }
        return f;
    }

    const Eigen::MatrixXd& A() const { return m_A; }

private:
    Eigen::MatrixXd m_A;
    Eigen::VectorXd m_a;
};

struct dot_t
{
    long double value{0}; ///< sum of the (double-rounded) products, accumulated in long double
    long double abs{0};   ///< sum of |products|
    double      err{0};   ///< bound of |any double-precision evaluation order - value|
};

dot_t dot(const double* g, const double* d, const tensor_size_t n)
{
    dot_t r;
    for (tensor_size_t i = 0; i < n; ++i)
    {
        const double p = g[i] * d[i];
        r.value += static_cast<long double>(p);
        r.abs += std::fabs(static_cast<long double>(p));
    }
    r.err = static_cast<double>(2.0L * static_cast<long double>(n + 2) * static_cast<long double>(eps) * r.abs);
    return r;
}

bool same_bits(const double a, const double b)
{
    return std::memcmp(&a, &b, sizeof(double)) == 0;
}

bool same_bits(const vector_t& a, const vector_t& b)
{
    return a.size() == b.size() &&
           std::memcmp(a.data(), b.data(), sizeof(double) * static_cast<size_t>(a.size())) == 0;
}

double open_uniform(vf::rng_t& rng, const double lo, const double hi)
{
    // strictly inside (lo, hi)
    for (;;)
    {
        const double v = rng.uniform(lo, hi);
        if (v > lo && v < hi)
        {
            return v;
        }
    }
}

struct config_t
{
    double      c1{1e-4}, c2{0.1};
    bool        fuzzed{false};
    int         max_iterations{128};
    std::string interpolation{"cubic"};
    double      bt_safeguard{0.1};
    double      lm_tau1{9.0}, lm_safeguard{0.1};
    double      fl_tau1{9.0}, fl_tau2{0.1}, fl_tau3{0.5};
    double      mt_delta{0.66};
    double      cg_epsilon{1e-6}, cg_theta{0.5}, cg_gamma{0.66}, cg_ro{5.0};

    vf::json_t json() const
    {
        vf::json_t j;
        j.kv("c1", c1).kv("c2", c2).kv("fuzzed", fuzzed).kv("max_iterations", max_iterations).kv("interpolation", interpolation);
        if (fuzzed)
        {
            j.kv("bt_safeguard", bt_safeguard).kv("lm_tau1", lm_tau1).kv("lm_safeguard", lm_safeguard);
            j.kv("fl_tau1", fl_tau1).kv("fl_tau2", fl_tau2).kv("fl_tau3", fl_tau3).kv("mt_delta", mt_delta);
            j.kv("cg_epsilon", cg_epsilon).kv("cg_theta", cg_theta).kv("cg_gamma", cg_gamma).kv("cg_ro", cg_ro);
        }
        return j;
    }
};

config_t make_config(vf::rng_t& rng)
{
    config_t cfg;

    // (c1, c2) over the whole domain 0 < c1 < c2 < 1
    for (;;)
    {
        const auto k = rng.integer(0, 9);
        if (k <= 5)
        {
            cfg.c1 = rng.loguniform(1e-6, 0.4);
        }
        else if (k <= 7)
        {
            cfg.c1 = open_uniform(rng, 0.0, 1.0);
        }
        else if (k == 8)
        {
            cfg.c1 = rng.loguniform(1e-12, 1e-6);
        }
        else
        {
            cfg.c1 = 1.0 - rng.loguniform(1e-9, 1e-1);
        }
        const auto m = rng.integer(0, 9);
        double     u = rng.uniform(0.001, 0.999);
        if (m == 0)
        {
            u = rng.loguniform(1e-9, 1e-3); // c2 just above c1
        }
        else if (m == 1)
        {
            u = 1.0 - rng.loguniform(1e-9, 1e-3); // c2 just below 1
        }
        cfg.c2 = cfg.c1 + (1.0 - cfg.c1) * u;
        if (0.0 < cfg.c1 && cfg.c1 < cfg.c2 && cfg.c2 < 1.0)
        {
            break;
        }
    }

    static const std::vector<std::string> interpolations{"cubic", "quadratic", "bisection"};
    cfg.interpolation = rng.pick(interpolations);

    cfg.fuzzed = rng.chance(0.5);
    if (cfg.fuzzed)
    {
        switch (rng.integer(0, 5))
        {
        case 0: cfg.max_iterations = static_cast<int>(rng.integer(1, 3)); break;
        case 1: cfg.max_iterations = static_cast<int>(rng.integer(1, 20)); break;
        case 2: cfg.max_iterations = 10000; break;
        case 3: cfg.max_iterations = 128; break;
        default: cfg.max_iterations = static_cast<int>(std::floor(rng.loguniform(1.0, 10000.99))); break;
        }
        cfg.max_iterations = std::min(10000, std::max(1, cfg.max_iterations));

        const auto safeguard = [&]()
        { return rng.chance(0.2) ? (rng.chance(0.5) ? rng.loguniform(1e-9, 1e-2) : 0.5 - rng.loguniform(1e-9, 1e-2)) : open_uniform(rng, 0.0, 0.5); };
        const auto unit = [&]()
        { return rng.chance(0.2) ? (rng.chance(0.5) ? rng.loguniform(1e-9, 1e-2) : 1.0 - rng.loguniform(1e-9, 1e-2)) : open_uniform(rng, 0.0, 1.0); };

        cfg.bt_safeguard = safeguard();
        cfg.lm_safeguard = safeguard();
        cfg.lm_tau1      = 2.0 + rng.loguniform(1e-3, 9.9e5);
        cfg.fl_tau1      = 2.0 + rng.loguniform(1e-3, 9.9e5);
        cfg.fl_tau2      = rng.loguniform(1e-6, 0.49);
        cfg.fl_tau3      = rng.chance(0.3) ? 0.5 : cfg.fl_tau2 + (0.5 - cfg.fl_tau2) * rng.uniform(0.01, 1.0);
        if (!(cfg.fl_tau2 < cfg.fl_tau3 && cfg.fl_tau3 <= 0.5))
        {
            cfg.fl_tau3 = 0.5;
        }
        cfg.mt_delta   = unit();
        cfg.cg_epsilon = rng.loguniform(1e-12, 9e5);
        cfg.cg_theta   = unit();
        cfg.cg_gamma   = unit();
        cfg.cg_ro      = 1.0 + rng.loguniform(1e-3, 9.9e5);
    }
    return cfg;
}

void apply(lsearchk_t& ls, const std::string& id, const config_t& cfg)
{
    ls.parameter("lsearchk::tolerance")      = std::make_tuple(cfg.c1, cfg.c2);
    ls.parameter("lsearchk::max_iterations") = cfg.max_iterations;
    if (id == "backtrack")
    {
        ls.parameter("lsearchk::backtrack::interpolation") = cfg.interpolation;
        ls.parameter("lsearchk::backtrack::safeguard")     = cfg.bt_safeguard;
    }
    else if (id == "lemarechal")
    {
        ls.parameter("lsearchk::lemarechal::interpolation") = cfg.interpolation;
        ls.parameter("lsearchk::lemarechal::tau1")          = cfg.lm_tau1;
        ls.parameter("lsearchk::lemarechal::safeguard")     = cfg.lm_safeguard;
    }
    else if (id == "fletcher")
    {
        ls.parameter("lsearchk::fletcher::interpolation") = cfg.interpolation;
        ls.parameter("lsearchk::fletcher::tau1")          = cfg.fl_tau1;
        ls.parameter("lsearchk::fletcher::tau23")         = std::make_tuple(cfg.fl_tau2, cfg.fl_tau3);
    }
    else if (id == "morethuente")
    {
        ls.parameter("lsearchk::morethuente::delta") = cfg.mt_delta;
    }
    else if (id == "cgdescent")
    {
        ls.parameter("lsearchk::cgdescent::epsilon") = cfg.cg_epsilon;
        ls.parameter("lsearchk::cgdescent::theta")   = cfg.cg_theta;
        ls.parameter("lsearchk::cgdescent::gamma")   = cfg.cg_gamma;
        ls.parameter("lsearchk::cgdescent::ro")      = cfg.cg_ro;
    }
}

const rfunctions_t& registered_functions()
{
    // smooth benchmark functions, 1..16 dimensions (deterministic: the library seeds their data with a constant)
    static const auto functions = function_t::make({1, 16, convexity::ignore, smoothness::yes, 10}, std::regex(".+"));
    return functions;
}

enum class dirkind
{
    neg_gradient,
    quasi_newton,
    rotated,
    pos_gradient,
    pos_quasi_newton,
    orthogonal_exact,
    orthogonal_plus,
    zero
};

const char* name(const dirkind k)
{
    switch (k)
    {
    case dirkind::neg_gradient: return "-g";
    case dirkind::quasi_newton: return "-Hg";
    case dirkind::rotated: return "rotated(-g)";
    case dirkind::pos_gradient: return "+g";
    case dirkind::pos_quasi_newton: return "+Hg";
    case dirkind::orthogonal_exact: return "orthogonal(g.d==0)";
    case dirkind::orthogonal_plus: return "orthogonal+tiny*g";
    default: return "zero";
    }
}
} // namespace

int main(int argc, char** argv)
{
    const auto args = vf::parse_args(argc, argv);
    const bool quad = args.mode == "quadratic";
    if (!quad && args.mode != "registered")
    {
        std::fprintf(stderr, "c07_lsearch: unknown mode '%s' (registered|quadratic)\n", args.mode.c_str());
        return 2;
    }

    return vf::run(
        args, "C07",
        quad ? "case = one scenario run through all five line searches: random convex quadratic (1..16 dims, condition number "
               "1..1e4, scale 1e-3..1e3), x0 in a box of radius 1e-2..1e3, direction [-g | -Hg (random SPD H) | -g rotated by 0..90-1e-6 "
               "deg | +g | +Hg | exactly orthogonal | orthogonal + tiny*g | zero] scaled 1e-3..1e3, t0 in [1e-3,1e3] or "
               "0/negative/tiny/huge/NaN/+-inf, (c1,c2) over the whole domain, interpolation mode, half of the cases every other "
               "parameter and max_iterations fuzzed in their domains; non-trivial: at least one judged successful search "
               "evaluated >= 2 trial points, or the direction is non-descent; distinct by hash(objective, x0, d, t0, "
               "configuration)"
             : "case = one scenario run through all five line searches: registered smooth benchmark function (1..16 dims), "
               "x0 in a box of radius 1e-2..1e3, direction [-g | -Hg (random SPD H) | -g rotated by 0..90-1e-6 deg | +g | +Hg | "
               "exactly orthogonal | orthogonal + tiny*g | zero] scaled 1e-3..1e3, t0 in [1e-3,1e3] or "
               "0/negative/tiny/huge/NaN/+-inf, (c1,c2) over the whole domain, interpolation mode, half of the cases every other "
               "parameter and max_iterations fuzzed in their domains; non-trivial: at least one judged successful search "
               "evaluated >= 2 trial points, or the direction is non-descent; distinct by hash(objective, x0, d, t0, "
               "configuration)",
        [&](vf::ctx_t& c)
        {
            auto& rng = c.rng;

            // ---- objective -------------------------------------------------------------------------------------
            std::unique_ptr<function_t> owned;
            const function_t*           objective = nullptr;
            std::string                 fname;
            double                      qkappa = 0, qscale = 0;
            if (quad)
            {
                const auto      n = static_cast<Eigen::Index>(rng.integer(1, 16));
                Eigen::MatrixXd M(n, n);
                for (Eigen::Index i = 0; i < n; ++i)
                {
                    for (Eigen::Index j = 0; j < n; ++j)
                    {
                        M(i, j) = rng.normal();
                    }
                }
                qkappa = std::pow(10.0, rng.uniform(0.0, 4.0));
                qscale = std::pow(10.0, rng.uniform(-3.0, 3.0));
                const Eigen::MatrixXd Q = Eigen::HouseholderQR<Eigen::MatrixXd>(M).householderQ();
                Eigen::VectorXd       sp(n);
                for (Eigen::Index i = 0; i < n; ++i)
                {
                    sp(i) = std::pow(qkappa, rng.u01());
                }
                Eigen::MatrixXd A = qscale * Q * sp.asDiagonal() * Q.transpose();
                A                 = (0.5 * (A + A.transpose())).eval();
                Eigen::VectorXd a(n);
                for (Eigen::Index i = 0; i < n; ++i)
                {
                    a(i) = 5.0 * rng.normal();
                }
                owned     = std::make_unique<quadratic_t>(std::move(A), std::move(a));
                objective = owned.get();
                fname     = "quadratic[" + std::to_string(n) + "D]";
            }
            else
            {
                const auto& functions = registered_functions();
                objective = functions[static_cast<size_t>(rng.integer(0, static_cast<int64_t>(functions.size()) - 1))].get();
                fname     = objective->name();
            }
            const auto n = objective->size();

            // ---- origin ----------------------------------------------------------------------------------------
            const double radius = std::pow(10.0, rng.uniform(-2.0, 3.0));
            vector_t     x0{n};
            for (tensor_size_t i = 0; i < n; ++i)
            {
                x0(i) = radius * rng.uniform(-1.0, 1.0);
            }
            const monitored_t monitored{*objective};
            const auto        state0 = solver_state_t{monitored, x0};

            // the harness' own evaluation of the origin (the reference for everything below)
            vector_t     g0{n};
            const double f0 = objective->vgrad(x0, g0);
            bool         ok0 = std::isfinite(f0);
            double       g0max = 0.0;
            for (tensor_size_t i = 0; i < n; ++i)
            {
                ok0   = ok0 && std::isfinite(g0(i));
                g0max = std::max(g0max, std::fabs(g0(i)));
            }
            if (!ok0)
            {
                c.inconclusive("objective-not-finite-at-x0");
                return;
            }
            if (g0max < 1e-12)
            {
                c.inconclusive("stationary-x0");
                return;
            }
            if (!same_bits(state0.fx(), f0) || !same_bits(state0.gx(), g0))
            {
                // the objective is not reproducible: nothing can be judged (never seen)
                c.inconclusive("objective-not-reproducible");
                return;
            }

            // ---- direction -------------------------------------------------------------------------------------
            dirkind kind = dirkind::neg_gradient;
            {
                const auto r = rng.integer(0, 99);
                if (r < 20) { kind = dirkind::neg_gradient; }
                else if (r < 45) { kind = dirkind::quasi_newton; }
                else if (r < 75) { kind = dirkind::rotated; }
                else if (r < 81) { kind = dirkind::pos_gradient; }
                else if (r < 86) { kind = dirkind::pos_quasi_newton; }
                else if (r < 92) { kind = dirkind::orthogonal_exact; }
                else if (r < 97) { kind = dirkind::orthogonal_plus; }
                else { kind = dirkind::zero; }
            }
            if (n == 1 && (kind == dirkind::rotated || kind == dirkind::quasi_newton))
            {
                kind = dirkind::neg_gradient;
            }
            if (n == 1 && (kind == dirkind::orthogonal_exact || kind == dirkind::orthogonal_plus))
            {
                kind = dirkind::zero;
            }

            Eigen::VectorXd g = Eigen::Map<const Eigen::VectorXd>(g0.data(), n);
            Eigen::VectorXd dv = Eigen::VectorXd::Zero(n);
            double          angle = 0.0;
            const auto      random_spd = [&]()
            {
                Eigen::MatrixXd M(n, n);
                for (Eigen::Index i = 0; i < n; ++i)
                {
                    for (Eigen::Index j = 0; j < n; ++j)
                    {
                        M(i, j) = rng.normal();
                    }
                }
                return Eigen::MatrixXd{M * M.transpose() + std::pow(10.0, rng.uniform(-6.0, 0.0)) * Eigen::MatrixXd::Identity(n, n)};
            };
            const auto random_orthogonal_unit = [&]()
            {
                // a random unit vector orthogonal to g up to rounding (n >= 2)
                const Eigen::VectorXd gn = g / g.norm();
                for (;;)
                {
                    Eigen::VectorXd u(n);
                    for (Eigen::Index i = 0; i < n; ++i)
                    {
                        u(i) = rng.normal();
                    }
                    u -= gn * gn.dot(u);
                    u -= gn * gn.dot(u);
                    if (u.norm() > 1e-6)
                    {
                        return Eigen::VectorXd{u / u.norm()};
                    }
                }
            };
            switch (kind)
            {
            case dirkind::neg_gradient: dv = -g; break;
            case dirkind::pos_gradient: dv = g; break;
            case dirkind::quasi_newton: dv = -(random_spd() * g); break;
            case dirkind::pos_quasi_newton: dv = random_spd() * g; break;
            case dirkind::rotated:
            {
                // rotate -g by an angle in [0, 90) degrees, mostly close to orthogonal (g.d < 0 kept mathematically)
                const auto k = rng.integer(0, 3);
                angle        = k == 0   ? rng.uniform(0.0, 80.0)
                             : k == 1 ? rng.uniform(80.0, 89.0)
                             : k == 2 ? 90.0 - rng.loguniform(1e-2, 1.0)
                                      : 90.0 - rng.loguniform(1e-6, 1e-2);
                const double rad = angle * 3.14159265358979323846 / 180.0;
                dv               = g.norm() * (-std::cos(rad) * (g / g.norm()) + std::sin(rad) * random_orthogonal_unit());
                break;
            }
            case dirkind::orthogonal_exact:
            {
                // d = (.., g_j, .., -g_i, ..): the two products are exact opposites, every other product is zero
                const auto i = rng.integer(0, n - 1);
                auto       j = rng.integer(0, n - 2);
                j += (j >= i) ? 1 : 0;
                dv(i) = g(j);
                dv(j) = -g(i);
                break;
            }
            case dirkind::orthogonal_plus:
            {
                dv = g.norm() * random_orthogonal_unit() + rng.loguniform(1e-6, 1.0) * g;
                break;
            }
            default: break; // zero
            }
            const double dscale = std::pow(10.0, rng.uniform(-3.0, 3.0));
            vector_t     d{n};
            for (tensor_size_t i = 0; i < n; ++i)
            {
                d(i) = dscale * dv(i);
            }
            for (tensor_size_t i = 0; i < n; ++i)
            {
                if (!std::isfinite(d(i)))
                {
                    c.inconclusive("direction-not-finite");
                    return;
                }
            }

            // classification of the direction by the harness (sound w.r.t. any summation order of the dot product)
            const auto dg0 = dot(g0.data(), d.data(), n);
            enum class sign_t { descent, nondescent, ambiguous };
            sign_t sign = sign_t::ambiguous;
            if (static_cast<double>(dg0.value) < -dg0.err)
            {
                sign = sign_t::descent;
            }
            else if (static_cast<double>(dg0.value) > dg0.err)
            {
                sign = sign_t::nondescent;
            }
            else if (kind == dirkind::zero || kind == dirkind::orthogonal_exact)
            {
                // g.d is exactly zero in every evaluation order (two opposite products, the rest are zeros)
                int nonzero = 0;
                for (tensor_size_t i = 0; i < n; ++i)
                {
                    nonzero += (g0(i) * d(i) != 0.0) ? 1 : 0;
                }
                if (dg0.value == 0.0L && nonzero <= 2)
                {
                    sign = sign_t::nondescent;
                }
            }

            // ---- initial step and configuration ----------------------------------------------------------------
            double t0 = rng.loguniform(1e-3, 1e3);
            switch (rng.integer(0, 23))
            {
            case 0: t0 = std::numeric_limits<double>::quiet_NaN(); break;
            case 1: t0 = std::numeric_limits<double>::infinity(); break;
            case 2: t0 = -std::numeric_limits<double>::infinity(); break;
            case 3: t0 = 0.0; break;
            case 4: t0 = -rng.loguniform(1e-3, 1e3); break;
            case 5: t0 = rng.loguniform(1e-20, 1e-3); break;
            case 6: t0 = rng.loguniform(1e3, 1e20); break;
            default: break;
            }
            const auto cfg = make_config(rng);

            // the clause "all five succeed on convex quadratics" is judged with the default iteration budget (or more)
            // exact decrease attainable along the ray of a quadratic: (g0.d)^2 / (2 d'Ad), relative to |f0|
            double decrease_ratio = 0.0;
            if (quad)
            {
                const auto& A = static_cast<const quadratic_t*>(objective)->A();
                long double q = 0.0L;
                for (Eigen::Index i = 0; i < n; ++i)
                {
                    for (Eigen::Index j = 0; j < n; ++j)
                    {
                        q += static_cast<long double>(d(i)) * static_cast<long double>(A(i, j)) * static_cast<long double>(d(j));
                    }
                }
                const long double delta = dg0.value * dg0.value / (2.0L * q);
                decrease_ratio          = static_cast<double>(delta / std::max<long double>(std::fabs(static_cast<long double>(f0)), delta));
            }
            // premise of "all five succeed on convex quadratics and satisfy what they advertise": the configurations
            // of the property's quantifier (tolerances, interpolation mode; other parameters at their defaults) with the
            // default iteration budget, c1 <= 0.4 and c2 >= 1e-3 (the calibrated range: a convex quadratic has no
            // Armijo + strong-Wolfe point at its line minimiser for c1 > 1/2, and c2 -> 0 demands an exact minimiser),
            // t0 in [1e-3, 1e3] or non-finite, and a decrease along the ray that double precision can resolve
            // (>= 1e-9 |f0|; all failures seen on the unchanged tree had <= 2e-12, i.e. directions within 2e-5 degrees
            // of orthogonal to the gradient).
            const bool t0_std       = !std::isfinite(t0) || (t0 >= 1e-3 && t0 <= 1e3);
            const bool premise      = quad && !cfg.fuzzed && cfg.max_iterations == 128 && cfg.c1 <= 0.4 && cfg.c2 >= 1e-3 &&
                                 t0_std && decrease_ratio >= 1e-9;
            const bool must_succeed = premise && sign == sign_t::descent;

            uint64_t scenario = vf::hash_str(fname.c_str());
            scenario          = vf::hash_bytes(x0.data(), sizeof(double) * static_cast<size_t>(n), scenario);
            scenario          = vf::hash_bytes(d.data(), sizeof(double) * static_cast<size_t>(n), scenario);
            scenario          = vf::hash_double(t0, scenario);
            scenario          = vf::hash_double(cfg.c1, vf::hash_double(cfg.c2, scenario));
            scenario          = vf::hash_str((cfg.json().str()).c_str()) ^ (scenario * 0x9E3779B97F4A7C15ULL);

            const auto describe = [&]()
            {
                vf::json_t j;
                j.kv("objective", fname).kv("n", static_cast<long long>(n)).kv("radius", radius);
                if (quad)
                {
                    j.kv("kappa", qkappa).kv("scale", qscale).kv("decrease_ratio", decrease_ratio);
                }
                j.arr("x0", x0.data(), static_cast<size_t>(n), 16).arr("d", d.data(), static_cast<size_t>(n), 16);
                j.kv("direction", name(kind)).kv("angle_deg", angle).kv("dscale", dscale);
                j.kv("f0", f0).kv("g0.d", static_cast<double>(dg0.value)).kv("g0.d_err", dg0.err);
                j.kv("t0", t0).kv("config", cfg.json());
                return j;
            };

            c.count(std::string("direction|") + name(kind));
            c.count(sign == sign_t::descent ? "sign|descent" : sign == sign_t::nondescent ? "sign|nondescent" : "sign|ambiguous");

            vf::json_t results;
            bool       any_nt = false;

            // ---- the five line searches ------------------------------------------------------------------------
            for (const auto& id : lsearchk_t::all().ids())
            {
                auto ls = lsearchk_t::all().get(id);
                apply(*ls, id, cfg);

                auto       state  = state0;
                const auto calls0  = monitored.m_calls;
                const auto finite0 = monitored.m_finite_calls;
                const auto [ok, t] = ls->get(state, d, t0, make_null_logger());
                const auto trials  = monitored.m_calls - calls0;
                const auto finite  = monitored.m_finite_calls - finite0;
                c.count("searches");
                c.maxc("trials|" + id, trials);

                const auto report = [&](const std::string& clause, const vf::json_t& extra)
                {
                    auto j = describe();
                    j.kv("method", id).kv("ok", ok).kv("t", t).kv("trials", static_cast<long long>(trials));
                    j.kv("finite_trials", static_cast<long long>(finite)).kv("observed", extra);
                    c.violation("C07|" + clause + "|" + id, j);
                };

                if (c.want_sample())
                {
                    results.kv(id, vf::json_t().kv("ok", ok).kv("t", t).kv("trials", static_cast<long long>(trials)).kv("fx", state.fx()));
                }

                // -- non-descent directions: refused, state untouched ------------------------------------------------
                if (sign == sign_t::nondescent)
                {
                    c.count("nondescent_checks");
                    if (ok)
                    {
                        report("nondescent-accepted", vf::json_t().kv("fx", state.fx()));
                    }
                    if (!same_bits(state.x(), state0.x()) || !same_bits(state.fx(), state0.fx()) ||
                        !same_bits(state.gx(), state0.gx()) || !same_bits(state.x(), x0) || !same_bits(state.fx(), f0) ||
                        !same_bits(state.gx(), g0))
                    {
                        report("nondescent-state-touched", vf::json_t().kv("fx", state.fx()).kv("trials", static_cast<long long>(trials)));
                    }
                    any_nt = true;
                    continue;
                }

                if (!ok)
                {
                    c.count("failure|" + id);
                    if (must_succeed)
                    {
                        c.count("quadratic_success_checks");
                        report("quadratic-failure", vf::json_t().kv("fx", state.fx()));
                    }
                    else if (quad)
                    {
                        c.count("info|quadratic-outside-premise|failure|" + id);
                    }
                    continue;
                }
                c.count("success|" + id);
                if (must_succeed)
                {
                    c.count("quadratic_success_checks");
                }

                // -- success: finite positive step ---------------------------------------------------------------
                c.count("step_checks");
                if (!(std::isfinite(t) && t > 0.0))
                {
                    report("step-not-finite-positive", vf::json_t().kv("fx", state.fx()));
                    continue;
                }

                // -- success: the state is the evaluation of the objective at x0 + t*d ---------------------------
                c.count("state_checks");
                bool xok = state.x().size() == n && state.gx().size() == n;
                for (tensor_size_t i = 0; xok && i < n; ++i)
                {
                    const double e = x0(i) + t * d(i);
                    xok            = std::fabs(state.x()(i) - e) <= 4.0 * eps * (std::fabs(x0(i)) + std::fabs(t * d(i)));
                }
                if (!xok)
                {
                    // (qualifier: the objective was not finite at any of the trial points of this search)
                    report(finite == 0 && trials > 0 ? "state-x-mismatch|no-finite-trial" : "state-x-mismatch",
                           vf::json_t().arr("x", state.x().data(), static_cast<size_t>(state.x().size()), 16).kv("state_fx", state.fx()));
                    continue;
                }
                vector_t     gt{n};
                const double ft = objective->vgrad(state.x(), gt);
                if (!same_bits(state.fx(), ft) || !same_bits(state.gx(), gt))
                {
                    report("state-fx-gx-mismatch", vf::json_t().kv("state_fx", state.fx()).kv("f(state.x)", ft));
                    continue;
                }
                if (!std::isfinite(ft))
                {
                    report("state-not-finite", vf::json_t().kv("fx", ft));
                    continue;
                }

                if (sign != sign_t::descent)
                {
                    // the sign of g.d is within rounding of zero: either verdict of the guard is right, and the
                    // conditions below are ill-conditioned; only the clauses above are judged
                    c.count("ambiguous_sign_success");
                    continue;
                }

                // -- success: the advertised conditions, recomputed ----------------------------------------------
                const auto   dgt  = dot(gt.data(), d.data(), n);
                const double v0   = static_cast<double>(dg0.value);
                const double vt   = static_cast<double>(dgt.value);
                const double aslk = 1e-12 * (std::fabs(f0) + std::fabs(ft) + t * cfg.c1 * std::fabs(v0)) + t * cfg.c1 * dg0.err;
                const double wslk = 1e-12 * std::fabs(v0) + dgt.err + cfg.c2 * dg0.err;

                const bool armijo  = ft <= f0 + t * cfg.c1 * v0 + aslk;
                const bool wolfe   = vt >= cfg.c2 * v0 - wslk;
                const bool swolfe  = std::fabs(vt) <= cfg.c2 * std::fabs(v0) + wslk;
                const double epsk  = cfg.cg_epsilon * std::fabs(f0);
                const bool aarmijo = ft <= f0 + epsk + 1e-12 * (std::fabs(f0) + std::fabs(ft) + epsk);
                const bool awolfe  = (2.0 * cfg.c1 - 1.0) * v0 >= vt - wslk - dg0.err && wolfe;

                const auto observed = [&]()
                {
                    return vf::json_t()
                        .kv("f_t", ft).kv("g_t.d", vt).kv("armijo", armijo).kv("wolfe", wolfe).kv("strong_wolfe", swolfe)
                        .kv("approx_armijo", aarmijo).kv("approx_wolfe", awolfe)
                        .kv("armijo_margin", (f0 + t * cfg.c1 * v0) - ft).kv("armijo_slack", aslk).kv("wolfe_slack", wslk);
                };

                const bool three = id == "backtrack" || id == "lemarechal" || id == "fletcher";
                if (three || premise)
                {
                    if (id == "backtrack")
                    {
                        c.count("armijo_checks");
                        if (!armijo) { report("armijo", observed()); }
                    }
                    else if (id == "lemarechal")
                    {
                        c.count("armijo_checks");
                        c.count("wolfe_checks");
                        if (!armijo) { report("armijo", observed()); }
                        else if (!wolfe) { report("wolfe", observed()); }
                    }
                    else if (id == "fletcher" || id == "morethuente")
                    {
                        c.count("armijo_checks");
                        c.count("strong_wolfe_checks");
                        if (!armijo) { report("armijo", observed()); }
                        else if (!swolfe) { report("strong-wolfe", observed()); }
                    }
                    else if (id == "cgdescent")
                    {
                        c.count("wolfe_or_approx_wolfe_checks");
                        if (!((armijo && wolfe) || (aarmijo && awolfe))) { report("wolfe-or-approx-wolfe", observed()); }
                        else if (!(armijo && wolfe)) { c.count("cgdescent_accepted_by_approx_wolfe_only"); }
                    }
                    else
                    {
                        report("unknown-method", observed());
                    }
                }
                else
                {
                    // morethuente / cgdescent on a non-quadratic: the statement only demands the clauses above
                    const bool cond = id == "morethuente" ? (armijo && swolfe) : ((armijo && wolfe) || (aarmijo && awolfe));
                    c.count(std::string(quad ? "info|quadratic-outside-premise|" : "info|non-quadratic|") +
                            (cond ? "conditions-hold|" : "conditions-do-not-hold|") + id);
                }

                if (trials >= 2)
                {
                    any_nt = true;
                    c.count("judged_searches_with_2+_trials");
                }
            }

            if (any_nt)
            {
                c.nontrivial(scenario);
            }
            else
            {
                c.count("trivial_cases");
            }
            if (c.want_sample())
            {
                c.sample(describe().kv("results", results));
            }
        });
}
