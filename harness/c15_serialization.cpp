// C15 - serialization round-trips objects; truncated / corrupted streams are rejected.
//
// Monitor: every object is written through a recording streambuf (which logs every write call, so that tensor
// headers and payloads can be located inside any stream), read back into a fresh object and compared
// (parameters, fitted state, bit-identical predictions, byte-identical re-serialisation).  Then EVERY strict prefix
// of the stream and EVERY single-byte change (all 255 other values) of EVERY tensor payload byte is fed to the
// reader: it must end in an exception or a failed stream.  Tensor header bytes are corrupted too; those are judged
// on safety only (ASan/UBSan underneath, accepted tensors are touched element by element).
//
// modes: tensor | objects | models
#include "common/vf.h"
#include <array>
#include <cstdlib>
#include <cstring>
#include <istream>
#include <limits>
#include <memory>
#include <new>
#include <ostream>
#include <set>
#include <streambuf>
#include <nano/core/random.h>
#include <nano/core/stream.h>
#include <nano/dataset.h>
#include <nano/datasource.h>
#include <nano/feature.h>
#include <nano/gboost/enums.h>
#include <nano/gboost/model.h>
#include <nano/generator/elemwise_identity.h>
#include <nano/linear.h>
#include <nano/loss.h>
#include <nano/lsearch0.h>
#include <nano/lsearchk.h>
#include <nano/machine/params.h>
#include <nano/parameter.h>
#include <nano/solver.h>
#include <nano/splitter.h>
#include <nano/tensor/stream.h>
#include <nano/tuner.h>
#include <nano/wlearner.h>
#include <nano/wlearner/affine.h>
#include <nano/wlearner/dtree.h>
#include <nano/wlearner/hinge.h>
#include <nano/wlearner/stump.h>
#include <nano/wlearner/table.h>

// ------------------------------------------------------------------------------------------------
// global allocation functions: throw std::bad_alloc above 64 MiB (DESIGN 2.2); ASan's own operator new cannot throw.
// They forward to malloc/free, which ASan still intercepts and red-zones.
namespace
{
constexpr std::size_t g_alloc_cap = std::size_t(64) << 20;

void* capped_alloc(std::size_t n)
{
    if (n > g_alloc_cap)
    {
        throw std::bad_alloc{};
    }
    void* p = std::malloc(n != 0 ? n : 1);
    if (p == nullptr)
    {
        throw std::bad_alloc{};
    }
    return p;
}

void* capped_alloc(std::size_t n, std::size_t alignment)
{
    if (n > g_alloc_cap)
    {
        throw std::bad_alloc{};
    }
    void* p = nullptr;
    if (alignment < sizeof(void*))
    {
        alignment = sizeof(void*);
    }
    if (::posix_memalign(&p, alignment, n != 0 ? n : 1) != 0 || p == nullptr)
    {
        throw std::bad_alloc{};
    }
    return p;
}
} // namespace

void* operator new(std::size_t n)
{
    return capped_alloc(n);
}

void* operator new[](std::size_t n)
{
    return capped_alloc(n);
}

void* operator new(std::size_t n, const std::nothrow_t&) noexcept
{
    try
    {
        return capped_alloc(n);
    }
    catch (...)
    {
        return nullptr;
    }
}

void* operator new[](std::size_t n, const std::nothrow_t&) noexcept
{
    try
    {
        return capped_alloc(n);
    }
    catch (...)
    {
        return nullptr;
    }
}

void* operator new(std::size_t n, std::align_val_t a)
{
    return capped_alloc(n, static_cast<std::size_t>(a));
}

void* operator new[](std::size_t n, std::align_val_t a)
{
    return capped_alloc(n, static_cast<std::size_t>(a));
}

void operator delete(void* p) noexcept
{
    std::free(p);
}

void operator delete[](void* p) noexcept
{
    std::free(p);
}

void operator delete(void* p, std::size_t) noexcept
{
    std::free(p);
}

void operator delete[](void* p, std::size_t) noexcept
{
    std::free(p);
}

void operator delete(void* p, const std::nothrow_t&) noexcept
{
    std::free(p);
}

void operator delete[](void* p, const std::nothrow_t&) noexcept
{
    std::free(p);
}

void operator delete(void* p, std::align_val_t) noexcept
{
    std::free(p);
}

void operator delete[](void* p, std::align_val_t) noexcept
{
    std::free(p);
}

void operator delete(void* p, std::size_t, std::align_val_t) noexcept
{
    std::free(p);
}

void operator delete[](void* p, std::size_t, std::align_val_t) noexcept
{
    std::free(p);
}

using namespace nano;

namespace
{
// ------------------------------------------------------------------------------------------------
// streams

///
/// \brief output buffer that keeps the bytes and logs (offset, size) of every write call of the library.
///
class rec_buf_t final : public std::streambuf
{
public:
    std::string                            m_bytes;
    std::vector<std::pair<size_t, size_t>> m_writes;

protected:
    std::streamsize xsputn(const char* s, std::streamsize n) override
    {
        m_writes.emplace_back(m_bytes.size(), static_cast<size_t>(n));
        m_bytes.append(s, static_cast<size_t>(n));
        return n;
    }

    int_type overflow(int_type ch) override
    {
        if (!traits_type::eq_int_type(ch, traits_type::eof()))
        {
            m_writes.emplace_back(m_bytes.size(), 1U);
            m_bytes.push_back(traits_type::to_char_type(ch));
        }
        return traits_type::not_eof(ch);
    }
};

///
/// \brief input buffer over a memory block (no copy).
///
class mem_buf_t final : public std::streambuf
{
public:
    mem_buf_t(const char* data, size_t size)
    {
        auto* p = const_cast<char*>(data); // NOLINT: the get area is never written
        setg(p, p, p + size);
    }

    size_t remaining() const { return static_cast<size_t>(egptr() - gptr()); }
};

struct stream_t
{
    std::string                            m_bytes;
    std::vector<std::pair<size_t, size_t>> m_writes;
    bool                                   m_good{false};
    bool                                   m_threw{false};
    std::string                            m_what;
};

template <class twriter>
stream_t record(const twriter& writer)
{
    rec_buf_t    buf;
    std::ostream os(&buf);
    stream_t     s;
    try
    {
        writer(os);
    }
    catch (const std::exception& e)
    {
        s.m_threw = true;
        s.m_what  = e.what();
    }
    s.m_good   = static_cast<bool>(os) && !s.m_threw;
    s.m_bytes  = std::move(buf.m_bytes);
    s.m_writes = std::move(buf.m_writes);
    return s;
}

enum class outcome_t
{
    accepted,
    failed,
    exception
};

const char* name(outcome_t o)
{
    return o == outcome_t::accepted ? "accepted" : o == outcome_t::failed ? "failed-stream" : "exception";
}

///
/// \brief feed the given bytes to the reader: did it report a failure?
///
template <class treader>
outcome_t attempt(const char* data, size_t size, const treader& reader, size_t* remaining = nullptr)
{
    mem_buf_t    buf(data, size);
    std::istream is(&buf);
    try
    {
        reader(is);
    }
    catch (const std::exception&)
    {
        return outcome_t::exception;
    }
    catch (...)
    {
        return outcome_t::exception;
    }
    if (remaining != nullptr)
    {
        *remaining = buf.remaining();
    }
    return static_cast<bool>(is) ? outcome_t::accepted : outcome_t::failed;
}

std::string hex(const unsigned char* p, size_t n, size_t limit = 48)
{
    static const char* digits = "0123456789abcdef";
    std::string        s;
    for (size_t i = 0; i < n && i < limit; ++i)
    {
        s += digits[p[i] >> 4U];
        s += digits[p[i] & 15U];
    }
    if (n > limit)
    {
        s += "...";
    }
    return s;
}

// ------------------------------------------------------------------------------------------------
// the content hash of the wire format, re-implemented (include/nano/core/hash.h): only used to (a) recognise tensors
// inside object streams with certainty and (b) tell a hash COLLISION (the altered payload hashes to the stored value:
// weakness of the format) from a reader that does not verify the hash at all.  Never used to decide acceptance.
uint64_t ref_hash(const unsigned char* p, size_t count, size_t ssize, bool sign_extend)
{
    uint64_t h = 0;
    for (size_t i = 0; i < count; ++i, p += ssize)
    {
        uint64_t v = 0;
        std::memcpy(&v, p, ssize); // little endian host
        if (sign_extend && ssize < 8 && ((v >> (8 * ssize - 1)) & 1U) != 0U)
        {
            v |= ~uint64_t(0) << (8 * ssize);
        }
        h = h ^ (v + 0x9e3779b9 + (h << 6U) + (h >> 2U));
    }
    return h;
}

struct tensor_loc_t
{
    size_t   m_begin{0};        ///< offset of the version field
    size_t   m_hash{0};         ///< offset of the hash field
    size_t   m_payload{0};      ///< offset of the content
    size_t   m_payload_size{0}; ///<
    uint32_t m_rank{0};         ///<
    uint32_t m_ssize{0};        ///< sizeof(scalar)
    bool     m_sign_extend{false};
    bool     m_hash_known{false}; ///< the stored hash equals the reference hash of the content
};

///
/// \brief locate the serialized tensors from the logged write calls: version(4)=0, rank(4), rank x dim(4), sizeof(4),
///     hash(8), content(one write of exactly prod(dims)*sizeof bytes); accepted only if the stored hash verifies.
///
std::vector<tensor_loc_t> locate_tensors(const stream_t& s, int64_t& unverified)
{
    std::vector<tensor_loc_t> locs;
    const auto&               w = s.m_writes;
    const auto*               b = reinterpret_cast<const unsigned char*>(s.m_bytes.data()); // NOLINT
    const auto                u32 = [&](size_t off)
    {
        uint32_t v = 0;
        std::memcpy(&v, b + off, 4);
        return v;
    };
    for (size_t i = 0; i + 4 < w.size(); ++i)
    {
        if (w[i].second != 4 || u32(w[i].first) != 0U || w[i + 1].second != 4)
        {
            continue;
        }
        const auto rank = u32(w[i + 1].first);
        if (rank < 1 || rank > 8 || i + 4 + rank > w.size())
        {
            continue;
        }
        bool     ok    = true;
        uint64_t count = 1;
        for (uint32_t k = 0; k < rank && ok; ++k)
        {
            const auto& wd = w[i + 2 + k];
            int32_t     d  = 0;
            if (wd.second != 4)
            {
                ok = false;
                break;
            }
            std::memcpy(&d, b + wd.first, 4);
            ok = d >= 0 && d < (1 << 20);
            count *= static_cast<uint64_t>(std::max(d, 0));
            ok = ok && count < (uint64_t(1) << 32U);
        }
        if (!ok)
        {
            continue;
        }
        const auto& ws = w[i + 2 + rank];
        const auto& wh = w[i + 3 + rank];
        if (ws.second != 4 || wh.second != 8)
        {
            continue;
        }
        const auto ssize = u32(ws.first);
        if (ssize != 1 && ssize != 2 && ssize != 4 && ssize != 8)
        {
            continue;
        }
        tensor_loc_t loc;
        loc.m_begin        = w[i].first;
        loc.m_hash         = wh.first;
        loc.m_payload      = wh.first + 8;
        loc.m_payload_size = static_cast<size_t>(count) * ssize;
        loc.m_rank         = rank;
        loc.m_ssize        = ssize;
        if (loc.m_payload + loc.m_payload_size > s.m_bytes.size())
        {
            continue;
        }
        if (loc.m_payload_size > 0)
        {
            const auto ip = i + 4 + rank;
            if (ip >= w.size() || w[ip].first != loc.m_payload || w[ip].second != loc.m_payload_size)
            {
                continue;
            }
        }
        uint64_t stored = 0;
        std::memcpy(&stored, b + loc.m_hash, 8);
        if (stored == ref_hash(b + loc.m_payload, static_cast<size_t>(count), ssize, false))
        {
            loc.m_hash_known = true;
        }
        else if (stored == ref_hash(b + loc.m_payload, static_cast<size_t>(count), ssize, true))
        {
            loc.m_hash_known  = true;
            loc.m_sign_extend = true;
        }
        if (!loc.m_hash_known)
        {
            ++unverified;
            continue;
        }
        locs.push_back(loc);
        i += 3 + rank;
    }
    return locs;
}

// ------------------------------------------------------------------------------------------------
// per-case reporting: one violation line per key and case, the rest is counted

struct case_t
{
    explicit case_t(vf::ctx_t& c)
        : m_c(c)
    {
    }

    void violation(const std::string& key, const vf::json_t& details)
    {
        m_c.count("violations_seen");
        if (m_keys.insert(key).second)
        {
            m_c.violation(key, details);
        }
    }

    vf::ctx_t&            m_c;
    std::set<std::string> m_keys;
};

enum class header_values
{
    all,   ///< all 255 other values of every header byte
    masks, ///< four bit patterns and one random value per header byte
};

///
/// \brief the fault clauses: every strict prefix, every single-byte change of every tensor payload byte (exhaustive),
///     single-byte changes of every tensor header byte (safety only).
///
/// `reader(std::istream&)` builds a FRESH object, reads it and (when the read succeeded) touches what it read.
/// `forced` overrides the located tensors (tensor mode: the harness knows where the single payload is).
///
template <class treader>
void enumerate_faults(case_t& k, const std::string& object, const stream_t& s, const treader& reader,
                      header_values hvalues, const std::vector<tensor_loc_t>* forced = nullptr)
{
    auto&       c     = k.m_c;
    const auto& bytes = s.m_bytes;
    const auto  size  = bytes.size();

    // (1) every strict prefix; the prefix lives in an exactly-sized heap block
    for (size_t len = 0; len < size; ++len)
    {
        std::unique_ptr<char[]> block(new char[len != 0 ? len : 1]); // NOLINT
        std::memcpy(block.get(), bytes.data(), len);
        const auto o = attempt(block.get(), len, reader);
        c.count("truncations");
        c.count(o == outcome_t::exception ? "truncation_exception" : "truncation_failed_stream");
        if (o == outcome_t::accepted)
        {
            c.count("truncation_failed_stream", -1);
            vf::json_t j;
            j.kv("object", object).kv("prefix_length", static_cast<unsigned long long>(len));
            j.kv("stream_length", static_cast<unsigned long long>(size));
            j.kv("missing_bytes", static_cast<unsigned long long>(size - len));
            j.kv("stream_hex", hex(reinterpret_cast<const unsigned char*>(bytes.data()), size, 96)); // NOLINT
            k.violation("C15|truncation-accepted|" + object, j);
        }
    }

    // (2) tensor payloads and headers
    int64_t    unverified = 0;
    const auto located    = (forced != nullptr) ? *forced : locate_tensors(s, unverified);
    c.count("tensors_located", static_cast<int64_t>(located.size()));
    if (unverified > 0)
    {
        c.count("tensor_candidates_unverified", unverified);
    }

    std::string work = bytes;
    auto*       wb   = reinterpret_cast<unsigned char*>(work.data()); // NOLINT
    for (const auto& loc : located)
    {
        uint64_t stored = 0;
        std::memcpy(&stored, wb + loc.m_hash, 8);

        for (size_t i = loc.m_payload; i < loc.m_payload + loc.m_payload_size; ++i)
        {
            const auto old = wb[i];
            for (unsigned delta = 1; delta < 256; ++delta)
            {
                wb[i]        = static_cast<unsigned char>(old ^ delta);
                const auto o = attempt(work.data(), size, reader);
                c.count("payload_corruptions");
                if (o == outcome_t::accepted)
                {
                    const bool collision =
                        loc.m_hash_known && stored == ref_hash(wb + loc.m_payload, loc.m_payload_size / loc.m_ssize,
                                                               loc.m_ssize, loc.m_sign_extend);
                    vf::json_t j;
                    j.kv("object", object).kv("stream_offset", static_cast<unsigned long long>(i));
                    j.kv("payload_offset", static_cast<unsigned long long>(i - loc.m_payload));
                    j.kv("payload_size", static_cast<unsigned long long>(loc.m_payload_size));
                    j.kv("sizeof_scalar", loc.m_ssize).kv("rank", loc.m_rank);
                    j.kv("old_byte", static_cast<unsigned>(old)).kv("new_byte", static_cast<unsigned>(wb[i]));
                    j.kv("stored_hash_matches_altered_content", collision);
                    j.kv("header_hex", hex(wb + loc.m_begin, loc.m_payload - loc.m_begin, 64));
                    j.kv("altered_payload_hex", hex(wb + loc.m_payload, loc.m_payload_size, 256));
                    c.count(collision ? "payload_corruption_hash_collision" : "payload_corruption_accepted");
                    k.violation(std::string("C15|payload-corruption|") + (collision ? "hash-collision|" : "accepted|") +
                                    object,
                                j);
                }
            }
            wb[i] = old;
        }

        for (size_t i = loc.m_begin; i < loc.m_payload; ++i)
        {
            const auto old = wb[i];
            const auto one = [&](unsigned delta)
            {
                wb[i]        = static_cast<unsigned char>(old ^ delta);
                const auto o = attempt(work.data(), size, reader);
                c.count("header_corruptions");
                c.count(o == outcome_t::accepted ? "header_corruption_accepted" : "header_corruption_rejected");
            };
            if (hvalues == header_values::all)
            {
                for (unsigned delta = 1; delta < 256; ++delta)
                {
                    one(delta);
                }
            }
            else
            {
                for (const unsigned delta : {0x01U, 0x80U, 0xFFU, 0x7FU})
                {
                    one(delta);
                }
                one(static_cast<unsigned>(c.rng.integer(1, 255)));
            }
            wb[i] = old;
        }
    }
}

///
/// \brief the round-trip byte clauses shared by all objects: the writer succeeded, the reader of the complete stream
///     succeeded and consumed it entirely.
///
bool check_written(case_t& k, const std::string& object, const stream_t& s)
{
    k.m_c.count("writes");
    if (!s.m_good || s.m_bytes.empty())
    {
        vf::json_t j;
        j.kv("object", object).kv("threw", s.m_threw).kv("what", s.m_what);
        k.violation("C15|write-failed|" + object, j);
        return false;
    }
    return true;
}

template <class T>
bool same_bits(const T& a, const T& b)
{
    return std::memcmp(&a, &b, sizeof(T)) == 0;
}

template <class ttensor>
bool same_tensor(const ttensor& a, const ttensor& b)
{
    return a.dims() == b.dims() &&
           (a.size() == 0 ||
            std::memcmp(a.data(), b.data(), static_cast<size_t>(a.size()) * sizeof(*a.data())) == 0);
}

// ------------------------------------------------------------------------------------------------
// mode: tensor

template <class T>
const char* scalar_name()
{
    if constexpr (std::is_same_v<T, int8_t>) return "int8";
    else if constexpr (std::is_same_v<T, int16_t>) return "int16";
    else if constexpr (std::is_same_v<T, int32_t>) return "int32";
    else if constexpr (std::is_same_v<T, int64_t>) return "int64";
    else if constexpr (std::is_same_v<T, uint8_t>) return "uint8";
    else if constexpr (std::is_same_v<T, uint16_t>) return "uint16";
    else if constexpr (std::is_same_v<T, uint32_t>) return "uint32";
    else if constexpr (std::is_same_v<T, uint64_t>) return "uint64";
    else if constexpr (std::is_same_v<T, float>) return "float32";
    else return "float64";
}

template <class T>
T gen_scalar(vf::rng_t& rng, int style)
{
    using lim = std::numeric_limits<T>;
    switch (style)
    {
    case 0: // arbitrary bit patterns (NaN payloads, denormals, ...)
    {
        const uint64_t r = rng.next();
        T              v;
        std::memcpy(&v, &r, sizeof(T));
        return v;
    }
    case 1: // tiny values, many repeats
        if constexpr (std::is_signed_v<T>)
        {
            return static_cast<T>(rng.integer(-2, 2));
        }
        else
        {
            return static_cast<T>(rng.integer(0, 3));
        }
    case 2: return static_cast<T>(0);
    case 3: // extremes
    {
        const auto r = rng.integer(0, 7);
        if constexpr (std::is_floating_point_v<T>)
        {
            const T values[] = {lim::max(),       lim::lowest(),  lim::min(),         lim::denorm_min(),
                                lim::infinity(), -lim::infinity(), lim::quiet_NaN(), static_cast<T>(-0.0)};
            return values[r];
        }
        else
        {
            const T values[] = {lim::max(), lim::min(), static_cast<T>(lim::max() - 1), static_cast<T>(lim::min() + 1),
                                static_cast<T>(1), static_cast<T>(0), static_cast<T>(lim::max() / 2), static_cast<T>(-1)};
            return values[r];
        }
    }
    default:
        if constexpr (std::is_floating_point_v<T>)
        {
            return static_cast<T>(rng.uniform(-10.0, 10.0));
        }
        else if constexpr (std::is_signed_v<T>)
        {
            return static_cast<T>(rng.integer(-100, 100));
        }
        else
        {
            return static_cast<T>(rng.integer(0, 200));
        }
    }
}

template <class T, size_t R>
void tensor_case(vf::ctx_t& c, size_t max_payload)
{
    auto&  rng = c.rng;
    case_t k(c);

    // shape: every dim in 0..6; the element count is shrunk until the payload fits the enumeration bound
    tensor_dims_t<R> dims;
    for (auto& d : dims)
    {
        d = rng.integer(1, 6);
    }
    if (rng.chance(0.10))
    {
        dims[static_cast<size_t>(rng.integer(0, static_cast<int64_t>(R) - 1))] = 0;
    }
    while (static_cast<size_t>(::nano::size(dims)) * sizeof(T) > max_payload)
    {
        auto& d = dims[static_cast<size_t>(rng.integer(0, static_cast<int64_t>(R) - 1))];
        if (d > 1)
        {
            --d;
        }
    }

    tensor_mem_t<T, R> t(dims);
    const int          style = static_cast<int>(rng.integer(0, 5));
    for (tensor_size_t i = 0; i < t.size(); ++i)
    {
        t(i) = gen_scalar<T>(rng, style == 5 ? static_cast<int>(rng.integer(0, 4)) : style);
    }
    const auto object  = std::string("tensor");
    const auto payload = static_cast<size_t>(t.size()) * sizeof(T);

    const auto describe = [&]()
    {
        vf::json_t j;
        j.kv("scalar", scalar_name<T>()).kv("rank", static_cast<unsigned long long>(R));
        j.arr("dims", dims.data(), R).kv("fill_style", style);
        j.kv("payload_hex", hex(reinterpret_cast<const unsigned char*>(t.data()), payload, 128)); // NOLINT
        return j;
    };

    const auto s = record([&](std::ostream& os) { ::nano::write(os, t); });
    if (!check_written(k, object, s))
    {
        return;
    }

    // the same data written through a constant view gives the same bytes
    {
        const auto view = map_tensor(static_cast<const T*>(t.data()), dims);
        const auto sv   = record([&](std::ostream& os) { ::nano::write(os, view); });
        c.count("view_writes");
        if (!sv.m_good || sv.m_bytes != s.m_bytes)
        {
            k.violation("C15|roundtrip|view-writes-other-bytes|tensor", describe());
        }
    }

    // round trip
    {
        tensor_mem_t<T, R> r;
        size_t             remaining = 0;
        const auto         o =
            attempt(s.m_bytes.data(), s.m_bytes.size(), [&](std::istream& is) { ::nano::read(is, r); }, &remaining);
        c.count("roundtrips");
        if (o != outcome_t::accepted)
        {
            k.violation("C15|roundtrip|read-failed|tensor", describe().kv("outcome", name(o)));
            return;
        }
        if (!same_tensor(t, r) || remaining != 0)
        {
            auto j = describe();
            j.arr("read_dims", r.dims().data(), R).kv("unread_bytes", static_cast<unsigned long long>(remaining));
            k.violation("C15|roundtrip|content-differs|tensor", j);
            return;
        }
        const auto s2 = record([&](std::ostream& os) { ::nano::write(os, r); });
        c.count("reserializations");
        if (!s2.m_good || s2.m_bytes != s.m_bytes)
        {
            k.violation("C15|roundtrip|reserialization-differs|tensor", describe());
        }
    }

    // where is the payload?  The harness wrote one tensor: the content is the tail of the stream.
    if (s.m_bytes.size() < payload + 8 ||
        (payload > 0 && std::memcmp(s.m_bytes.data() + (s.m_bytes.size() - payload), t.data(), payload) != 0))
    {
        c.inconclusive("tensor payload is not the tail of the stream");
        return;
    }
    tensor_loc_t loc;
    loc.m_begin        = 0;
    loc.m_payload      = s.m_bytes.size() - payload;
    loc.m_payload_size = payload;
    loc.m_hash         = loc.m_payload - 8;
    loc.m_rank         = static_cast<uint32_t>(R);
    loc.m_ssize        = static_cast<uint32_t>(sizeof(T));
    loc.m_sign_extend  = std::is_integral_v<T> && std::is_signed_v<T>;
    {
        uint64_t stored = 0;
        std::memcpy(&stored, s.m_bytes.data() + loc.m_hash, 8);
        loc.m_hash_known = stored == ref_hash(reinterpret_cast<const unsigned char*>(t.data()), // NOLINT
                                              static_cast<size_t>(t.size()), sizeof(T), loc.m_sign_extend);
        c.count(loc.m_hash_known ? "hash_field_recognised" : "hash_field_not_recognised");
    }
    const std::vector<tensor_loc_t> forced{loc};

    const auto reader = [](std::istream& is)
    {
        tensor_mem_t<T, R> r;
        ::nano::read(is, r);
        if (is && r.size() > 0)
        {
            // an accepted tensor must own what its dimensions claim: touch every element (ASan watches)
            volatile unsigned char    sink = 0;
            const auto*               p    = reinterpret_cast<const unsigned char*>(r.data()); // NOLINT
            const auto                n    = static_cast<size_t>(r.size()) * sizeof(T);
            unsigned char             x    = 0;
            for (size_t i = 0; i < n; ++i)
            {
                x = static_cast<unsigned char>(x ^ p[i]);
            }
            sink = x;
            (void)sink;
        }
    };
    enumerate_faults(k, object, s, reader, header_values::all, &forced);

    c.maxc("stream_bytes", static_cast<int64_t>(s.m_bytes.size()));
    if (payload > 0)
    {
        uint64_t h = vf::hash_str(scalar_name<T>());
        h          = vf::hash_bytes(dims.data(), sizeof(dims), h);
        h          = vf::hash_bytes(t.data(), payload, h);
        c.nontrivial(h);
    }
    if (c.want_sample())
    {
        c.sample(describe().kv("stream_bytes", static_cast<unsigned long long>(s.m_bytes.size())));
    }
}

template <class T>
void tensor_case_rank(vf::ctx_t& c, size_t rank, size_t max_payload)
{
    switch (rank)
    {
    case 1: tensor_case<T, 1>(c, max_payload); break;
    case 2: tensor_case<T, 2>(c, max_payload); break;
    case 3: tensor_case<T, 3>(c, max_payload); break;
    case 4: tensor_case<T, 4>(c, max_payload); break;
    default: tensor_case<T, 5>(c, max_payload); break;
    }
}

void run_tensor_case(vf::ctx_t& c, size_t max_payload)
{
    const auto type = c.rng.integer(0, 9);
    const auto rank = static_cast<size_t>(c.rng.integer(1, 5));
    switch (type)
    {
    case 0: tensor_case_rank<int8_t>(c, rank, max_payload); break;
    case 1: tensor_case_rank<int16_t>(c, rank, max_payload); break;
    case 2: tensor_case_rank<int32_t>(c, rank, max_payload); break;
    case 3: tensor_case_rank<int64_t>(c, rank, max_payload); break;
    case 4: tensor_case_rank<uint8_t>(c, rank, max_payload); break;
    case 5: tensor_case_rank<uint16_t>(c, rank, max_payload); break;
    case 6: tensor_case_rank<uint32_t>(c, rank, max_payload); break;
    case 7: tensor_case_rank<uint64_t>(c, rank, max_payload); break;
    case 8: tensor_case_rank<float>(c, rank, max_payload); break;
    default: tensor_case_rank<double>(c, rank, max_payload); break;
    }
}

//@@OBJECTS@@
//@@MODELS@@
} // namespace

int main(int argc, char** argv)
{
    const auto args        = vf::parse_args(argc, argv);
    const auto max_payload = static_cast<size_t>(std::atoll(args.get("max-payload", "384").c_str()));

    if (args.mode == "tensor")
    {
        return vf::run(args, "C15",
                       "case = one tensor (10 scalar types x rank 1..5 x dims 0..6, payload shrunk to <= max-payload bytes; "
                       "contents: bit patterns | tiny | zero | extremes incl. NaN/inf | moderate | mixed): round trip + view "
                       "write + re-serialisation + EVERY strict prefix + EVERY payload byte x 255 values + EVERY header byte x "
                       "255 values; non-trivial: >= 1 element; distinct by hash(scalar type, dims, content)",
                       [&](vf::ctx_t& c) { run_tensor_case(c, max_payload); });
    }
    std::fprintf(stderr, "unknown mode %s\n", args.mode.c_str());
    return 3;
}
