// C01 - L-BFGS/BFGS solve well-conditioned strongly convex quadratics within a bounded number of evaluations and
//       to the stated accuracy (mode "quadratic", clause a); a `converged` status of any line-search solver is
//       truthful: the independently recomputed max|grad f(x)|/max(1,|f(x)|) is below epsilon (mode "truthful", clause b).
//
// Monitor: the harness owns the function (a counting wrapper around a pure function), so
//   * evaluations are counted by the wrapper, never read from the returned state,
//   * the minimiser of the quadratic handed to the solver is recomputed in extended precision from (A, a),
//   * the convergence criterion is recomputed on a fresh clone of the (unwrapped) function at state.x();
//     state.gradient_test()/state.fx()/state.gx() are never consulted by the oracle.
#include "common/vf.h"
#include <Eigen/Dense>
#include <cstring>
#include <nano/function.h>
#include <nano/solver.h>
#include <ostream>
#include <streambuf>

using namespace nano;

namespace
{
using emat_t = Eigen::MatrixXd;
using evec_t = Eigen::VectorXd;

struct budget_exceeded_t
{
};

///
/// \brief counts the evaluations itself (one per call + one when the gradient is requested) and
///     stops runaway solvers with a harness-private exception (logical watchdog).
///
class counting_function_t final : public function_t
{
public:
    counting_function_t(const function_t& inner, long cap)
        : function_t("counting", inner.size())
        , m_inner(inner.clone())
        , m_cap(cap)
    {
        convex(inner.convex() ? convexity::yes : convexity::no);
        smooth(inner.smooth() ? smoothness::yes : smoothness::no);
        strong_convexity(inner.strong_convexity());
    }

    counting_function_t(const counting_function_t& o)
        : function_t(o)
        , m_inner(o.m_inner->clone())
        , m_cap(o.m_cap)
        , m_f(o.m_f)
        , m_g(o.m_g)
    {
    }

    rfunction_t clone() const override { return std::make_unique<counting_function_t>(*this); }

    scalar_t do_vgrad(vector_cmap_t x, vector_map_t gx) const override
    {
        m_f++;
        if (gx.size() == x.size())
        {
            m_g++;
        }
        if (m_f + m_g > m_cap)
        {
            throw budget_exceeded_t{};
        }
        return m_inner->vgrad(x, gx);
    }

    long evaluations() const { return m_f + m_g; }

    rfunction_t  m_inner;
    long         m_cap;
    mutable long m_f{0}, m_g{0};
};

///
/// \brief harness-owned smooth functions with known structure (pure: the value depends on x only).
///
///     quadratic: f(x) = 0.5 x'Ax + a'x + offset                     (A symmetric positive definite)
///     log1p:     f(x) = scale * log(1 + 0.5 (x-c)'A(x-c)) + offset  (non-convex, bounded below, minimiser c)
///     rayleigh:  f(x) = x'Bx / (1 + x'x) + offset                   (B symmetric indefinite, bounded, saddles)
///
class harness_function_t final : public function_t
{
public:
    enum class kind_t
    {
        quadratic,
        log1p,
        rayleigh
    };

    harness_function_t(kind_t kind, emat_t A, evec_t a, double scale, double offset, double lmin)
        : function_t(kind == kind_t::quadratic ? "h-quadratic" : (kind == kind_t::log1p ? "h-log1p" : "h-rayleigh"), A.rows())
        , m_kind(kind)
        , m_A(std::move(A))
        , m_a(std::move(a))
        , m_scale(scale)
        , m_offset(offset)
    {
        convex(kind == kind_t::quadratic ? convexity::yes : convexity::no);
        smooth(smoothness::yes);
        strong_convexity(kind == kind_t::quadratic ? lmin : 0.0);
    }

    rfunction_t clone() const override { return std::make_unique<harness_function_t>(*this); }

    scalar_t do_vgrad(vector_cmap_t x, vector_map_t gx) const override
    {
        const bool with_grad = gx.size() == x.size();
        switch (m_kind)
        {
        case kind_t::quadratic:
        {
            const evec_t Ax = m_A * x.vector();
            if (with_grad)
            {
                gx.vector() = Ax + m_a;
            }
            return 0.5 * x.vector().dot(Ax) + m_a.dot(x.vector()) + m_offset;
        }
        case kind_t::log1p:
        {
            const evec_t d  = x.vector() - m_a;
            const evec_t Ad = m_A * d;
            const double q  = 0.5 * d.dot(Ad);
            if (with_grad)
            {
                gx.vector() = (m_scale / (1.0 + q)) * Ad;
            }
            return m_scale * std::log1p(q) + m_offset;
        }
        default:
        {
            const evec_t Bx = m_A * x.vector();
            const double xx = x.vector().squaredNorm();
            const double r  = x.vector().dot(Bx) / (1.0 + xx);
            if (with_grad)
            {
                gx.vector() = (2.0 / (1.0 + xx)) * (Bx - r * x.vector());
            }
            return r + m_offset;
        }
        }
    }

    kind_t m_kind;
    emat_t m_A;
    evec_t m_a; ///< linear term (quadratic) or centre (log1p)
    double m_scale{1.0};
    double m_offset{0.0};
};

///
/// \brief stream buffer that only counts the "[solver-<id>]: <state>" lines written by solver_t::done
///     (one for the initial state + one per line search) - used for the non-triviality rule only.
///
class iteration_counter_t final : public std::streambuf
{
public:
    long solver_lines{0};

protected:
    int_type overflow(int_type ch) override { return traits_type::not_eof(ch); }

    std::streamsize xsputn(const char* s, std::streamsize n) override
    {
        if (n >= 8 && std::memcmp(s, "[solver-", 8) == 0)
        {
            ++solver_lines;
        }
        return n;
    }
};

const char* status_name(const solver_status status)
{
    switch (status)
    {
    case solver_status::converged: return "converged";
    case solver_status::max_iters: return "max_iters";
    case solver_status::failed: return "failed";
    default: return "other";
    }
}

uint64_t hash_vec(const evec_t& v, uint64_t h)
{
    return vf::hash_bytes(v.data(), static_cast<size_t>(v.size()) * sizeof(double), h);
}

uint64_t hash_mat(const emat_t& m, uint64_t h)
{
    return vf::hash_bytes(m.data(), static_cast<size_t>(m.size()) * sizeof(double), h);
}

///
/// \brief A = s * Q * diag(spectrum) * Q', Q from the Householder QR of a Gaussian matrix.
///
emat_t make_spd(vf::rng_t& rng, const evec_t& spectrum, const double s)
{
    const auto n = spectrum.size();
    emat_t     M(n, n);
    for (Eigen::Index i = 0; i < n; ++i)
    {
        for (Eigen::Index j = 0; j < n; ++j)
        {
            M(i, j) = rng.normal();
        }
    }
    const Eigen::HouseholderQR<emat_t> qr(M);
    const emat_t                       Q = qr.householderQ();
    emat_t                             A = s * (Q * spectrum.asDiagonal() * Q.transpose());
    A                                    = (0.5 * (A + A.transpose())).eval();
    return A;
}

///
/// \brief spectrum with sigma_1 = 1, sigma_n = kappa and the interior log-uniform or clustered.
///
evec_t make_spectrum(vf::rng_t& rng, const Eigen::Index n, const double kappa, std::string& how)
{
    evec_t spectrum(n);
    spectrum(0) = 1.0;
    if (n > 1)
    {
        spectrum(n - 1) = kappa;
    }
    const auto r = rng.integer(0, 9);
    how          = r < 5 ? "log-uniform" : (r < 8 ? "clustered" : "geometric");
    const double centres[3] = {1.0, kappa, std::pow(kappa, rng.u01())};
    for (Eigen::Index i = 1; i + 1 < n; ++i)
    {
        if (r < 5)
        {
            spectrum(i) = std::pow(kappa, rng.u01());
        }
        else if (r < 8)
        {
            spectrum(i) = centres[rng.integer(0, 2)];
        }
        else
        {
            spectrum(i) = std::pow(kappa, static_cast<double>(i) / static_cast<double>(n - 1));
        }
        spectrum(i) = std::min(kappa, std::max(1.0, spectrum(i)));
    }
    return spectrum;
}

///
/// \brief the recomputed convergence criterion at x, on a fresh clone of the user function.
///
struct criterion_t
{
    double   f{0};
    double   ginf{0};
    double   test{0};
    vector_t g;
};

criterion_t recompute(const function_t& function, const vector_t& x)
{
    const auto  fresh = function.clone();
    criterion_t c;
    c.g    = vector_t{x.size()};
    c.f    = fresh->vgrad(x, c.g);
    c.ginf = 0.0;
    bool nan = false;
    for (tensor_size_t i = 0; i < c.g.size(); ++i)
    {
        const double v = std::fabs(c.g(i));
        nan            = nan || std::isnan(v);
        c.ginf         = std::max(c.ginf, v);
    }
    c.test = nan ? std::nan("") : c.ginf / std::max(1.0, std::fabs(c.f));
    return c;
}

const std::vector<std::string>& line_search_solver_ids()
{
    // the 17 solvers of the statement; every one must be registered with type() == line_search
    static const std::vector<std::string> ids = {"gd",      "cgd-n",    "cgd-hs",   "cgd-fr",   "cgd-pr", "cgd-cd",
                                                  "cgd-ls",  "cgd-dy",   "cgd-dycd", "cgd-dyhs", "cgd-frpr", "lbfgs",
                                                  "bfgs",    "dfp",      "sr1",      "hoshino",  "fletcher"};
    return ids;
}

// ------------------------------------------------------------------------------------------------------------------
// clause (a)

void case_quadratic(vf::ctx_t& c)
{
    auto& rng = c.rng;
    nano::verif::rng_seed().store(c.seed | 1U);

    const double epsilon = 1e-8;
    const auto   n       = static_cast<Eigen::Index>(rng.integer(1, 16));
    const bool   forced  = (c.index % 16) == 0; // end points of the (kappa, s) ranges every 16th case
    double       kappa   = forced ? (rng.chance(0.5) ? 1e3 : 1.0) : rng.loguniform(1.0, 1e3);
    const double s       = forced ? (rng.chance(0.5) ? 1e3 : 1e-3) : rng.loguniform(1e-3, 1e3);
    if (n == 1)
    {
        kappa = 1.0;
    }
    std::string  spectrum_kind;
    const evec_t spectrum = make_spectrum(rng, n, kappa, spectrum_kind);
    const emat_t A        = make_spd(rng, spectrum, s);
    const double lmin     = s * spectrum.minCoeff();

    // minimiser anywhere in [-5,5]^n
    evec_t      xs(n);
    const auto  xs_kind_r = rng.integer(0, 19);
    const char* xs_kind   = xs_kind_r < 16 ? "uniform" : (xs_kind_r < 18 ? "corner" : (xs_kind_r < 19 ? "zero" : "sparse"));
    for (Eigen::Index i = 0; i < n; ++i)
    {
        const double u = rng.uniform(-5.0, 5.0);
        const bool   b = rng.chance(0.5);
        const bool   k = rng.chance(0.25);
        xs(i)          = xs_kind_r < 16 ? u : (xs_kind_r < 18 ? (b ? 5.0 : -5.0) : (xs_kind_r < 19 ? 0.0 : (k ? u : 0.0)));
    }
    const evec_t a = -(A * xs);

    // start anywhere in [-10,10]^n
    evec_t      x0(n);
    const auto  x0_kind_r = rng.integer(0, 19);
    const char* x0_kind   = x0_kind_r < 12 ? "uniform"
                          : x0_kind_r < 15 ? "corner"
                          : x0_kind_r < 16 ? "face"
                          : x0_kind_r < 17 ? "at-minimiser"
                          : x0_kind_r < 18 ? "one-ulp-from-minimiser"
                                           : "near-minimiser";
    const double near = std::pow(10.0, -rng.uniform(1.0, 9.0));
    for (Eigen::Index i = 0; i < n; ++i)
    {
        const double u = rng.uniform(-10.0, 10.0);
        const bool   b = rng.chance(0.5);
        const bool   k = rng.chance(0.3);
        const double d = rng.uniform(-1.0, 1.0);
        switch (x0_kind_r < 12 ? 0 : x0_kind_r < 15 ? 1 : x0_kind_r < 16 ? 2 : x0_kind_r < 17 ? 3 : x0_kind_r < 18 ? 4 : 5)
        {
        case 0: x0(i) = u; break;
        case 1: x0(i) = b ? 10.0 : -10.0; break;
        case 2: x0(i) = k ? (b ? 10.0 : -10.0) : u; break;
        case 3: x0(i) = xs(i); break;
        case 4: x0(i) = k ? std::nextafter(xs(i), b ? 100.0 : -100.0) : xs(i); break;
        default: x0(i) = std::min(10.0, std::max(-10.0, xs(i) + near * d)); break;
        }
    }
    if (x0_kind_r == 17)
    {
        // at least one coordinate really moves
        const auto i = static_cast<Eigen::Index>(rng.integer(0, n - 1));
        x0(i)        = std::nextafter(xs(i), rng.chance(0.5) ? 100.0 : -100.0);
    }

    // solver configuration
    const bool        lbfgs  = rng.chance(0.5);
    const std::string id     = lbfgs ? "lbfgs" : "bfgs";
    auto              solver = solver_t::all().get(id);
    if (!solver)
    {
        c.violation("C01|quadratic|solver-missing|" + id, vf::json_t().kv("solver", id));
        return;
    }
    solver->parameter("solver::epsilon")   = epsilon;
    solver->parameter("solver::max_evals") = 100000; // 1500 is observed, not enforced
    std::string config;
    // the statement is about the solvers as registered (memory 20 / identity start); a larger memory and the scaled
    // start are judged by every clause as well (the design asks for them, they hold with a 3x margin), a reduced
    // memory (1, 5) legitimately needs more evaluations (up to 3e4 observed for x* = 0): there only the clauses that
    // hold for any configuration are judged (truthful status, distance bound once converged).
    bool judged_budget = true;
    if (lbfgs)
    {
        const auto    r                             = rng.integer(0, 19);
        const int64_t history                       = r < 11 ? 20 : (r < 14 ? 1000 : (r < 17 ? 5 : 1));
        solver->parameter("solver::lbfgs::history") = history;
        config                                      = "history=" + std::to_string(history);
        judged_budget                               = history >= 20;
    }
    else
    {
        const std::string init                            = rng.chance(0.6) ? "identity" : "scaled";
        solver->parameter("solver::quasi::initialization") = init;
        config                                            = "init=" + init;
    }

    const harness_function_t function(harness_function_t::kind_t::quadratic, A, a, 1.0, 0.0, lmin);
    // logical watchdog: 20x the allowed budget (where no budget is claimed the solver's own max_evals ends the run)
    const counting_function_t counted(function, judged_budget ? 20L * 1500L : 120000L);

    vector_t vx0{static_cast<tensor_size_t>(n)};
    vx0.vector() = x0;

    const auto witness = [&]()
    {
        vf::json_t j;
        j.kv("solver", id).kv("config", config).kv("n", static_cast<long long>(n)).kv("kappa", kappa).kv("s", s);
        j.kv("lambda_min", lmin).kv("spectrum_kind", spectrum_kind).kv("xstar_kind", xs_kind).kv("x0_kind", x0_kind);
        j.arr("spectrum", spectrum.data(), static_cast<size_t>(n));
        j.arr("xstar", xs.data(), static_cast<size_t>(n));
        j.arr("x0", x0.data(), static_cast<size_t>(n));
        return j;
    };

    solver_state_t state;
    bool           capped = false;
    try
    {
        state = solver->minimize(counted, vx0, make_null_logger());
    }
    catch (const budget_exceeded_t&)
    {
        capped = true;
    }
    const long evals = counted.evaluations();
    c.count("a_runs");
    c.count(std::string("a_runs:") + id + ":" + config);
    c.maxc("a_evaluations", evals);
    c.maxc("a_evaluations:" + id + ":" + config, evals);

    if (judged_budget)
    {
        // clause: at most 1500 function+gradient evaluations (counted by the wrapper)
        c.count("a_clause_evaluations");
        if (capped || evals > 1500)
        {
            c.violation("C01|quadratic|evaluations|" + id,
                        witness().kv("evaluations", static_cast<long long>(evals)).kv("allowed", 1500).kv("stopped_by_watchdog", capped));
        }
        if (capped)
        {
            return;
        }

        // clause: status converged
        c.count("a_clause_status");
        if (state.status() != solver_status::converged)
        {
            c.violation("C01|quadratic|not-converged|" + id,
                        witness().kv("status", status_name(state.status())).kv("evaluations", static_cast<long long>(evals)));
        }
    }
    else
    {
        c.count("a_reduced_memory_runs");
        if (capped)
        {
            c.inconclusive("reduced-memory-watchdog");
            return;
        }
        c.count(std::string("a_reduced_memory_status:") + status_name(state.status()));
        c.count(evals > 1500 ? "a_reduced_memory_above_1500_evaluations" : "a_reduced_memory_within_1500_evaluations");
    }

    if (state.x().size() != static_cast<tensor_size_t>(n))
    {
        c.violation("C01|quadratic|dimension|" + id, witness().kv("got", static_cast<long long>(state.x().size())));
        return;
    }

    // independent recomputation at the returned point
    const auto crit = recompute(function, state.x());

    // clause: a converged status is truthful (the second sentence of the statement, on this class as well)
    if (state.status() == solver_status::converged)
    {
        c.count("a_clause_truthful");
        if (!(crit.test < epsilon))
        {
            c.violation("C01|truthful|" + id,
                        witness().kv("recomputed_test", crit.test).kv("epsilon", epsilon).kv("f", crit.f).kv("ginf", crit.ginf)
                            .kv("function", "h-quadratic(a)").vec("x", state.x()));
        }
    }

    // clause: ||x - x*||_2 <= sqrt(n) * epsilon * max(1, |f(x)|) / lambda_min, where x* is the minimiser of the
    // quadratic that was handed to the solver (A, a in double), recomputed in extended precision
    // (judged on converged results; a result that is not converged has been reported above)
    if (state.status() == solver_status::converged)
    {
        using lmat_t = Eigen::Matrix<long double, Eigen::Dynamic, Eigen::Dynamic>;
        using lvec_t = Eigen::Matrix<long double, Eigen::Dynamic, 1>;
        const lmat_t AL   = A.cast<long double>();
        const lvec_t aL   = a.cast<long double>();
        const lvec_t xsL  = AL.ldlt().solve(-aL);
        const lvec_t resL = AL * xsL + aL;
        const lvec_t xL   = state.x().vector().cast<long double>();
        const auto   err  = static_cast<double>((xL - xsL).norm());
        const auto   ref_residual = static_cast<double>(resL.cwiseAbs().maxCoeff());
        // the bound is exact mathematics for the exact gradient; the solver can only test the gradient that the
        // (harness-owned) function computes in double, whose rounding error is at most gamma (standard bound for
        // A*x+a); gamma is below 1e-2 of epsilon*max(1,|f|) in the worst corner of the class, typically 1e-6 of it
        const evec_t xabs  = state.x().vector().cwiseAbs();
        const double gamma = 4.0 * static_cast<double>(n + 2) * 1.1102230246251565e-16 *
                             (A.cwiseAbs() * xabs + a.cwiseAbs()).maxCoeff();
        const double exact = std::sqrt(static_cast<double>(n)) * epsilon * std::max(1.0, std::fabs(crit.f)) / lmin;
        const double bound = std::sqrt(static_cast<double>(n)) * (epsilon * std::max(1.0, std::fabs(crit.f)) + gamma) / lmin;
        c.count("a_clause_distance");
        c.maxc("a_gamma_over_threshold_ppm", static_cast<int64_t>(std::min(1e9, 1e6 * (bound - exact) / exact)));
        // 1e-9: rounding of the oracle's own arithmetic (lambda_min of the rounded A, f in double)
        if (!(err <= bound * (1.0 + 1e-9)))
        {
            c.violation("C01|quadratic|distance|" + id,
                        witness().kv("error", err).kv("bound", bound).kv("bound_exact_arithmetic", exact).kv("f", crit.f).kv("recomputed_test", crit.test)
                            .kv("status", status_name(state.status())).kv("evaluations", static_cast<long long>(evals))
                            .kv("reference_residual", ref_residual).vec("x", state.x()));
        }
        c.maxc("a_error_over_bound_permille", static_cast<int64_t>(std::min(1e9, 1000.0 * err / exact)));
    }

    if (evals >= 3)
    {
        uint64_t h = vf::hash_str(id.c_str());
        h          = vf::hash_str(config.c_str()) ^ vf::mix(h, 1);
        h          = hash_mat(A, h);
        h          = hash_vec(a, h);
        h          = hash_vec(x0, h);
        c.nontrivial(h);
    }
    else
    {
        c.count("a_trivial_start");
    }
    if (c.want_sample())
    {
        c.sample(witness().kv("status", status_name(state.status())).kv("evaluations", static_cast<long long>(evals))
                     .kv("recomputed_test", crit.test).kv("f", crit.f));
    }
}

// ------------------------------------------------------------------------------------------------------------------
// clause (b)

struct function_pool_t
{
    rfunctions_t              registered; ///< every registered smooth function at dims {1,2,3,4,8,16,32}
    std::vector<std::string>  names;
};

const function_pool_t& pool()
{
    static const function_pool_t p = []()
    {
        function_pool_t q;
        for (const tensor_size_t summands : {tensor_size_t{20}, tensor_size_t{100}})
        {
            auto fs = function_t::make({1, 32, convexity::ignore, smoothness::yes, summands}, std::regex(".+"));
            for (auto& f : fs)
            {
                if (f && f->smooth())
                {
                    q.names.push_back(f->name() + "/" + std::to_string(summands));
                    q.registered.push_back(std::move(f));
                }
            }
        }
        return q;
    }();
    return p;
}

void case_truthful(vf::ctx_t& c)
{
    auto& rng = c.rng;
    nano::verif::rng_seed().store(c.seed | 1U);

    // the function
    rfunction_t owned;
    std::string fname;
    uint64_t    fhash     = 0;
    const auto& registered = pool();
    if (rng.chance(0.65))
    {
        const auto i = static_cast<size_t>(rng.integer(0, static_cast<int64_t>(registered.registered.size()) - 1));
        owned        = registered.registered[i]->clone();
        fname        = registered.names[i];
        fhash        = vf::hash_str(fname.c_str());
    }
    else
    {
        const auto   n     = static_cast<Eigen::Index>(rng.pick(std::vector<int64_t>{1, 2, 3, 4, 8, 16, 32, rng.integer(1, 32)}));
        const auto   kr    = rng.integer(0, 9);
        const auto   kind  = kr < 5 ? harness_function_t::kind_t::quadratic
                           : kr < 8 ? harness_function_t::kind_t::log1p
                                    : harness_function_t::kind_t::rayleigh;
        const double kappa = (n == 1) ? 1.0 : rng.loguniform(1.0, rng.chance(0.7) ? 1e3 : 1e6);
        const double s     = rng.loguniform(1e-3, 1e3);
        // the value at the minimiser lands anywhere in about [-100,100]: the normalisation max(1,|f|) matters
        const double offset = rng.chance(0.25) ? 0.0 : (rng.chance(0.5) ? 1.0 : -1.0) * rng.loguniform(0.1, 100.0);
        std::string  how;
        evec_t       spectrum = make_spectrum(rng, n, kappa, how);
        evec_t       centre(n);
        for (Eigen::Index i = 0; i < n; ++i)
        {
            centre(i) = rng.uniform(-5.0, 5.0);
        }
        if (kind == harness_function_t::kind_t::rayleigh)
        {
            // indefinite: flip the sign of some eigenvalues
            for (Eigen::Index i = 0; i < n; ++i)
            {
                spectrum(i) = rng.chance(0.5) ? -spectrum(i) : spectrum(i);
            }
        }
        const emat_t A = make_spd(rng, spectrum, kind == harness_function_t::kind_t::rayleigh ? std::min(s, 1e3 / kappa) : s);
        if (kind == harness_function_t::kind_t::quadratic)
        {
            const evec_t a  = -(A * centre);
            const double f0 = -0.5 * centre.dot(A * centre); // value at the minimiser without offset
            owned = std::make_unique<harness_function_t>(kind, A, a, 1.0, offset - f0, s * spectrum.minCoeff());
        }
        else if (kind == harness_function_t::kind_t::log1p)
        {
            owned = std::make_unique<harness_function_t>(kind, A, centre, rng.loguniform(1e-2, 1e2), offset, 0.0);
        }
        else
        {
            owned = std::make_unique<harness_function_t>(kind, A, centre, 1.0, offset, 0.0);
        }
        fname = owned->name();
        fhash = hash_mat(A, vf::hash_str(fname.c_str()));
        fhash = hash_vec(centre, fhash);
        fhash = vf::hash_double(offset, fhash);
    }
    const function_t& function = *owned;
    const auto        n        = function.size();

    // the solver and its configuration
    const auto& ids    = line_search_solver_ids();
    const auto  id     = rng.pick(ids);
    auto        solver = solver_t::all().get(id);
    if (!solver || solver->type() != solver_type::line_search)
    {
        c.violation("C01|truthful|not-a-line-search-solver|" + id, vf::json_t().kv("solver", id));
        return;
    }
    const auto l0ids = lsearch0_t::all().ids();
    const auto lkids = lsearchk_t::all().ids();
    const auto l0    = rng.pick(l0ids);
    const auto lk    = rng.pick(lkids);
    solver->lsearch0(l0);
    solver->lsearchk(lk);

    // solver-specific parameters, inside their declared domains (the implication must hold for any of them)
    std::string specific = "default";
    if (rng.chance(0.3))
    {
        if (id == "lbfgs")
        {
            const int64_t history                       = rng.chance(0.3) ? rng.pick(std::vector<int64_t>{1, 2, 1000}) : rng.integer(1, 50);
            solver->parameter("solver::lbfgs::history") = history;
            specific                                    = "history=" + std::to_string(history);
        }
        else if (id.rfind("cgd", 0) == 0)
        {
            const double orthotest                       = rng.chance(0.5) ? rng.loguniform(1e-6, 0.999) : rng.uniform(1e-3, 0.999);
            solver->parameter("solver::cgd::orthotest") = orthotest;
            specific                                     = "orthotest=" + vf::json_t::num(orthotest);
            if (id == "cgd-n")
            {
                const double eta                        = rng.loguniform(1e-6, 1e5);
                solver->parameter("solver::cgdN::eta") = eta;
                specific += ",eta=" + vf::json_t::num(eta);
            }
        }
        else if (id != "gd")
        {
            const std::string init                            = rng.chance(0.5) ? "identity" : "scaled";
            solver->parameter("solver::quasi::initialization") = init;
            specific                                          = "init=" + init;
            if (id == "sr1")
            {
                const double r                              = rng.loguniform(1e-12, 0.5);
                solver->parameter("solver::quasi::sr1::r") = r;
                specific += ",r=" + vf::json_t::num(r);
            }
        }
    }

    bool   default_tolerance = rng.chance(0.25);
    double c1 = 0, c2 = 0;
    if (!default_tolerance)
    {
        // 0 < c1 < c2 < 1, log-uniform towards both ends
        c1 = rng.loguniform(1e-8, 0.9);
        c2 = rng.chance(0.5) ? rng.uniform(c1, 1.0) : 1.0 - rng.loguniform(1e-6, 1.0 - c1);
        if (!(c1 > 0.0 && c1 < c2 && c2 < 1.0))
        {
            c2 = 0.5 * (c1 + 1.0);
        }
        solver->parameter("solver::tolerance") = std::make_tuple(c1, c2);
    }
    else
    {
        std::tie(c1, c2) = solver->parameter("solver::tolerance").value_pair<scalar_t>();
    }
    const double  epsilon   = rng.chance(0.1) ? rng.pick(std::vector<double>{1e-12, 1e-10, 1e-8, 1e-6, 1e-4, 1e-2}) : rng.loguniform(1e-12, 1e-2);
    const int64_t max_evals = rng.chance(0.7) ? rng.integer(10, 5000) : static_cast<int64_t>(rng.loguniform(10.0, 5000.0));
    solver->parameter("solver::epsilon")   = epsilon;
    solver->parameter("solver::max_evals") = max_evals;

    // the start
    const double radius = rng.loguniform(1e-3, 10.0);
    vector_t     x0{n};
    for (tensor_size_t i = 0; i < n; ++i)
    {
        x0(i) = radius * rng.uniform(-1.0, 1.0);
    }

    const auto witness = [&]()
    {
        vf::json_t j;
        j.kv("solver", id).kv("specific", specific).kv("lsearch0", l0).kv("lsearchk", lk).kv("c1", c1).kv("c2", c2).kv("default_tolerance", default_tolerance);
        j.kv("epsilon", epsilon).kv("max_evals", static_cast<long long>(max_evals)).kv("function", fname);
        j.kv("n", static_cast<long long>(n)).kv("radius", radius).vec("x0", x0);
        return j;
    };

    {
        vector_t   g0{n};
        const auto f0 = function.clone()->vgrad(x0, g0);
        if (!std::isfinite(f0) || !g0.all_finite())
        {
            c.inconclusive("non-finite-start");
            return;
        }
    }

    const long                cap = 50L * (static_cast<long>(max_evals) + 1100L + 8L * static_cast<long>(n));
    const counting_function_t counted(function, cap);
    iteration_counter_t       counter;
    std::ostream              stream(&counter);
    const auto                logger = make_stream_logger(stream);

    solver_state_t state;
    try
    {
        state = solver->minimize(counted, x0, logger);
    }
    catch (const budget_exceeded_t&)
    {
        // not this property's business (C02 judges the budget); nothing was returned to judge
        c.inconclusive("evaluation-watchdog");
        return;
    }
    const long evals        = counted.evaluations();
    const long line_searchs = std::max(0L, counter.solver_lines - 1);
    const auto status       = state.status();
    c.count("b_runs");
    c.count(std::string("b_status:") + status_name(status));
    c.count("b_lsearchk:" + lk);
    c.count("b_lsearch0:" + l0);
    c.maxc("b_evaluations", evals);

    if (status != solver_status::converged)
    {
        // a solver not converging is not a violation of this property
        if (c.want_sample() && c.args.verbose)
        {
            c.sample(witness().kv("status", status_name(status)).kv("evaluations", static_cast<long long>(evals)));
        }
        return;
    }

    c.count("b_clause_truthful");
    c.count("b_converged:" + id);
    if (state.x().size() != n)
    {
        c.violation("C01|truthful|dimension|" + id, witness().kv("got", static_cast<long long>(state.x().size())));
        return;
    }
    const auto crit = recompute(function, state.x());
    if (!(crit.test < epsilon))
    {
        c.violation("C01|truthful|" + id,
                    witness().kv("recomputed_test", crit.test).kv("test_over_epsilon", crit.test / epsilon).kv("f", crit.f)
                        .kv("ginf", crit.ginf).kv("evaluations", static_cast<long long>(evals))
                        .kv("line_searches", static_cast<long long>(line_searchs)).vec("x", state.x()));
    }
    if (crit.test >= 0.5 * epsilon)
    {
        c.count("b_converged_within_factor_2_of_epsilon");
    }
    if (std::fabs(crit.f) > 1.0)
    {
        c.count("b_converged_with_|f|>1");
    }

    if (line_searchs >= 2)
    {
        uint64_t h = vf::mix(fhash, vf::hash_str(id.c_str()));
        h          = vf::mix(h, vf::hash_str(l0.c_str()));
        h          = vf::mix(h, vf::hash_str(lk.c_str()));
        h          = vf::mix(h, vf::hash_str(specific.c_str()));
        h          = vf::hash_double(c1, h);
        h          = vf::hash_double(c2, h);
        h          = vf::hash_double(epsilon, h);
        h          = vf::mix(h, static_cast<uint64_t>(max_evals));
        h          = vf::hash_bytes(x0.data(), static_cast<size_t>(n) * sizeof(double), h);
        c.nontrivial(h);
    }
    else
    {
        c.count("b_converged_in_less_than_2_line_searches");
    }
    if (c.want_sample())
    {
        c.sample(witness().kv("status", status_name(status)).kv("evaluations", static_cast<long long>(evals))
                     .kv("line_searches", static_cast<long long>(line_searchs)).kv("recomputed_test", crit.test).kv("f", crit.f));
    }
}
} // namespace

int main(int argc, char** argv)
{
    const auto args = vf::parse_args(argc, argv);
    if (args.mode == "quadratic")
    {
        return vf::run(args, "C01",
                       "case = one quadratic 0.5x'Ax+a'x (n in 1..16, A = s*Q*diag(spectrum)*Q', kappa in [1,1e3], s in [1e-3,1e3], "
                       "end points forced every 16th case, minimiser in [-5,5]^n, start in [-10,10]^n incl. corners / at / one ulp "
                       "from the minimiser) minimised by lbfgs (history 20|1000; 1|5 without the evaluation/status clauses) or bfgs (identity|scaled) at "
                       "epsilon=1e-8, max_evals=1e5; "
                       "non-trivial: the solver needed >= 3 evaluations (wrapper count); distinct by hash(solver, config, A, a, x0)",
                       case_quadratic);
    }
    if (args.mode == "truthful")
    {
        (void)pool();
        return vf::run(args, "C01",
                       "case = (one of the 17 line-search solvers, solver-specific parameters fuzzed in 30%) x lsearch0 x lsearchk x (c1,c2) x epsilon in [1e-12,1e-2] x "
                       "max_evals in [10,5000] x (registered smooth function at dims 1..32 | harness quadratic / log1p-quadratic / "
                       "bounded indefinite Rayleigh quotient with offsets) x start of radius 1e-3..10; non-trivial: status "
                       "converged after >= 2 line searches; distinct by hash(function, solver, lsearch0, lsearchk, c1, c2, epsilon, "
                       "max_evals, x0)",
                       case_truthful);
    }
    std::fprintf(stderr, "c01_lbfgs: unknown mode '%s' (quadratic|truthful)\n", args.mode.c_str());
    return 3;
}
