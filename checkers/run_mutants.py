#!/usr/bin/env python3
"""usage: checkers/run_mutants.py <PID> checkers/mutants/<PID>.json [tier] : apply each mutant (list of {name, file, old, new}) to a scratch worktree, run the quick check, report."""
import json, os, subprocess, sys, shutil
pid, spec = sys.argv[1], json.load(open(sys.argv[2]))
tier = sys.argv[3] if len(sys.argv) > 3 else "quick"
wt = "/tmp/mut-%s-main" % pid
subprocess.run(["git", "-C", "/repo", "worktree", "remove", "--force", wt], capture_output=True)
subprocess.check_call(["git", "-C", "/repo", "worktree", "add", "--detach", wt, "HEAD"], stdout=subprocess.DEVNULL)
env = dict(os.environ, VERIF_REPO=wt, VERIF_BUILD=wt + "/.vbuild", VERIF_OUT=wt + "/.vout")
results = []
try:
    for m in spec:
        subprocess.check_call(["git", "-C", wt, "checkout", "--", "."])
        for e in m["edits"]:
            path = os.path.join(wt, e["file"])
            s = open(path).read()
            if s.count(e["old"]) != 1:
                print("MUTANT %s: pattern occurs %d times in %s" % (m["name"], s.count(e["old"]), e["file"])); break
            open(path, "w").write(s.replace(e["old"], e["new"]))
        else:
            p = subprocess.run(["/verif/vf", "check", pid, "--tier", tier], env=env, capture_output=True, text=True, cwd="/verif")
            keys = [l.strip() for l in p.stdout.splitlines() if l.strip().startswith("key=")]
            stages = [l.strip() for l in p.stdout.splitlines() if "stage " in l]
            print("MUTANT %-40s exit=%d %s" % (m["name"], p.returncode, " ; ".join(k[:110] for k in keys[:4])), flush=True)
            for s in stages: print("      " + s[:160])
            if p.returncode not in (0, 1): print(p.stdout[-1500:])
            results.append((m["name"], p.returncode, keys))
finally:
    subprocess.run(["git", "-C", "/repo", "worktree", "remove", "--force", wt], capture_output=True)
    shutil.rmtree(wt, ignore_errors=True)
print("SUMMARY %s: %d/%d detected" % (pid, sum(1 for r in results if r[1] == 1), len(results)))
