// C04 - primal-dual interior-point solver for linear / convex quadratic programs: `converged` means feasible and
// optimal for the program as the caller stated it; `converged` is never reported for an infeasible / unbounded program.
//
// Monitor: the returned (status, x, fx, u, v) at the API boundary, judged against the caller's own (Q,c,A,b,G,h).
// Oracles (none of them asks the solver for the expected answer):
//   mode kkt     - programs whose optimum (x*, f*) is fixed by KKT construction (random active sets, rank-deficient
//                  Q = D'D, magnitudes 1e-2..1e2 per block) plus equivalent restatements judged against the mapped (x*, f*);
//   mode status  - programs that are infeasible / unbounded by an exact construction (contradictory half-spaces,
//                  inconsistent equalities, Farkas combinations, recession directions d with Gd<0, Ad=0, Qd=0, c.d<0
//                  built from small integers so that the certificates hold in exact arithmetic);
//   mode integer - small integer programs (n<=3, <=6 inequalities) whose feasibility, boundedness and optimum are
//                  decided exactly inside the harness (Fourier-Motzkin over __int128, KKT/active-set enumeration over
//                  rational numbers).
// Non-convergence is never a violation.
#include "common/vf.h"
#include <Eigen/Dense>
#include <algorithm>
#include <array>
#include <map>
#include <nano/program/solver.h>
#include <numeric>
#include <optional>
#include <set>

using namespace nano;
using namespace nano::program;

namespace
{
using evec_t = Eigen::VectorXd;
using emat_t = Eigen::MatrixXd;

// ------------------------------------------------------------------------------------------------------------------
// the program as the caller states it
// ------------------------------------------------------------------------------------------------------------------
struct prog_t
{
    bool   qp{false};
    emat_t Q; ///< n x n (all zeros for a linear program)
    evec_t c;
    emat_t A; ///< p x n
    evec_t b;
    emat_t G; ///< m x n
    evec_t h;
    bool   box{false}; ///< the first 2n inequality rows are x <= upper, -x <= -lower: stated with make_less / make_greater

    int n() const { return static_cast<int>(c.size()); }

    int p() const { return static_cast<int>(A.rows()); }

    int m() const { return static_cast<int>(G.rows()); }
};

struct ref_t
{
    bool   has_f{false};
    bool   has_x{false};
    bool   f_is_f_of_xstar{false}; ///< f* is by definition the objective at xstar (KKT construction): no separate value
    double fstar{0};
    evec_t xstar;
};

const char* status_name(const solver_status s)
{
    switch (s)
    {
    case solver_status::converged: return "converged";
    case solver_status::max_iters: return "max_iters";
    case solver_status::failed: return "failed";
    case solver_status::unfeasible: return "unfeasible";
    case solver_status::unbounded: return "unbounded";
    default: return "other";
    }
}

///
/// \brief state the program through the public API and solve it. `how` (random bits of the case) selects how the caller
///     states the constraints: one block per kind, or inequalities / equalities split into two interleaved blocks
///     (exercises program::stack), or bounds through make_less / make_greater (when P.box).
///
solver_state_t solve(const prog_t& P, const evec_t* x0, const uint64_t how = 0)
{
    const auto n = P.n(), p = P.p(), m = P.m();
    matrix_t   tQ{n, n};
    vector_t   tc{n}, tx0{n};
    tQ.matrix() = P.Q;
    tc.vector() = P.c;
    if (x0 != nullptr)
    {
        tx0.vector() = *x0;
    }
    const auto rows = [&](const emat_t& M, const evec_t& r, const int from, const int count)
    {
        matrix_t tM{count, n};
        vector_t tr{count};
        tM.matrix() = M.middleRows(from, count);
        tr.vector() = r.segment(from, count);
        return std::make_pair(tM, tr);
    };

    const auto solver = solver_t{};
    const auto logger = make_null_logger();
    const auto run    = [&](const auto& program)
    { return (x0 != nullptr && m > 0) ? solver.solve(program, tx0, logger) : solver.solve(program, logger); };
    const auto go = [&](const auto&... constraints)
    { return P.qp ? run(make_quadratic(tQ, tc, constraints...)) : run(make_linear(tc, constraints...)); };

    if (P.box && m >= 2 * n)
    {
        vector_t upper{n}, lower{n};
        upper.vector()  = P.h.head(n);
        lower.vector()  = -P.h.segment(n, n);
        const auto rest = m - 2 * n;
        const auto R    = rows(P.G, P.h, 2 * n, rest);
        const auto E    = rows(P.A, P.b, 0, p);
        if (p == 0)
        {
            return rest == 0 ? go(make_less(upper), make_greater(lower))
                             : go(make_less(upper), make_inequality(R.first, R.second), make_greater(lower));
        }
        return rest == 0 ? go(make_less(upper), make_equality(E.first, E.second), make_greater(lower))
                         : go(make_greater(lower), make_equality(E.first, E.second), make_inequality(R.first, R.second),
                              make_less(upper));
    }

    const bool si = m >= 2 && (how & 1U) != 0U;
    const bool se = p >= 2 && (how & 2U) != 0U;
    const int  k  = si ? 1 + static_cast<int>((how >> 8U) % static_cast<uint64_t>(m - 1)) : m;
    const int  j  = se ? 1 + static_cast<int>((how >> 24U) % static_cast<uint64_t>(p - 1)) : p;
    const auto I1 = rows(P.G, P.h, 0, k), I2 = rows(P.G, P.h, k, m - k);
    const auto E1 = rows(P.A, P.b, 0, j), E2 = rows(P.A, P.b, j, p - j);
    const auto i1 = make_inequality(I1.first, I1.second), i2 = make_inequality(I2.first, I2.second);
    const auto e1 = make_equality(E1.first, E1.second), e2 = make_equality(E2.first, E2.second);
    if (p == 0)
    {
        return si ? go(i1, i2) : go(i1);
    }
    if (m == 0)
    {
        return se ? go(e1, e2) : go(e1);
    }
    if (!si && !se)
    {
        return (how & 4U) != 0U ? go(i1, e1) : go(e1, i1);
    }
    if (si && !se)
    {
        return go(i1, e1, i2);
    }
    return si ? go(i1, e1, i2, e2) : go(e1, i1, e2);
}

vf::json_t describe(const prog_t& P, const size_t limit = 160)
{
    vf::json_t j;
    j.kv("qp", P.qp).kv("n", P.n()).kv("p", P.p()).kv("m", P.m());
    // row-major dumps (Eigen is column-major)
    const auto dump = [&](const char* name, const emat_t& M)
    {
        std::vector<double> v;
        for (Eigen::Index r = 0; r < M.rows(); ++r)
        {
            for (Eigen::Index k = 0; k < M.cols(); ++k)
            {
                v.push_back(M(r, k));
            }
        }
        j.arr(name, v.data(), v.size(), limit);
    };
    if (P.qp)
    {
        dump("Q_rowmajor", P.Q);
    }
    j.arr("c", P.c.data(), static_cast<size_t>(P.c.size()), limit);
    dump("A_rowmajor", P.A);
    j.arr("b", P.b.data(), static_cast<size_t>(P.b.size()), limit);
    dump("G_rowmajor", P.G);
    j.arr("h", P.h.data(), static_cast<size_t>(P.h.size()), limit);
    return j;
}

uint64_t hash_prog(const prog_t& P)
{
    uint64_t h = vf::hash_bytes(P.c.data(), sizeof(double) * static_cast<size_t>(P.c.size()));
    h          = vf::hash_bytes(P.h.data(), sizeof(double) * static_cast<size_t>(P.h.size()), h);
    h          = vf::hash_bytes(P.b.data(), sizeof(double) * static_cast<size_t>(P.b.size()), h);
    h          = vf::hash_bytes(P.G.data(), sizeof(double) * static_cast<size_t>(P.G.size()), h);
    h          = vf::hash_bytes(P.A.data(), sizeof(double) * static_cast<size_t>(P.A.size()), h);
    if (P.qp)
    {
        h = vf::hash_bytes(P.Q.data(), sizeof(double) * static_cast<size_t>(P.Q.size()), h);
    }
    return vf::mix(h, static_cast<uint64_t>(P.n() * 10000 + P.p() * 100 + P.m()));
}

///
/// \brief the clauses of the statement that apply to a `converged` result; returns true if converged.
///     `tag` names the object (kind of program / restatement) in the violation keys.
///
bool judge(vf::ctx_t& c, const prog_t& P, const solver_state_t& state, const ref_t& ref, const std::string& object,
           const evec_t* x0 = nullptr)
{
    c.count("solves");
    c.count(std::string("status:") + status_name(state.m_status));
    if (state.m_status != solver_status::converged)
    {
        return false;
    }
    c.count("converged");

    const auto n = P.n(), p = P.p(), m = P.m();
    const auto witness = [&](const char* clause, double got, double allowed)
    {
        vf::json_t j;
        j.kv("clause", clause).kv("object", object).kv("got", got).kv("allowed", allowed);
        if (x0 != nullptr)
        {
            j.arr("user_x0", x0->data(), static_cast<size_t>(x0->size()));
        }
        j.kv("fx_reported", state.m_fx).kv("iters", state.m_iters);
        j.vec("x", state.m_x).vec("u", state.m_u).vec("v", state.m_v);
        if (ref.has_f)
        {
            j.kv("fstar", ref.fstar);
        }
        if (ref.has_x)
        {
            j.arr("xstar", ref.xstar.data(), static_cast<size_t>(ref.xstar.size()));
        }
        j.kv("program", describe(P));
        return j;
    };

    if (state.m_x.size() != n)
    {
        c.violation("C04|solution-size|" + object, witness("size", static_cast<double>(state.m_x.size()), n));
        return true;
    }
    const evec_t x = state.m_x.vector();
    if (!x.allFinite())
    {
        c.violation("C04|non-finite-solution|" + object, witness("finite", std::nan(""), 0.0));
        return true;
    }
    // input class of the key: a `converged` point at |x|_inf >= 1e8 (the programs have magnitudes <= 1e2..1e4) has left
    // the range where the solver's own 1e-10 residual tests can be resolved in double precision
    const bool        astronomic = x.cwiseAbs().maxCoeff() >= 1e8;
    const std::string tag        = object + (astronomic ? "|astronomic-x" : "");
    if (astronomic)
    {
        c.count("converged_astronomic_x");
    }

    // All residuals are evaluated in long double together with a rigorous bound on their own rounding error (the solver
    // sometimes returns |x| ~ 1e12 along null-space directions of non-unique optima, where a double evaluation of A x - b
    // is pure noise): a clause is violated only if it fails by more than that bound, and counted as undecided if the
    // tolerance of the statement lies inside the error interval.
    using ld          = long double;
    const ld   ulp    = std::ldexp(1.0L, -63);
    const auto dot_ld = [&](const auto& row, const evec_t& y, ld& mags)
    {
        ld sum = 0.0L;
        for (Eigen::Index j = 0; j < y.size(); ++j)
        {
            const ld t = static_cast<ld>(row(j)) * static_cast<ld>(y(j));
            sum += t;
            mags += std::fabs(t);
        }
        return sum;
    };
    // returns -1 violated for sure, 0 undecided, +1 satisfied for sure
    const auto decide = [](const ld dev, const ld err, const ld tol) { return (dev - err > tol) ? -1 : ((dev + err <= tol) ? 1 : 0); };

    // (1) equalities within 1e-6 (1 + |b|_inf)
    if (p > 0)
    {
        c.count("clause_equality");
        const ld tol   = 1e-6L * (1.0L + static_cast<ld>(P.b.cwiseAbs().maxCoeff()));
        int      worst = 1;
        ld       wdev = 0.0L, werr = 0.0L;
        for (int i = 0; i < p; ++i)
        {
            ld       mags = std::fabs(static_cast<ld>(P.b(i)));
            const ld dev  = std::fabs(dot_ld(P.A.row(i), x, mags) - static_cast<ld>(P.b(i)));
            const ld err  = static_cast<ld>(n + 2) * ulp * mags;
            const int d   = std::isfinite(static_cast<double>(dev)) ? decide(dev, err, tol) : -1;
            if (d < worst || (d == worst && dev > wdev))
            {
                worst = d;
                wdev  = dev;
                werr  = err;
            }
        }
        c.maxc("equality_dev_over_tol_ppm", static_cast<int64_t>(std::min(1e12L, 1e6L * wdev / tol)));
        if (worst < 0)
        {
            auto j = witness("equality", static_cast<double>(wdev), static_cast<double>(tol));
            j.kv("evaluation_error_bound", static_cast<double>(werr));
            c.violation("C04|equality-violated|" + tag, j);
        }
        else if (worst == 0)
        {
            c.count("clause_equality_undecided");
        }
    }
    // (2) inequalities within 1e-6 (1 + |h|_inf)
    if (m > 0)
    {
        c.count("clause_inequality");
        const ld tol   = 1e-6L * (1.0L + static_cast<ld>(P.h.cwiseAbs().maxCoeff()));
        int      worst = 1;
        ld       wdev = 0.0L, werr = 0.0L;
        for (int i = 0; i < m; ++i)
        {
            ld       mags = std::fabs(static_cast<ld>(P.h(i)));
            const ld dev  = dot_ld(P.G.row(i), x, mags) - static_cast<ld>(P.h(i));
            const ld err  = static_cast<ld>(n + 2) * ulp * mags;
            const int d   = std::isfinite(static_cast<double>(dev)) ? decide(dev, err, tol) : -1;
            if (d < worst || (d == worst && dev > wdev))
            {
                worst = d;
                wdev  = dev;
                werr  = err;
            }
        }
        c.maxc("inequality_dev_over_tol_ppm", static_cast<int64_t>(std::min(1e12L, 1e6L * std::max(0.0L, wdev) / tol)));
        if (worst < 0)
        {
            auto j = witness("inequality", static_cast<double>(wdev), static_cast<double>(tol));
            j.kv("evaluation_error_bound", static_cast<double>(werr));
            c.violation("C04|inequality-violated|" + tag, j);
        }
        else if (worst == 0)
        {
            c.count("clause_inequality_undecided");
        }
    }
    // (3) reported objective agrees with the objective at x within 1e-6 of the magnitude of its terms.
    //     f(x) is evaluated in long double; the tolerance is 1e-6 (|1/2 x'Qx| + |c'x| + 1) plus the rounding error that no
    //     double evaluation of f(x) can avoid when the products Q_ij x_i x_j, c_i x_i cancel:
    //     8 (n+2) eps (1/2 |x|'|Q||x| + |c|'|x|), which matters only for |x| ~ 1e5 and beyond.
    {
        c.count("clause_objective");
        ld mags = 0.0L, quad = 0.0L;
        const ld lin = dot_ld(P.c, x, mags);
        if (P.qp)
        {
            for (int i = 0; i < n; ++i)
            {
                ld       rm = 0.0L;
                const ld qx = dot_ld(P.Q.row(i), x, rm);
                quad += 0.5L * static_cast<ld>(x(i)) * qx;
                mags += 0.5L * std::fabs(static_cast<ld>(x(i))) * rm;
            }
        }
        const ld tol = 1e-6L * (std::fabs(quad) + std::fabs(lin) + 1.0L) +
                       8.0L * static_cast<ld>(n + 2) * static_cast<ld>(std::numeric_limits<double>::epsilon()) * mags;
        const ld dev = std::fabs(static_cast<ld>(state.m_fx) - (quad + lin));
        c.maxc("objective_dev_over_tol_ppm", static_cast<int64_t>(std::min(1e12L, 1e6L * dev / tol)));
        if (!(dev <= tol))
        {
            c.violation("C04|reported-objective|" + tag, witness("reported-objective", static_cast<double>(dev), static_cast<double>(tol)));
        }
    }
    // (4) optimality gap against the independently known optimum
    if (ref.has_f && ref.has_x)
    {
        c.count("clause_optimality");
        // f(x) - f(x*) = (c + Q x*).(x - x*) + 1/2 (x - x*)'Q(x - x*): no cancellation of the large values f(x), f(x*)
        evec_t d(n);
        ld     mags = 0.0L;
        for (int i = 0; i < n; ++i)
        {
            d(i) = static_cast<double>(static_cast<ld>(x(i)) - static_cast<ld>(ref.xstar(i)));
            // rounding of d(i) to double: relative 2^-53 of d(i), folded into the error bound below
        }
        ld delta = dot_ld(P.c, d, mags);
        if (P.qp)
        {
            for (int i = 0; i < n; ++i)
            {
                ld       rm1 = 0.0L, rm2 = 0.0L;
                const ld qs  = dot_ld(P.Q.row(i), ref.xstar, rm1);
                const ld qd  = dot_ld(P.Q.row(i), d, rm2);
                delta += static_cast<ld>(d(i)) * (qs + 0.5L * qd);
                mags += std::fabs(static_cast<ld>(d(i))) * (rm1 + 0.5L * rm2);
            }
        }
        // rounding of d to double contributes at most 2^-52 |grad-like terms| |d| <= 2^-52 mags
        ld err = static_cast<ld>(n + 3) * static_cast<ld>(n + 3) * ulp * mags + std::ldexp(1.0L, -52) * mags;
        if (!ref.f_is_f_of_xstar)
        {
            // exact f* (integer mode): add f(x*_double) - f*, evaluated the same way
            ld fm  = 0.0L;
            ld fxs = dot_ld(P.c, ref.xstar, fm);
            if (P.qp)
            {
                for (int i = 0; i < n; ++i)
                {
                    ld       rm = 0.0L;
                    const ld qs = dot_ld(P.Q.row(i), ref.xstar, rm);
                    fxs += 0.5L * static_cast<ld>(ref.xstar(i)) * qs;
                    fm += 0.5L * std::fabs(static_cast<ld>(ref.xstar(i))) * rm;
                }
            }
            delta += fxs - static_cast<ld>(ref.fstar);
            err += static_cast<ld>(n + 3) * static_cast<ld>(n + 3) * ulp * fm + std::ldexp(1.0L, -52) * std::fabs(static_cast<ld>(ref.fstar));
        }
        const ld     gap   = std::fabs(delta);
        const double M     = std::max({1e-3, P.qp ? P.Q.norm() : 0.0, P.c.norm()});
        const double u1    = state.m_u.size() > 0 ? state.m_u.vector().cwiseAbs().sum() : 0.0;
        const double v1    = state.m_v.size() > 0 ? state.m_v.vector().cwiseAbs().sum() : 0.0;
        const double bound = 1e-8 * M * (1.0 + (x - ref.xstar).norm() + u1 + v1);
        c.maxc("optimality_gap_over_bound_ppm", static_cast<int64_t>(std::min(1e12L, 1e6L * gap / static_cast<ld>(bound))));
        const int verdict = (std::isfinite(static_cast<double>(gap)) && std::isfinite(bound)) ? decide(gap, err, static_cast<ld>(bound)) : -1;
        if (verdict < 0)
        {
            auto j = witness("optimality-gap", static_cast<double>(gap), bound);
            j.kv("evaluation_error_bound", static_cast<double>(err));
            c.violation("C04|optimality-gap|" + tag, j);
        }
        else if (verdict == 0)
        {
            c.count("clause_optimality_undecided");
        }
    }
    return true;
}

// ------------------------------------------------------------------------------------------------------------------
// equivalent restatements (floating point: used by the kkt mode; `exact` restricts to transformations that keep
// exact-arithmetic certificates intact: permutations and power-of-two scalings)
// ------------------------------------------------------------------------------------------------------------------
std::vector<int> permutation(vf::rng_t& rng, const int size)
{
    std::vector<int> perm(static_cast<size_t>(size));
    std::iota(perm.begin(), perm.end(), 0);
    for (int i = size - 1; i > 0; --i)
    {
        std::swap(perm[static_cast<size_t>(i)], perm[static_cast<size_t>(rng.integer(0, i))]);
    }
    return perm;
}

double pow2(vf::rng_t& rng, const int lo, const int hi)
{
    return std::ldexp(1.0, static_cast<int>(rng.integer(lo, hi)));
}

struct restated_t
{
    prog_t      P;
    ref_t       ref;
    evec_t      x0;
    std::string name;
};

restated_t restate(vf::rng_t& rng, const prog_t& P, const ref_t& ref, const evec_t& x0, const bool exact)
{
    restated_t R{P, ref, x0, ""};
    const auto n = P.n(), p = P.p(), m = P.m();
    R.P.box      = false; // restated programs are stated with generic blocks

    // kinds: 0 dup-eq, 1 comb-eq, 2 scale-ineq, 3 scale-obj, 4 scale-eq, 5 perm-vars, 6 perm-rows
    std::vector<int> kinds = {3, 5};
    if (m > 0)
    {
        kinds.push_back(2);
    }
    if (m > 1 || p > 1)
    {
        kinds.push_back(6);
    }
    if (p > 0)
    {
        kinds.push_back(0);
        kinds.push_back(4);
        kinds.push_back(0);
        if (!exact)
        {
            kinds.push_back(1);
            kinds.push_back(1);
        }
    }
    const int kind = rng.pick(kinds);
    switch (kind)
    {
    case 0:
    {
        // duplicated equality rows (some or all of them), shuffled among the original ones
        R.name       = "dup-eq";
        const auto k = static_cast<int>(rng.integer(1, p));
        emat_t     A(p + k, n);
        evec_t     b(p + k);
        A.topRows(p) = P.A;
        b.head(p)    = P.b;
        for (int i = 0; i < k; ++i)
        {
            const auto src = rng.integer(0, p - 1);
            A.row(p + i)   = P.A.row(src);
            b(p + i)       = P.b(src);
        }
        const auto perm = permutation(rng, p + k);
        R.P.A.resize(p + k, n);
        R.P.b.resize(p + k);
        for (int i = 0; i < p + k; ++i)
        {
            R.P.A.row(i) = A.row(perm[static_cast<size_t>(i)]);
            R.P.b(i)     = b(perm[static_cast<size_t>(i)]);
        }
        break;
    }
    case 1:
    {
        // linearly combined equality rows: either appended combinations or a full non-singular mixing T A x = T b
        R.name = "comb-eq";
        if (rng.chance(0.5))
        {
            const auto k = static_cast<int>(rng.integer(1, 2));
            R.P.A.resize(p + k, n);
            R.P.b.resize(p + k);
            R.P.A.topRows(p) = P.A;
            R.P.b.head(p)    = P.b;
            for (int i = 0; i < k; ++i)
            {
                evec_t w(p);
                for (int r = 0; r < p; ++r)
                {
                    w(r) = rng.chance(0.3) ? 0.0 : rng.uniform(-2.0, 2.0);
                }
                if (w.cwiseAbs().maxCoeff() == 0.0)
                {
                    w(0) = 1.0;
                }
                R.P.A.row(p + i) = w.transpose() * P.A;
                R.P.b(p + i)     = w.dot(P.b);
            }
        }
        else
        {
            emat_t T = emat_t::Identity(p, p);
            for (int r = 0; r < p; ++r)
            {
                for (int k = 0; k < p; ++k)
                {
                    T(r, k) += 0.5 * rng.uniform(-1.0, 1.0) / static_cast<double>(p);
                }
            }
            R.P.A = T * P.A;
            R.P.b = T * P.b;
        }
        break;
    }
    case 2:
    {
        R.name = "scale-ineq";
        for (int i = 0; i < m; ++i)
        {
            const double s = exact ? pow2(rng, -6, 6) : rng.loguniform(1e-2, 1e2);
            R.P.G.row(i) *= s;
            R.P.h(i) *= s;
        }
        break;
    }
    case 3:
    {
        R.name         = "scale-obj";
        const double s = exact ? pow2(rng, -6, 6) : rng.loguniform(1e-2, 1e2);
        R.P.Q *= s;
        R.P.c *= s;
        R.ref.fstar *= s;
        break;
    }
    case 4:
    {
        // a quarter of the equality rescalings is badly scaled (row scales spread over up to 8 orders of magnitude):
        // the statement allows any rescaling of equality rows, and rank decisions on [A|b] are scale sensitive
        const bool wide = !exact && rng.chance(0.25); // not for the exact status constructions: an inconsistency
                                                      // scaled to 1e-8 relative is below the solver's resolution
        R.name          = wide ? "scale-eq-wide" : "scale-eq";
        for (int i = 0; i < p; ++i)
        {
            const double s = (rng.chance(0.5) ? -1.0 : 1.0) *
                             (exact ? pow2(rng, -6, 6) : rng.loguniform(wide ? 1e-4 : 1e-2, wide ? 1e4 : 1e2));
            R.P.A.row(i) *= s;
            R.P.b(i) *= s;
        }
        break;
    }
    case 5:
    {
        R.name          = "perm-vars";
        const auto perm = permutation(rng, n);
        for (int j = 0; j < n; ++j)
        {
            const auto src = perm[static_cast<size_t>(j)];
            R.P.c(j)       = P.c(src);
            if (p > 0)
            {
                R.P.A.col(j) = P.A.col(src);
            }
            if (m > 0)
            {
                R.P.G.col(j) = P.G.col(src);
            }
            if (ref.has_x)
            {
                R.ref.xstar(j) = ref.xstar(src);
            }
            if (x0.size() == n)
            {
                R.x0(j) = x0(src);
            }
            for (int k = 0; k < n; ++k)
            {
                R.P.Q(j, k) = P.Q(src, perm[static_cast<size_t>(k)]);
            }
        }
        break;
    }
    default:
    {
        R.name = "perm-rows";
        if (m > 1)
        {
            const auto perm = permutation(rng, m);
            for (int i = 0; i < m; ++i)
            {
                R.P.G.row(i) = P.G.row(perm[static_cast<size_t>(i)]);
                R.P.h(i)     = P.h(perm[static_cast<size_t>(i)]);
            }
        }
        if (p > 1)
        {
            const auto perm = permutation(rng, p);
            for (int i = 0; i < p; ++i)
            {
                R.P.A.row(i) = P.A.row(perm[static_cast<size_t>(i)]);
                R.P.b(i)     = P.b(perm[static_cast<size_t>(i)]);
            }
        }
        break;
    }
    }
    return R;
}

// ------------------------------------------------------------------------------------------------------------------
// mode kkt
// ------------------------------------------------------------------------------------------------------------------
void case_kkt(vf::ctx_t& c)
{
    auto& rng = c.rng;

    const bool small = rng.chance(0.25);
    const int  n     = static_cast<int>(small ? rng.integer(1, 3) : rng.integer(1, 12));
    const int  p     = static_cast<int>(rng.integer(0, n - 1));
    const bool qp    = rng.chance(0.5);
    const bool box   = rng.chance(0.15); // bounds lower <= x <= upper stated through make_less / make_greater
    const int  m     = box ? 2 * n + static_cast<int>(rng.integer(0, 2)) : static_cast<int>(rng.integer(1, 2 * n + 2));

    // magnitudes 1e-2 .. 1e2 per block
    const double sx = rng.loguniform(1e-2, 1e2);
    const double sA = rng.loguniform(1e-2, 1e2);
    const double sG = rng.loguniform(1e-2, 1e2);
    const double sQ = rng.loguniform(1e-2, 1e2);
    const double su = rng.loguniform(1e-2, 1e2);
    const double sv = rng.loguniform(1e-2, 1e2);
    const double ss = rng.loguniform(1e-2, 1e2); // slack of the inactive rows, relative to |G_i| |x*|

    prog_t P;
    P.qp  = qp;
    P.box = box;
    evec_t xs(n), w(n);
    for (int j = 0; j < n; ++j)
    {
        xs(j) = sx * rng.normal();
        w(j)  = rng.normal();
    }
    w *= sx / std::max(1e-12, w.norm());

    P.A.resize(p, n);
    P.G.resize(m, n);
    P.h.resize(m);
    for (int i = 0; i < p; ++i)
    {
        for (int j = 0; j < n; ++j)
        {
            P.A(i, j) = sA * rng.normal();
        }
    }
    P.b = P.A * xs;
    evec_t u = evec_t::Zero(m), v(p);
    for (int i = 0; i < p; ++i)
    {
        v(i) = sv * rng.normal();
    }

    const bool rowscales  = rng.chance(0.5);
    const bool nointerior = !box && rng.chance(0.03);
    const auto random_row = [&](const int i)
    {
        const double rs     = rowscales ? rng.loguniform(0.1, 10.0) : 1.0;
        const bool   sparse = rng.chance(0.15);
        for (int j = 0; j < n; ++j)
        {
            P.G(i, j) = (sparse && rng.chance(0.6)) ? 0.0 : sG * rs * rng.normal();
        }
        if (P.G.row(i).cwiseAbs().maxCoeff() == 0.0)
        {
            P.G(i, static_cast<int>(rng.integer(0, n - 1))) = sG * rs;
        }
    };
    double     tmax         = 1.0;
    const auto inactive_row = [&](const int i)
    {
        const double slack = ss * (0.1 + rng.uniform(0.0, 2.0)) * std::max(1e-3, P.G.row(i).norm() * sx);
        P.h(i)             = P.G.row(i).dot(xs) + slack;
        const double gw    = P.G.row(i).dot(w);
        if (gw > 0.0)
        {
            tmax = std::min(tmax, 0.5 * slack / gw);
        }
    };

    // active set: u* > 0 on `nactive` rows, optionally some weakly active rows (tight with u* = 0)
    int nactive = 0, nweak = 0;
    if (box)
    {
        P.G.setZero();
        const double pact = rng.pick(std::vector<double>{0.2, 0.5, 0.8});
        for (int j = 0; j < n; ++j)
        {
            const int where = rng.chance(pact) ? static_cast<int>(rng.integer(1, 2)) : 0; // 0 inside, 1 at upper, 2 at lower
            const bool weak = rng.chance(0.1);
            P.G(j, j)       = 1.0;
            P.G(n + j, j)   = -1.0;
            if (where == 1)
            {
                w(j)   = -std::fabs(w(j)) - 1e-3 * sx;
                P.h(j) = xs(j);
                u(j)   = weak ? 0.0 : su * rng.uniform(0.1, 3.0);
                inactive_row(n + j);
            }
            else if (where == 2)
            {
                w(j)       = std::fabs(w(j)) + 1e-3 * sx;
                P.h(n + j) = -xs(j);
                u(n + j)   = weak ? 0.0 : su * rng.uniform(0.1, 3.0);
                inactive_row(j);
            }
            else
            {
                inactive_row(j);
                inactive_row(n + j);
            }
            nactive += (where != 0 && !weak) ? 1 : 0;
            nweak += (where != 0 && weak) ? 1 : 0;
        }
        // the direction w changed after some slack rows were visited: recompute the step bound
        tmax = 1.0;
        for (int i = 0; i < 2 * n; ++i)
        {
            const double slack = P.h(i) - P.G.row(i).dot(xs);
            const double gw    = P.G.row(i).dot(w);
            if (slack > 0.0 && gw > 0.0)
            {
                tmax = std::min(tmax, 0.5 * slack / gw);
            }
        }
        for (int i = 2 * n; i < m; ++i)
        {
            random_row(i);
            inactive_row(i);
        }
    }
    else
    {
        for (int i = 0; i < m; ++i)
        {
            random_row(i);
        }
        nactive = static_cast<int>(rng.integer(0, std::min(m, n - p)));
        if (!qp && rng.chance(0.7))
        {
            nactive = std::min(m, n - p); // a vertex
        }
        nweak = (rng.chance(0.15) && m > nactive) ? static_cast<int>(rng.integer(1, std::min(2, m - nactive))) : 0;
        for (int i = 0; i < m; ++i)
        {
            if (i < nactive + nweak)
            {
                // tight at x*; keep the interior direction w strictly inside (Slater) unless `nointerior`
                if (!nointerior && P.G.row(i).dot(w) > 0.0)
                {
                    P.G.row(i) *= -1.0;
                }
                u(i)   = i < nactive ? su * rng.uniform(0.1, 3.0) : 0.0;
                P.h(i) = P.G.row(i).dot(xs);
            }
            else
            {
                inactive_row(i);
            }
        }
        // shuffle the inequality rows so that the active ones are anywhere
        const auto perm = permutation(rng, m);
        emat_t     G2(m, n);
        evec_t     h2(m), u2(m);
        for (int i = 0; i < m; ++i)
        {
            G2.row(i) = P.G.row(perm[static_cast<size_t>(i)]);
            h2(i)     = P.h(perm[static_cast<size_t>(i)]);
            u2(i)     = u(perm[static_cast<size_t>(i)]);
        }
        P.G = G2;
        P.h = h2;
        u   = u2;
    }

    P.Q = emat_t::Zero(n, n);
    int rank = 0;
    if (qp)
    {
        rank = static_cast<int>(rng.integer(1, n));
        emat_t D(rank, n);
        for (int i = 0; i < rank; ++i)
        {
            for (int j = 0; j < n; ++j)
            {
                D(i, j) = rng.normal();
            }
        }
        P.Q = sQ * (D.transpose() * D);
        P.Q = (0.5 * (P.Q + P.Q.transpose())).eval();
    }
    P.c = -(P.Q * xs + P.A.transpose() * v + P.G.transpose() * u);
    ref_t ref;
    ref.has_f = ref.has_x = true;
    ref.f_is_f_of_xstar   = true;
    ref.xstar             = xs;
    ref.fstar             = 0.5 * xs.dot(P.Q * xs) + P.c.dot(xs);

    // user-supplied strictly feasible x0 (wrt the inequalities), or the library's own choice
    evec_t x0;
    if (rng.chance(0.4) && !nointerior)
    {
        const evec_t cand = xs + tmax * rng.uniform(0.2, 1.0) * w;
        if ((P.G * cand - P.h).maxCoeff() < 0.0)
        {
            x0 = cand;
        }
    }

    const std::string base = qp ? "qp" : "lp";
    const auto        st   = solve(P, x0.size() == n ? &x0 : nullptr, rng.next());
    const bool        conv = judge(c, P, st, ref, base, x0.size() == n ? &x0 : nullptr);
    c.count(box ? "stated_with_bounds" : "stated_generic");
    c.count(x0.size() == n ? "solves_user_x0" : "solves_default_x0");
    if (conv)
    {
        c.count(qp ? "converged_qp" : "converged_lp");
        if (nactive + nweak > 0)
        {
            c.nontrivial(hash_prog(P));
        }
        if (nactive + nweak > n - p)
        {
            c.count("converged_degenerate");
        }
        if (qp && rank < n)
        {
            c.count("converged_rank_deficient_Q");
        }
    }

    // restatements, judged against the original's (x*, f*) mapped through the transformation
    const int nrestate = static_cast<int>(rng.integer(1, 2));
    for (int r = 0; r < nrestate; ++r)
    {
        auto R = restate(rng, P, ref, x0, false);
        if (rng.chance(0.25))
        {
            // composition of two transformations
            R      = restate(rng, R.P, R.ref, R.x0, false);
            R.name = "multi";
        }
        const bool user = R.x0.size() == n && (R.P.G * R.x0 - R.P.h).maxCoeff() < 0.0;
        const auto rs   = solve(R.P, user ? &R.x0 : nullptr, rng.next());
        c.count("restated_solves");
        if (judge(c, R.P, rs, R.ref, base + "-restated:" + R.name, user ? &R.x0 : nullptr))
        {
            c.count("restated_converged");
            c.count("restated_converged:" + R.name);
            if (nactive + nweak > 0)
            {
                c.nontrivial(hash_prog(R.P));
            }
        }
        if (conv != (rs.m_status == solver_status::converged))
        {
            c.count("restated_status_differs"); // information only: convergence is not judged
        }
    }

    if (c.want_sample())
    {
        vf::json_t j;
        j.kv("n", n).kv("p", p).kv("m", m).kv("qp", qp).kv("bounds", box).kv("rank_Q", rank).kv("active", nactive).kv("weakly_active", nweak);
        j.kv("user_x0", x0.size() == n).kv("status", status_name(st.m_status)).kv("iters", st.m_iters);
        j.kv("fstar", ref.fstar).kv("fx", st.m_fx);
        j.arr("xstar", xs.data(), static_cast<size_t>(n), 12).vec("x", st.m_x, 12);
        c.sample(j);
    }
}

// ------------------------------------------------------------------------------------------------------------------
// mode status: infeasible / unbounded by an exact construction
// ------------------------------------------------------------------------------------------------------------------
evec_t int_vector(vf::rng_t& rng, const int n, const int lo, const int hi, const bool nonzero)
{
    evec_t v(n);
    do
    {
        for (int j = 0; j < n; ++j)
        {
            v(j) = static_cast<double>(rng.integer(lo, hi));
        }
    } while (nonzero && v.cwiseAbs().maxCoeff() == 0.0);
    return v;
}

void case_status(vf::ctx_t& c)
{
    auto& rng = c.rng;

    const int n    = static_cast<int>(rng.chance(0.3) ? rng.integer(1, 3) : rng.integer(1, 10));
    int       m    = static_cast<int>(rng.integer(1, 2 * n + 2));
    const int kind = static_cast<int>(rng.integer(0, 5));
    // 0 contradictory half-spaces, 1 inconsistent equalities, 2 equality against inequality, 3 Farkas combination,
    // 4 unbounded LP, 5 unbounded QP
    static const char* names[] = {"infeasible:contradictory-halfspaces", "infeasible:inconsistent-equalities",
                                  "infeasible:equality-vs-inequality",   "infeasible:farkas-combination",
                                  "unbounded:lp",                        "unbounded:qp"};

    prog_t P;
    P.qp = false;
    P.Q  = emat_t::Zero(n, n);
    P.c.resize(n);
    for (int j = 0; j < n; ++j)
    {
        P.c(j) = rng.normal();
    }
    P.A.resize(0, n);
    P.b.resize(0);
    evec_t x0; // user x0 (strictly inside the inequalities) where the construction knows one

    const auto random_Q = [&]()
    {
        const int r = static_cast<int>(rng.integer(1, n));
        emat_t    D(r, n);
        for (int i = 0; i < r; ++i)
        {
            for (int j = 0; j < n; ++j)
            {
                D(i, j) = rng.normal();
            }
        }
        P.qp = true;
        P.Q  = rng.loguniform(1e-2, 1e2) * (D.transpose() * D);
        P.Q  = (0.5 * (P.Q + P.Q.transpose())).eval();
    };

    const double delta = rng.loguniform(1e-3, 10.0);

    if (kind <= 3)
    {
        // generic inequalities with 0 strictly inside; the contradiction is added below
        const double sG = rng.loguniform(1e-2, 1e2);
        P.G.resize(m, n);
        P.h.resize(m);
        for (int i = 0; i < m; ++i)
        {
            for (int j = 0; j < n; ++j)
            {
                P.G(i, j) = sG * rng.normal();
            }
            P.h(i) = sG * (0.5 + rng.u01());
        }
        if (rng.chance(0.5))
        {
            random_Q();
        }
    }

    const auto append_ineq = [&](const evec_t& row, const double rhs)
    {
        P.G.conservativeResize(P.G.rows() + 1, n);
        P.h.conservativeResize(P.h.size() + 1);
        P.G.row(P.G.rows() - 1) = row.transpose();
        P.h(P.h.size() - 1)     = rhs;
    };
    const auto append_eq = [&](const evec_t& row, const double rhs)
    {
        P.A.conservativeResize(P.A.rows() + 1, n);
        P.b.conservativeResize(P.b.size() + 1);
        P.A.row(P.A.rows() - 1) = row.transpose();
        P.b(P.b.size() - 1)     = rhs;
    };

    if (kind == 0)
    {
        // a.x <= h1 and -a.x <= h2 with h1 + h2 < 0 (the negated row is exact)
        evec_t a(n);
        if (rng.chance(0.4))
        {
            a.setZero();
            a(static_cast<int>(rng.integer(0, n - 1))) = rng.loguniform(1e-2, 1e2);
        }
        else
        {
            for (int j = 0; j < n; ++j)
            {
                a(j) = rng.normal();
            }
            a *= rng.loguniform(1e-2, 1e2);
        }
        const double scale = a.norm();
        const double h1    = scale * rng.uniform(-2.0, 2.0);
        const double h2    = -h1 - scale * delta;
        if (!(h1 + h2 < 0.0))
        {
            c.inconclusive("construction-degenerate");
            return;
        }
        append_ineq(a, h1);
        append_ineq(-a, h2);
    }
    else if (kind == 1)
    {
        // row2 = 2^k row1 exactly, b2 != 2^k b1; optionally without any inequality (direct KKT solve)
        const int extra = (n > 2 && rng.chance(0.4)) ? 1 : 0;
        evec_t    a(n);
        for (int j = 0; j < n; ++j)
        {
            a(j) = rng.normal();
        }
        a *= rng.loguniform(1e-2, 1e2);
        const double f  = pow2(rng, -3, 3) * (rng.chance(0.3) ? -1.0 : 1.0);
        const double b1 = a.norm() * rng.uniform(-2.0, 2.0);
        const double b2 = f * b1 + std::fabs(f) * a.norm() * delta * (rng.chance(0.5) ? -1.0 : 1.0);
        if (b2 == f * b1)
        {
            c.inconclusive("construction-degenerate");
            return;
        }
        if (extra != 0 && rng.chance(0.5))
        {
            evec_t e(n);
            for (int j = 0; j < n; ++j)
            {
                e(j) = rng.normal();
            }
            append_eq(e, rng.normal());
        }
        append_eq(a, b1);
        append_eq(f * a, b2);
        if (rng.chance(0.15))
        {
            P.G.resize(0, n);
            P.h.resize(0);
            m = 0;
        }
    }
    else if (kind == 2)
    {
        // a.x = beta and a.x <= beta - delta |a|
        evec_t a(n);
        for (int j = 0; j < n; ++j)
        {
            a(j) = rng.normal();
        }
        a *= rng.loguniform(1e-2, 1e2);
        const double beta = a.norm() * rng.uniform(-2.0, 2.0);
        const double rhs  = beta - a.norm() * delta;
        if (!(rhs < beta))
        {
            c.inconclusive("construction-degenerate");
            return;
        }
        append_eq(a, beta);
        append_ineq(a, rhs);
    }
    else if (kind == 3)
    {
        // g1.x <= h1, g2.x <= h2, -(g1+g2).x <= -(h1+h2) - d: small integers times a power of two, exact sums
        const double s  = pow2(rng, -6, 6);
        const evec_t g1 = int_vector(rng, n, -4, 4, true);
        const evec_t g2 = int_vector(rng, n, -4, 4, true);
        const double h1 = static_cast<double>(rng.integer(-6, 6));
        const double h2 = static_cast<double>(rng.integer(-6, 6));
        const double d  = static_cast<double>(rng.integer(1, 8)) / 8.0;
        append_ineq(s * g1, s * h1);
        append_ineq(s * g2, s * h2);
        append_ineq(-s * (g1 + g2), s * (-(h1 + h2) - d));
    }
    else
    {
        // recession direction d (small integers): G d < 0 with margin, A d = 0 exactly, Q d = 0 exactly, c.d < 0
        const evec_t d  = int_vector(rng, n, -3, 3, true);
        const double dd = d.dot(d);
        const evec_t xf = int_vector(rng, n, -3, 3, false); // a feasible point: A xf = b exactly, G xf < h
        const double sG = rng.loguniform(1e-2, 1e2);
        P.G.resize(m, n);
        P.h.resize(m);
        for (int i = 0; i < m; ++i)
        {
            evec_t g(n);
            for (int j = 0; j < n; ++j)
            {
                g(j) = rng.normal();
            }
            // g.d = -kappa |d|^2 with kappa in [0.05, 1]
            g -= (g.dot(d) / dd + rng.uniform(0.05, 1.0)) * d;
            g *= sG;
            if (!(g.dot(d) < -1e-3 * g.norm() * d.norm()))
            {
                c.inconclusive("construction-degenerate");
                return;
            }
            P.G.row(i) = g.transpose();
            P.h(i)     = g.dot(xf) + g.norm() * rng.uniform(0.1, 2.0);
        }
        // rows orthogonal to d in exact arithmetic: r = w |d|^2 - (w.d) d with small integer w, scaled by 2^-k
        const auto orthogonal_row = [&]()
        {
            const evec_t w = int_vector(rng, n, -2, 2, true);
            evec_t       r = w * dd - w.dot(d) * d;
            return r;
        };
        const int pmax = std::max(0, n - 2);
        const int p    = (pmax > 0 && rng.chance(0.5)) ? static_cast<int>(rng.integer(1, pmax)) : 0;
        const double sA = pow2(rng, -10, 0);
        for (int i = 0; i < p; ++i)
        {
            const evec_t r = orthogonal_row();
            if (r.cwiseAbs().maxCoeff() == 0.0)
            {
                continue;
            }
            append_eq(sA * r, sA * r.dot(xf));
        }
        if (kind == 5 && n >= 2)
        {
            const int rr = static_cast<int>(rng.integer(1, n - 1));
            emat_t    D(rr, n);
            for (int i = 0; i < rr; ++i)
            {
                D.row(i) = orthogonal_row().transpose();
            }
            if (D.cwiseAbs().maxCoeff() > 0.0)
            {
                P.qp = true;
                P.Q  = pow2(rng, -16, -4) * (D.transpose() * D); // exact: integers below 2^53
            }
        }
        // c.d < 0: c = -tau d/|d|^2 + (a component orthogonal to d)
        evec_t cc(n);
        for (int j = 0; j < n; ++j)
        {
            cc(j) = rng.normal();
        }
        cc -= (cc.dot(d) / dd) * d;
        P.c = rng.loguniform(1e-2, 1e2) * (rng.uniform(0.0, 1.0) * cc - rng.uniform(0.2, 1.0) * d / std::sqrt(dd));
        if (!(P.c.dot(d) < -1e-3 * P.c.norm() * d.norm()))
        {
            c.inconclusive("construction-degenerate");
            return;
        }
        if (P.p() > 0 && rng.chance(0.12))
        {
            // no inequality at all: min c.x (+ quadratic) over an affine set, solved by the direct KKT system
            P.G.resize(0, n);
            P.h.resize(0);
            m = 0;
        }
        else if (rng.chance(0.4))
        {
            x0 = xf;
        }
        // self-check of the certificate in floating point (exact by construction, see above)
        if ((P.p() > 0 && (P.A * d).cwiseAbs().maxCoeff() != 0.0) || (P.qp && (P.Q * d).cwiseAbs().maxCoeff() != 0.0) ||
            (P.p() > 0 && (P.A * xf - P.b).cwiseAbs().maxCoeff() != 0.0) || (P.m() > 0 && !((P.G * xf - P.h).maxCoeff() < 0.0)))
        {
            c.inconclusive("construction-not-exact");
            return;
        }
    }

    // shuffle the inequality rows (the contradiction is not always last)
    if (P.m() > 1)
    {
        const auto perm = permutation(rng, P.m());
        emat_t     G2(P.m(), n);
        evec_t     h2(P.m());
        for (int i = 0; i < P.m(); ++i)
        {
            G2.row(i) = P.G.row(perm[static_cast<size_t>(i)]);
            h2(i)     = P.h(perm[static_cast<size_t>(i)]);
        }
        P.G = G2;
        P.h = h2;
    }

    const ref_t       noref;
    const std::string what = names[kind];
    const auto        run  = [&](const prog_t& prog, const evec_t& ux0, const std::string& tag)
    {
        const bool user = ux0.size() == n && prog.m() > 0 && (prog.G * ux0 - prog.h).maxCoeff() < 0.0;
        const auto st   = solve(prog, user ? &ux0 : nullptr, rng.next());
        c.count("clause_status");
        c.count("clause_status:" + what);
        c.count(std::string("said:") + (kind <= 3 ? "infeasible->" : "unbounded->") + status_name(st.m_status));
        if (st.m_status == solver_status::converged)
        {
            vf::json_t j;
            j.kv("truth", what).kv("object", tag).kv("fx_reported", st.m_fx).kv("iters", st.m_iters).kv("user_x0", user);
            j.vec("x", st.m_x).kv("program", describe(prog));
            if (user)
            {
                j.arr("x0", ux0.data(), static_cast<size_t>(ux0.size()));
            }
            const bool astronomic = st.m_x.size() > 0 && !(st.m_x.vector().cwiseAbs().maxCoeff() < 1e8);
            c.violation(std::string("C04|converged-on-") + (kind <= 3 ? "infeasible" : "unbounded") + "|" + tag +
                            (astronomic ? "|astronomic-x" : ""),
                        j);
        }
        return st;
    };

    const auto st = run(P, x0, what);
    c.nontrivial(hash_prog(P));
    if (rng.chance(0.5))
    {
        // exact restatements only: permutations and power-of-two scalings keep the certificate exact
        const auto R = restate(rng, P, noref, x0, true);
        c.count("restated_solves");
        run(R.P, R.x0, what + "-restated:" + R.name);
        c.nontrivial(hash_prog(R.P));
    }

    if (c.want_sample())
    {
        vf::json_t j;
        j.kv("truth", what).kv("n", n).kv("p", P.p()).kv("m", P.m()).kv("qp", P.qp).kv("solver_said", status_name(st.m_status));
        c.sample(j);
    }
}

// ------------------------------------------------------------------------------------------------------------------
// exact arithmetic for the integer mode
// ------------------------------------------------------------------------------------------------------------------
using i128 = __int128;

struct overflow_t
{
};

constexpr i128 ilimit = static_cast<i128>(1) << 60;

i128 iabs(const i128 v)
{
    return v < 0 ? -v : v;
}

i128 igcd(i128 a, i128 b)
{
    a = iabs(a);
    b = iabs(b);
    while (b != 0)
    {
        const i128 t = a % b;
        a            = b;
        b            = t;
    }
    return a;
}

i128 guard(const i128 v)
{
    if (v >= ilimit || v <= -ilimit)
    {
        throw overflow_t{};
    }
    return v;
}

///
/// \brief rational number over __int128 (normalised, denominators positive, magnitudes guarded below 2^60).
///
struct frac_t
{
    i128 n{0}, d{1};

    frac_t() = default;

    frac_t(const i128 num, const i128 den = 1)
        : n(num)
        , d(den)
    {
        if (d < 0)
        {
            n = -n;
            d = -d;
        }
        const i128 g = igcd(n, d);
        if (g > 1)
        {
            n /= g;
            d /= g;
        }
        guard(n);
        guard(d);
    }

    bool zero() const { return n == 0; }

    double value() const { return static_cast<double>(static_cast<long double>(n) / static_cast<long double>(d)); }
};

frac_t operator+(const frac_t& a, const frac_t& b)
{
    return {a.n * b.d + b.n * a.d, a.d * b.d};
}

frac_t operator-(const frac_t& a, const frac_t& b)
{
    return {a.n * b.d - b.n * a.d, a.d * b.d};
}

frac_t operator*(const frac_t& a, const frac_t& b)
{
    return {a.n * b.n, a.d * b.d};
}

frac_t operator/(const frac_t& a, const frac_t& b)
{
    return {a.n * b.d, a.d * b.n};
}

bool operator<(const frac_t& a, const frac_t& b)
{
    return a.n * b.d < b.n * a.d;
}

bool operator==(const frac_t& a, const frac_t& b)
{
    return a.n == b.n && a.d == b.d;
}

///
/// \brief a linear system {a.x <= r} U {a.x == r} over the integers, decided by Fourier-Motzkin elimination
///     (equalities are eliminated by substitution, rows kept primitive and de-duplicated).
///
struct row_t
{
    std::vector<i128> a;
    i128              r{0};
};

struct system_t
{
    int                nv{0};
    std::vector<row_t> le, eq;
    bool               contradiction{false};
};

void normalise(row_t& row)
{
    i128 g = iabs(row.r);
    for (const auto v : row.a)
    {
        g = igcd(g, v);
    }
    if (g > 1)
    {
        for (auto& v : row.a)
        {
            v /= g;
        }
        row.r /= g;
    }
    for (const auto v : row.a)
    {
        guard(v);
    }
    guard(row.r);
}

bool is_zero(const row_t& row)
{
    return std::all_of(row.a.begin(), row.a.end(), [](const i128 v) { return v == 0; });
}

// row <- alpha * row + beta * other (alpha > 0 for inequalities)
row_t combine(const row_t& row, const i128 alpha, const row_t& other, const i128 beta)
{
    row_t out;
    out.a.resize(row.a.size());
    for (size_t i = 0; i < row.a.size(); ++i)
    {
        out.a[i] = alpha * row.a[i] + beta * other.a[i];
    }
    out.r = alpha * row.r + beta * other.r;
    normalise(out);
    return out;
}

void tidy(system_t& s)
{
    // drop trivial rows, detect contradictions, keep the tightest of parallel inequalities (smallest r/g per direction a/g)
    std::map<std::vector<i128>, std::pair<row_t, i128>> keep;
    for (const auto& row : s.le)
    {
        if (is_zero(row))
        {
            s.contradiction = s.contradiction || row.r < 0;
            continue;
        }
        i128 g = 0;
        for (const auto v : row.a)
        {
            g = igcd(g, v);
        }
        std::vector<i128> dir = row.a;
        for (auto& v : dir)
        {
            v /= g;
        }
        const auto it = keep.find(dir);
        if (it == keep.end())
        {
            keep.emplace(dir, std::make_pair(row, g));
        }
        else if (row.r * it->second.second < it->second.first.r * g)
        {
            it->second = std::make_pair(row, g);
        }
    }
    s.le.clear();
    for (auto& kv : keep)
    {
        s.le.push_back(kv.second.first);
    }
    std::vector<row_t> eqs;
    for (const auto& row : s.eq)
    {
        if (is_zero(row))
        {
            s.contradiction = s.contradiction || row.r != 0;
            continue;
        }
        eqs.push_back(row);
    }
    s.eq = std::move(eqs);
}

void eliminate(system_t& s, const size_t k)
{
    // by substitution if some equality involves x_k
    for (size_t e = 0; e < s.eq.size(); ++e)
    {
        if (s.eq[e].a[k] != 0)
        {
            const row_t piv = s.eq[e];
            s.eq.erase(s.eq.begin() + static_cast<std::ptrdiff_t>(e));
            const i128 ap = piv.a[k];
            for (auto& row : s.eq)
            {
                if (row.a[k] != 0)
                {
                    row = combine(row, iabs(ap), piv, ap > 0 ? -row.a[k] : row.a[k]);
                }
            }
            for (auto& row : s.le)
            {
                if (row.a[k] != 0)
                {
                    row = combine(row, iabs(ap), piv, ap > 0 ? -row.a[k] : row.a[k]);
                }
            }
            tidy(s);
            return;
        }
    }
    std::vector<row_t> pos, neg, out;
    for (const auto& row : s.le)
    {
        (row.a[k] > 0 ? pos : (row.a[k] < 0 ? neg : out)).push_back(row);
    }
    for (const auto& rp : pos)
    {
        for (const auto& rn : neg)
        {
            out.push_back(combine(rp, -rn.a[k], rn, rp.a[k]));
        }
    }
    s.le = std::move(out);
    tidy(s);
}

bool feasible(system_t s)
{
    tidy(s);
    for (size_t k = 0; k < static_cast<size_t>(s.nv) && !s.contradiction; ++k)
    {
        eliminate(s, k);
    }
    return !s.contradiction;
}

///
/// \brief small integer program.
///
struct iprog_t
{
    int                            n{0};
    bool                           qp{false};
    std::vector<std::vector<i128>> Q, A, G;
    std::vector<i128>              c, b, h;
};

system_t constraints_of(const iprog_t& I, const int extra_vars)
{
    system_t s;
    s.nv = I.n + extra_vars;
    for (size_t i = 0; i < I.G.size(); ++i)
    {
        row_t row;
        row.a = I.G[i];
        row.a.resize(static_cast<size_t>(s.nv), 0);
        row.r = I.h[i];
        s.le.push_back(row);
    }
    for (size_t i = 0; i < I.A.size(); ++i)
    {
        row_t row;
        row.a = I.A[i];
        row.a.resize(static_cast<size_t>(s.nv), 0);
        row.r = I.b[i];
        s.eq.push_back(row);
    }
    return s;
}

// exists d: G d <= 0, A d = 0, Q d = 0, c.d <= -1 (c.d < 0 up to positive scaling)
bool has_descent_recession(const iprog_t& I)
{
    system_t s;
    s.nv = I.n;
    for (const auto& g : I.G)
    {
        s.le.push_back(row_t{g, 0});
    }
    for (const auto& a : I.A)
    {
        s.eq.push_back(row_t{a, 0});
    }
    if (I.qp)
    {
        for (const auto& q : I.Q)
        {
            s.eq.push_back(row_t{q, 0});
        }
    }
    s.le.push_back(row_t{I.c, -1});
    return feasible(s);
}

// minimum of c.x over the constraints by eliminating x from {constraints, c.x - t <= 0}
// returns: 0 infeasible, 1 unbounded below, 2 finite (value in fstar)
int lp_minimum(const iprog_t& I, frac_t& fstar)
{
    system_t s = constraints_of(I, 1);
    row_t    obj;
    obj.a = I.c;
    obj.a.push_back(-1);
    obj.r = 0;
    s.le.push_back(obj);
    tidy(s);
    for (size_t k = 0; k < static_cast<size_t>(I.n) && !s.contradiction; ++k)
    {
        eliminate(s, k);
    }
    if (s.contradiction)
    {
        return 0;
    }
    bool   any = false;
    frac_t best;
    const auto t = static_cast<size_t>(I.n);
    for (const auto& row : s.le)
    {
        // alpha t <= r with alpha < 0: t >= r / alpha
        if (row.a[t] < 0)
        {
            const frac_t lb{row.r, row.a[t]};
            if (!any || best < lb)
            {
                best = lb;
            }
            any = true;
        }
        else if (row.a[t] > 0)
        {
            throw overflow_t{}; // cannot happen (t only ever enters with a non-positive coefficient)
        }
    }
    fstar = best;
    return any ? 2 : 1;
}

///
/// \brief KKT / active-set enumeration with rational arithmetic: for every subset S of at most n inequality rows solve
///     [Q A' G_S'; A 0 0; G_S 0 0] (x, v, l) = (-c, b, h_S) (free unknowns set to 0) and accept the first solution that is
///     primal feasible with l >= 0: a KKT point of a convex program is a global minimiser.
///
bool kkt_point(const iprog_t& I, std::vector<frac_t>& xstar, frac_t& fstar, bool& has_active)
{
    const auto n = static_cast<size_t>(I.n), p = I.A.size(), m = I.G.size();
    for (unsigned mask = 0; mask < (1U << m); ++mask)
    {
        std::vector<size_t> S;
        for (size_t i = 0; i < m; ++i)
        {
            if ((mask >> i) & 1U)
            {
                S.push_back(i);
            }
        }
        if (S.size() > n)
        {
            continue;
        }
        const size_t k = S.size(), dim = n + p + k, rows = n + p + k;
        // augmented matrix
        std::vector<std::vector<frac_t>> M(rows, std::vector<frac_t>(dim + 1));
        for (size_t i = 0; i < n; ++i)
        {
            for (size_t j = 0; j < n; ++j)
            {
                M[i][j] = frac_t{I.qp ? I.Q[i][j] : static_cast<i128>(0)};
            }
            for (size_t e = 0; e < p; ++e)
            {
                M[i][n + e] = frac_t{I.A[e][i]};
            }
            for (size_t e = 0; e < k; ++e)
            {
                M[i][n + p + e] = frac_t{I.G[S[e]][i]};
            }
            M[i][dim] = frac_t{-I.c[i]};
        }
        for (size_t e = 0; e < p; ++e)
        {
            for (size_t j = 0; j < n; ++j)
            {
                M[n + e][j] = frac_t{I.A[e][j]};
            }
            M[n + e][dim] = frac_t{I.b[e]};
        }
        for (size_t e = 0; e < k; ++e)
        {
            for (size_t j = 0; j < n; ++j)
            {
                M[n + p + e][j] = frac_t{I.G[S[e]][j]};
            }
            M[n + p + e][dim] = frac_t{I.h[S[e]]};
        }
        // Gauss-Jordan
        std::vector<int> pivot_of_col(dim, -1);
        size_t           r = 0;
        for (size_t col = 0; col < dim && r < rows; ++col)
        {
            size_t sel = r;
            while (sel < rows && M[sel][col].zero())
            {
                ++sel;
            }
            if (sel == rows)
            {
                continue;
            }
            std::swap(M[sel], M[r]);
            const frac_t piv = M[r][col];
            for (size_t j = col; j <= dim; ++j)
            {
                M[r][j] = M[r][j] / piv;
            }
            for (size_t i = 0; i < rows; ++i)
            {
                if (i != r && !M[i][col].zero())
                {
                    const frac_t f = M[i][col];
                    for (size_t j = col; j <= dim; ++j)
                    {
                        M[i][j] = M[i][j] - f * M[r][j];
                    }
                }
            }
            pivot_of_col[col] = static_cast<int>(r);
            ++r;
        }
        bool consistent = true;
        for (size_t i = r; i < rows; ++i)
        {
            consistent = consistent && M[i][dim].zero();
        }
        if (!consistent)
        {
            continue;
        }
        std::vector<frac_t> sol(dim);
        for (size_t col = 0; col < dim; ++col)
        {
            if (pivot_of_col[col] >= 0)
            {
                // free unknowns are zero, so the pivot unknown is the right-hand side minus nothing
                sol[col] = M[static_cast<size_t>(pivot_of_col[col])][dim];
            }
        }
        // with free unknowns at zero the pivot rows read x_piv + sum(free * 0) = rhs: valid particular solution
        bool ok = true;
        for (size_t e = 0; e < k && ok; ++e)
        {
            ok = !(sol[n + p + e] < frac_t{0});
        }
        bool active = false;
        for (size_t i = 0; i < m && ok; ++i)
        {
            frac_t lhs;
            for (size_t j = 0; j < n; ++j)
            {
                lhs = lhs + frac_t{I.G[i][j]} * sol[j];
            }
            ok     = !(frac_t{I.h[i]} < lhs);
            active = active || lhs == frac_t{I.h[i]};
        }
        for (size_t e = 0; e < p && ok; ++e)
        {
            frac_t lhs;
            for (size_t j = 0; j < n; ++j)
            {
                lhs = lhs + frac_t{I.A[e][j]} * sol[j];
            }
            ok = lhs == frac_t{I.b[e]};
        }
        // stationarity and complementarity, re-verified on the particular solution
        for (size_t i = 0; i < n && ok; ++i)
        {
            frac_t g{I.c[i]};
            for (size_t j = 0; j < n && I.qp; ++j)
            {
                g = g + frac_t{I.Q[i][j]} * sol[j];
            }
            for (size_t e = 0; e < p; ++e)
            {
                g = g + frac_t{I.A[e][i]} * sol[n + e];
            }
            for (size_t e = 0; e < k; ++e)
            {
                g = g + frac_t{I.G[S[e]][i]} * sol[n + p + e];
            }
            ok = g.zero();
        }
        for (size_t e = 0; e < k && ok; ++e)
        {
            frac_t lhs;
            for (size_t j = 0; j < n; ++j)
            {
                lhs = lhs + frac_t{I.G[S[e]][j]} * sol[j];
            }
            ok = lhs == frac_t{I.h[S[e]]};
        }
        if (!ok)
        {
            continue;
        }
        xstar.assign(sol.begin(), sol.begin() + static_cast<std::ptrdiff_t>(n));
        frac_t f;
        for (size_t i = 0; i < n; ++i)
        {
            f = f + frac_t{I.c[i]} * xstar[i];
            for (size_t j = 0; j < n && I.qp; ++j)
            {
                f = f + frac_t{1, 2} * frac_t{I.Q[i][j]} * xstar[i] * xstar[j];
            }
        }
        fstar      = f;
        has_active = active;
        return true;
    }
    return false;
}

// ------------------------------------------------------------------------------------------------------------------
// mode integer
// ------------------------------------------------------------------------------------------------------------------
void case_integer(vf::ctx_t& c)
{
    auto& rng = c.rng;

    iprog_t I;
    I.n      = static_cast<int>(rng.integer(1, 3));
    I.qp     = rng.chance(0.5);
    const auto n = static_cast<size_t>(I.n);
    int        p = static_cast<int>(rng.integer(0, I.n - 1));
    if (rng.chance(0.4))
    {
        p = 0;
    }
    int m = static_cast<int>(rng.integer(1, 6));
    if (p > 0 && rng.chance(0.08))
    {
        m = 0;
    }
    const int    style  = static_cast<int>(rng.integer(0, 9)); // 0-2 random, 3-6 feasible by construction, 7-9 boxed
    const double pzero  = rng.pick(std::vector<double>{0.0, 0.2, 0.5});
    const auto   coeff  = [&]() { return static_cast<i128>(rng.chance(pzero) ? 0 : rng.integer(-5, 5)); };
    const auto   newrow = [&]()
    {
        std::vector<i128> row(n);
        bool              nz = false;
        do
        {
            for (auto& v : row)
            {
                v  = coeff();
                nz = nz || v != 0;
            }
        } while (!nz);
        return row;
    };
    const auto dot = [&](const std::vector<i128>& row, const std::vector<i128>& x)
    {
        i128 s = 0;
        for (size_t j = 0; j < n; ++j)
        {
            s += row[j] * x[j];
        }
        return s;
    };

    std::vector<i128> xf(n);
    for (auto& v : xf)
    {
        v = rng.integer(-3, 3);
    }
    for (int i = 0; i < p; ++i)
    {
        I.A.push_back(newrow());
        I.b.push_back(style <= 2 ? static_cast<i128>(rng.integer(-5, 5)) : dot(I.A.back(), xf));
    }
    for (int i = 0; i < m; ++i)
    {
        if (style >= 7 && i < 2 * I.n)
        {
            // box rows first: x_k <= ub, -x_k <= -lb
            std::vector<i128> row(n, 0);
            const auto        k = static_cast<size_t>(i / 2);
            row[k]              = (i % 2 == 0) ? 1 : -1;
            I.G.push_back(row);
            I.h.push_back(dot(row, xf) + rng.integer(0, 4));
        }
        else
        {
            I.G.push_back(newrow());
            I.h.push_back(style <= 2 ? static_cast<i128>(rng.integer(-5, 5)) : dot(I.G.back(), xf) + rng.integer(rng.chance(0.3) ? 0 : 1, 5));
        }
    }
    // equality structure: duplicated / combined rows, consistent or not (row reduction of dependent equalities)
    std::string eqs = "independent";
    if (p > 0 && rng.chance(0.35))
    {
        const auto i1 = static_cast<size_t>(rng.integer(0, p - 1));
        const auto i2 = static_cast<size_t>(rng.integer(0, p - 1));
        const i128 w1 = rng.integer(1, 3) * (rng.chance(0.3) ? -1 : 1);
        const i128 w2 = (i2 != i1 && rng.chance(0.5)) ? static_cast<i128>(rng.integer(-2, 2)) : 0;
        std::vector<i128> row(n);
        for (size_t j = 0; j < n; ++j)
        {
            row[j] = w1 * I.A[i1][j] + w2 * I.A[i2][j];
        }
        i128 rhs = w1 * I.b[i1] + w2 * I.b[i2];
        eqs      = "dependent-consistent";
        if (rng.chance(0.3))
        {
            rhs += rng.chance(0.5) ? 1 : -1;
            eqs = "dependent-inconsistent";
        }
        const auto at = static_cast<std::ptrdiff_t>(rng.integer(0, p));
        I.A.insert(I.A.begin() + at, row);
        I.b.insert(I.b.begin() + at, rhs);
    }
    for (size_t j = 0; j < n; ++j)
    {
        I.c.push_back(rng.chance(0.15) ? 0 : static_cast<i128>(rng.integer(-5, 5)));
    }
    int rank = 0;
    if (I.qp)
    {
        rank = static_cast<int>(rng.integer(1, I.n));
        std::vector<std::vector<i128>> D(static_cast<size_t>(rank), std::vector<i128>(n));
        for (auto& row : D)
        {
            for (auto& v : row)
            {
                v = rng.integer(-2, 2);
            }
        }
        I.Q.assign(n, std::vector<i128>(n, 0));
        bool nz = false;
        for (size_t i = 0; i < n; ++i)
        {
            for (size_t j = 0; j < n; ++j)
            {
                for (const auto& row : D)
                {
                    I.Q[i][j] += row[i] * row[j];
                }
                nz = nz || I.Q[i][j] != 0;
            }
        }
        if (!nz)
        {
            I.Q[0][0] = 1;
        }
    }
    else if (std::all_of(I.c.begin(), I.c.end(), [](const i128 v) { return v == 0; }))
    {
        I.c[0] = 1;
    }
    // optional integer restatement: positive scaling of inequality rows / objective, any scaling of equality rows
    if (rng.chance(0.3))
    {
        for (size_t i = 0; i < I.G.size(); ++i)
        {
            const i128 s = rng.integer(1, 4);
            for (auto& v : I.G[i])
            {
                v *= s;
            }
            I.h[i] *= s;
        }
        for (size_t i = 0; i < I.A.size(); ++i)
        {
            const i128 s = rng.integer(1, 3) * (rng.chance(0.4) ? -1 : 1);
            for (auto& v : I.A[i])
            {
                v *= s;
            }
            I.b[i] *= s;
        }
        const i128 s = rng.integer(1, 3);
        for (auto& v : I.c)
        {
            v *= s;
        }
        for (auto& row : I.Q)
        {
            for (auto& v : row)
            {
                v *= s;
            }
        }
    }

    // ---- exact decision ----
    enum class truth
    {
        infeasible,
        unbounded,
        solvable
    };
    truth               what = truth::solvable;
    std::vector<frac_t> xstar;
    frac_t              fstar;
    bool                has_opt = false, has_active = false;
    try
    {
        if (!feasible(constraints_of(I, 0)))
        {
            what = truth::infeasible;
        }
        else if (has_descent_recession(I))
        {
            what = truth::unbounded;
        }
        has_opt = what == truth::solvable && kkt_point(I, xstar, fstar, has_active);
        // cross-checks between the independent exact procedures (a disagreement would be a defect of the harness)
        if (!I.qp)
        {
            frac_t     flp;
            const auto res = lp_minimum(I, flp);
            const bool agree = (res == 0) == (what == truth::infeasible) && (res == 1) == (what == truth::unbounded) &&
                               (!has_opt || (res == 2 && flp == fstar));
            c.count("oracle_crosscheck_lp");
            if (!agree)
            {
                c.inconclusive("oracle-disagreement-lp");
                return;
            }
            if (res == 2 && !has_opt)
            {
                c.count("lp_optimum_without_xstar");
            }
        }
        else if (what != truth::solvable)
        {
            // a KKT point may only exist for a feasible program that is bounded below
            std::vector<frac_t> x2;
            frac_t              f2;
            bool                a2 = false;
            c.count("oracle_crosscheck_qp");
            if (kkt_point(I, x2, f2, a2))
            {
                c.inconclusive("oracle-disagreement-qp");
                return;
            }
        }
    }
    catch (const overflow_t&)
    {
        c.inconclusive("exact-arithmetic-overflow");
        return;
    }

    // ---- the program in floating point (exactly representable) ----
    prog_t P;
    P.qp = I.qp;
    P.Q  = emat_t::Zero(I.n, I.n);
    P.c.resize(I.n);
    P.A.resize(static_cast<Eigen::Index>(I.A.size()), I.n);
    P.b.resize(static_cast<Eigen::Index>(I.A.size()));
    P.G.resize(static_cast<Eigen::Index>(I.G.size()), I.n);
    P.h.resize(static_cast<Eigen::Index>(I.G.size()));
    for (size_t j = 0; j < n; ++j)
    {
        P.c(static_cast<Eigen::Index>(j)) = static_cast<double>(I.c[j]);
        for (size_t i = 0; i < n && I.qp; ++i)
        {
            P.Q(static_cast<Eigen::Index>(i), static_cast<Eigen::Index>(j)) = static_cast<double>(I.Q[i][j]);
        }
        for (size_t i = 0; i < I.A.size(); ++i)
        {
            P.A(static_cast<Eigen::Index>(i), static_cast<Eigen::Index>(j)) = static_cast<double>(I.A[i][j]);
        }
        for (size_t i = 0; i < I.G.size(); ++i)
        {
            P.G(static_cast<Eigen::Index>(i), static_cast<Eigen::Index>(j)) = static_cast<double>(I.G[i][j]);
        }
    }
    for (size_t i = 0; i < I.A.size(); ++i)
    {
        P.b(static_cast<Eigen::Index>(i)) = static_cast<double>(I.b[i]);
    }
    for (size_t i = 0; i < I.G.size(); ++i)
    {
        P.h(static_cast<Eigen::Index>(i)) = static_cast<double>(I.h[i]);
    }

    ref_t ref;
    if (has_opt)
    {
        ref.has_f = ref.has_x = true;
        ref.fstar             = fstar.value();
        ref.xstar.resize(I.n);
        for (size_t j = 0; j < n; ++j)
        {
            ref.xstar(static_cast<Eigen::Index>(j)) = xstar[j].value();
        }
    }

    // user x0: a strictly feasible (wrt the inequalities) dyadic point found by trial, if any
    evec_t x0;
    if (m > 0 && rng.chance(0.4))
    {
        for (int t = 0; t < 30 && x0.size() == 0; ++t)
        {
            evec_t cand(I.n);
            for (int j = 0; j < I.n; ++j)
            {
                cand(j) = static_cast<double>(rng.integer(-24, 24)) / 4.0;
            }
            if ((P.G * cand - P.h).maxCoeff() < 0.0)
            {
                x0 = cand;
            }
        }
    }

    const char* tname = what == truth::infeasible ? "infeasible" : (what == truth::unbounded ? "unbounded" : "solvable");
    const std::string kind = std::string(I.qp ? "qp" : "lp");
    c.count(std::string("truth:") + tname);
    c.count(std::string("equalities:") + eqs);
    if (what == truth::solvable)
    {
        c.count(has_opt ? "optimum_decided" : "optimum_undecided");
    }

    const auto st   = solve(P, x0.size() == I.n ? &x0 : nullptr, rng.next());
    const bool conv = judge(c, P, st, ref, "integer-" + kind, x0.size() == I.n ? &x0 : nullptr);
    c.count(std::string("said:") + tname + "->" + status_name(st.m_status));
    if (what != truth::solvable)
    {
        c.count("clause_status");
        if (conv)
        {
            vf::json_t j;
            j.kv("truth", tname).kv("fx_reported", st.m_fx).kv("iters", st.m_iters).kv("equalities", eqs);
            j.vec("x", st.m_x).kv("program", describe(P));
            if (x0.size() == I.n)
            {
                j.arr("user_x0", x0.data(), static_cast<size_t>(x0.size()));
            }
            const bool astronomic = st.m_x.size() > 0 && !(st.m_x.vector().cwiseAbs().maxCoeff() < 1e8);
            c.violation(std::string("C04|converged-on-") + tname + "|integer-" + kind + (astronomic ? "|astronomic-x" : ""), j);
        }
        c.nontrivial(hash_prog(P));
    }
    else if (conv && has_opt && has_active)
    {
        c.nontrivial(hash_prog(P));
    }

    if (c.want_sample())
    {
        vf::json_t j;
        j.kv("truth", tname).kv("equalities", eqs).kv("rank_Q", rank).kv("solver_said", status_name(st.m_status));
        if (has_opt)
        {
            j.kv("fstar_exact", std::to_string(static_cast<long long>(fstar.n)) + "/" + std::to_string(static_cast<long long>(fstar.d)));
            j.kv("fx", st.m_fx);
        }
        j.kv("program", describe(P));
        c.sample(j);
    }
}
} // namespace

int main(int argc, char** argv)
{
    const auto args = vf::parse_args(argc, argv);
    if (args.mode == "status")
    {
        return vf::run(args, "C04",
                       "case = one program that is infeasible (contradictory half-spaces | inconsistent dependent equalities | "
                       "equality against inequality | Farkas combination of three rows) or unbounded (recession direction d with "
                       "Gd<0, Ad=0, Qd=0, c.d<0, LP or QP) by an exact construction, n in 1..10, optionally restated by "
                       "permutations / power-of-two scalings; every case is non-trivial; distinct by hash(Q,c,A,b,G,h)",
                       case_status);
    }
    if (args.mode == "integer")
    {
        return vf::run(args, "C04",
                       "case = one integer-coefficient LP/QP (n<=3, <=6 inequalities, 0..n-1 equalities plus dependent "
                       "consistent/inconsistent rows) whose status and optimum are decided exactly (Fourier-Motzkin over __int128, "
                       "rational KKT enumeration); non-trivial: program infeasible/unbounded, or `converged` with >= 1 "
                       "inequality active at the exact optimum; distinct by hash(Q,c,A,b,G,h)",
                       case_integer);
    }
    return vf::run(args, "C04",
                   "case = one KKT-constructed LP/QP (n in 1..12, 0..n-1 equalities, 1..2n+2 inequalities, random active set, "
                   "Q=D'D possibly rank-deficient, block magnitudes 1e-2..1e2, default or user x0) plus 1-2 equivalent "
                   "restatements; non-trivial: status `converged` with >= 1 active inequality at x* (original and restated "
                   "programs counted separately); distinct by hash(Q,c,A,b,G,h)",
                   case_kkt);
}
