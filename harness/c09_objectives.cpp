// C09 - ML objectives equal their definitions for any thread count, batch size and caching.
//
// One case = one "object": a random shadow dataset (harness-owned store, see common/shadow_dataset.h), a sample list, a
// loss, regularisers l1/l2, a scaling mode, 3 parameter vectors per objective, a cluster assignment (with unassigned
// samples) and strong/weak learner outputs.  The four objectives (linear::function_t, gboost::bias_function_t,
// gboost::scale_function_t, gboost::grads_function_t) are evaluated by the REAL library under K configurations
// (dataset pool of 1/2/16 + two sizes from 3..15 per case threads x batch 1/2/7/100/10000 x nothing/inputs/targets/both cached) and every value and
// gradient is compared with
//   (a) the naive definition evaluated by the harness one sample at a time, single-threaded, in long double, from the
//       rows of the shadow store (documented encoding, missing -> 0 after scaling with the documented formula and the
//       statistics of the iterator) and the loss applied to a 1-sample tensor, and
//   (b) the results of the same call under the other configurations (spread over the configurations),
// both with the 1e-9 relative tolerance of the statement.
// The monitor observes, through the pool's verification hook, how many batches ran on how many distinct worker threads
// during each evaluated call (relaxed atomics only: no synchronisation is added around the library calls).
#include "common/shadow_dataset.h"
#include "common/vf.h"
#include <algorithm>
#include <atomic>
#include <nano/core/parallel.h>
#include <nano/dataset/iterator.h>
#include <nano/gboost/function.h>
#include <nano/linear/function.h>
#include <nano/loss.h>
#include <chrono>
#include <set>
#include <thread>

using namespace nano;

namespace
{
using ld = long double;

constexpr auto   RLX = std::memory_order_relaxed;
constexpr double TOL = 1e-9; ///< "beyond 1e-9 relative floating-point re-association"

// ---- observation of the worker threads through the pool hook ---------------------------------------------------------
constexpr uint64_t    SLOTS = 4096;
std::atomic<uint64_t> g_next{0};   ///< number of worker threads seen so far (slot = id % SLOTS)
std::atomic<uint64_t> g_epoch{0};  ///< id of the observed call
std::atomic<uint64_t> g_tasks{0};  ///< tasks started by pool workers
std::atomic<uint64_t> g_serial{0}; ///< map() calls that took the serial path
std::atomic<uint64_t> g_seen[SLOTS];
std::atomic<int>      g_spread{0}; ///< 0: leave the schedule alone, 1: yield before every task, 2: yield before + pause after every task
thread_local int64_t  t_slot = -1;

void hook(int point, const void*)
{
    if (point == nano::verif::worker_before_run)
    {
        if (t_slot < 0)
        {
            t_slot = static_cast<int64_t>(g_next.fetch_add(1, RLX) % SLOTS);
        }
        g_seen[t_slot].store(g_epoch.load(RLX), RLX);
        g_tasks.fetch_add(1, RLX);
        // (no pool lock is held here) let the other workers take their share of the batches
        if (g_spread.load(RLX) != 0)
        {
            std::this_thread::yield();
        }
    }
    else if (point == nano::verif::worker_after_run)
    {
        if (g_spread.load(RLX) == 2)
        {
            std::this_thread::sleep_for(std::chrono::microseconds(20));
        }
    }
    else if (point == nano::verif::map_serial)
    {
        g_serial.fetch_add(1, RLX);
    }
}

struct obs_t
{
    uint64_t tasks{0};
    uint64_t workers{0};
    uint64_t serial{0};
};

template <class tcall>
obs_t observed(const uint64_t first_slot, const tcall& call)
{
    const auto epoch = g_epoch.load(RLX) + 1;
    g_epoch.store(epoch, RLX);
    g_tasks.store(0, RLX);
    g_serial.store(0, RLX);
    call();
    obs_t o;
    o.tasks  = g_tasks.load(RLX);
    o.serial = g_serial.load(RLX);
    for (uint64_t s = first_slot, e = g_next.load(RLX); s < e; ++s)
    {
        o.workers += g_seen[s % SLOTS].load(RLX) == epoch ? 1U : 0U;
    }
    return o;
}

// ---- generation -----------------------------------------------------------------------------------------------------
enum : int
{
    t_regression = 0,
    t_sclass     = 1,
    t_mclass     = 2
};

const strings_t& loss_ids()
{
    static const auto ids = []
    {
        auto v = loss_t::all().ids();
        std::sort(v.begin(), v.end());
        return v;
    }();
    return ids;
}

int target_kind_of(const std::string& id)
{
    return id.rfind("s-", 0) == 0 ? t_sclass : (id.rfind("m-", 0) == 0 ? t_mclass : t_regression);
}

// values exactly representable in the storage type (and in double), moderate magnitudes
void fill_continuous(vf::rng_t& rng, shadow::sfeature_t& f, const tensor_size_t samples)
{
    const auto type     = f.feature.type();
    const bool floating = type == feature_type::float32 || type == feature_type::float64;
    const bool isunsig  = type == feature_type::uint8 || type == feature_type::uint16 || type == feature_type::uint32 ||
                         type == feature_type::uint64;
    const auto how      = rng.integer(0, 9);
    const auto offset   = rng.pick(std::vector<double>{0.0, 0.0, 0.0, 10.0, -300.0});
    const auto scale    = rng.pick(std::vector<double>{1.0, 1.0, 0.01, 30.0});
    const auto constant = floating ? offset + scale * rng.normal() : static_cast<double>(rng.integer(isunsig ? 0 : -9, 9));
    for (tensor_size_t s = 0; s < samples; ++s)
    {
        for (tensor_size_t k = 0; k < f.width; ++k)
        {
            double v = 0.0;
            if (how == 0)
            {
                v = constant; // constant column: range 0, deviation 0
            }
            else if (floating)
            {
                v = how <= 2 ? static_cast<double>(rng.integer(-20, 20)) * 0.25 : offset + scale * rng.normal();
            }
            else
            {
                v = static_cast<double>(how <= 4 ? rng.integer(isunsig ? 0 : -9, 9) : rng.integer(isunsig ? 0 : -100, isunsig ? 200 : 100));
            }
            if (type == feature_type::float32)
            {
                v = static_cast<double>(static_cast<float>(v));
            }
            f.at(s, k) = v;
        }
    }
}

shadow::store_t make_store(vf::rng_t& rng, const int tkind)
{
    static const std::vector<feature_type> ctypes = {feature_type::int8,   feature_type::int16,  feature_type::int32,   feature_type::int64,
                                                     feature_type::uint8,  feature_type::uint16, feature_type::uint32,  feature_type::uint64,
                                                     feature_type::float32, feature_type::float64, feature_type::float64, feature_type::float64};
    shadow::store_t st;
    {
        const auto r = rng.integer(0, 9);
        st.samples   = r == 0 ? rng.integer(1, 3) : (r == 1 ? rng.integer(4, 16) : rng.integer(1, 200));
    }
    const auto ninputs = static_cast<int>(rng.integer(1, 10));
    const auto rmiss   = rng.integer(0, 9);
    const auto pmiss   = rmiss <= 1 ? 0.0 : (rmiss == 2 ? 0.9 : rng.uniform(0.0, 0.5));
    const auto tpos    = static_cast<int>(rng.integer(0, ninputs)); // position of the target among the features

    for (int k = 0; k <= ninputs; ++k)
    {
        shadow::sfeature_t f;
        const bool         istarget = k == tpos;
        const auto         name     = std::string(istarget ? "y" : "f") + std::to_string(k);
        if (istarget)
        {
            f.kind = tkind == t_sclass ? shadow::k_sclass : (tkind == t_mclass ? shadow::k_mclass : (rng.chance(0.6) ? shadow::k_scalar : shadow::k_struct));
        }
        else
        {
            f.kind = rng.pick(std::vector<int>{shadow::k_scalar, shadow::k_scalar, shadow::k_struct, shadow::k_sclass, shadow::k_mclass});
        }
        if (f.kind == shadow::k_sclass)
        {
            f.classes = istarget ? rng.integer(2, 6) : rng.integer(2, 8);
            f.width   = 1;
            f.feature = feature_t{name}.sclass(static_cast<size_t>(f.classes));
        }
        else if (f.kind == shadow::k_mclass)
        {
            f.classes = istarget ? rng.integer(1, 5) : rng.integer(1, 6);
            f.width   = f.classes;
            f.feature = feature_t{name}.mclass(static_cast<size_t>(f.classes));
        }
        else
        {
            if (f.kind == shadow::k_struct)
            {
                do
                {
                    f.dims = make_dims(rng.integer(1, 2), rng.integer(1, 3), rng.integer(1, 2));
                } while (nano::size(f.dims) == 1);
            }
            f.width   = nano::size(f.dims);
            f.feature = feature_t{name}.scalar(istarget ? rng.pick(std::vector<feature_type>{feature_type::float64, feature_type::float64, feature_type::float32, feature_type::int16})
                                                        : rng.pick(ctypes),
                                       f.dims);
        }
        const auto rm = rng.integer(0, 19);
        const auto pm = istarget ? 0.0 : (rm <= 1 ? 0.0 : (rm == 2 ? 1.0 : pmiss));
        f.given.assign(static_cast<size_t>(st.samples), 0);
        f.values.assign(static_cast<size_t>(st.samples * f.width), 0.0);
        for (tensor_size_t s = 0; s < st.samples; ++s)
        {
            f.given[static_cast<size_t>(s)] = rng.chance(pm) ? 0 : 1;
        }
        if (f.kind == shadow::k_sclass)
        {
            for (tensor_size_t s = 0; s < st.samples; ++s)
            {
                f.at(s, 0) = static_cast<double>(rng.integer(0, f.classes - 1));
            }
        }
        else if (f.kind == shadow::k_mclass)
        {
            for (tensor_size_t s = 0; s < st.samples * f.width; ++s)
            {
                f.values[static_cast<size_t>(s)] = static_cast<double>(rng.integer(0, 1));
            }
        }
        else
        {
            fill_continuous(rng, f, st.samples);
        }
        // values of missing entries are never written to the library: keep the store clean
        for (tensor_size_t s = 0; s < st.samples; ++s)
        {
            if (!f.has(s))
            {
                for (tensor_size_t k2 = 0; k2 < f.width; ++k2)
                {
                    f.at(s, k2) = 0.0;
                }
            }
        }
        st.features.push_back(std::move(f));
    }
    st.target = tpos;
    return st;
}

std::vector<tensor_size_t> make_samples(vf::rng_t& rng, const tensor_size_t n, std::string& how)
{
    std::vector<tensor_size_t> v;
    const auto                 r = rng.integer(0, 9);
    if (r <= 3 || n <= 2)
    {
        how = "all";
        for (tensor_size_t s = 0; s < n; ++s)
        {
            v.push_back(s);
        }
        return v;
    }
    for (tensor_size_t s = 0; s < n; ++s)
    {
        if (rng.chance(0.8))
        {
            v.push_back(s);
        }
    }
    if (v.empty())
    {
        v.push_back(rng.integer(0, n - 1));
    }
    how = "subset";
    if (r >= 7)
    {
        how = "shuffled-subset";
        for (size_t i = v.size() - 1; i > 0; --i)
        {
            std::swap(v[i], v[static_cast<size_t>(rng.integer(0, static_cast<int64_t>(i)))]);
        }
    }
    if (r == 9)
    {
        how = "shuffled-subset-with-repeats";
        const auto extra = rng.integer(1, std::max<int64_t>(1, static_cast<int64_t>(v.size()) / 4));
        for (int64_t e = 0; e < extra; ++e)
        {
            v.insert(v.begin() + rng.integer(0, static_cast<int64_t>(v.size())), v[static_cast<size_t>(rng.integer(0, static_cast<int64_t>(v.size()) - 1))]);
        }
    }
    return v;
}

// ---- the naive reference ---------------------------------------------------------------------------------------------
struct rows_t
{
    tensor_size_t       n{0}, isize{0}, tsize{0};
    tensor3d_dims_t     tdims{{1, 1, 1}};
    std::vector<double> X; ///< n x isize, scaled, missing -> 0
    std::vector<double> T; ///< n x tsize, scaled
    double              xmax{0.0};
};

// the documented scaling (include/nano/dataset/scaling.h) with the statistics of the iterator, then missing -> 0
double scaled(const scaling_type scaling, const scalar_stats_t& stats, const tensor_size_t col, const double v)
{
    double r = v;
    switch (scaling)
    {
    case scaling_type::mean: r = (v - stats.m_mean(col)) * stats.m_div_range(col); break;
    case scaling_type::minmax: r = (v - stats.m_min(col)) * stats.m_div_range(col); break;
    case scaling_type::standard: r = (v - stats.m_mean(col)) * stats.m_div_stdev(col); break;
    default: break;
    }
    return std::isfinite(r) ? r : 0.0;
}

struct ref_t
{
    bool                ok{true};
    double              f{0.0};
    std::vector<double> g; ///< the gradient of the definition
    std::vector<double> a; ///< per component: mean of the absolute values of the summed terms (re-association scale)
    double              gmax{0.0};
    std::vector<double> raw; ///< gboost-grads: the per-sample loss gradients

    void done()
    {
        ok = std::isfinite(f);
        for (const auto v : g)
        {
            ok   = ok && std::isfinite(v);
            gmax = std::max(gmax, std::fabs(v));
        }
        for (const auto v : a)
        {
            ok = ok && std::isfinite(v);
        }
    }

    double ftol() const { return TOL * std::max(1.0, std::fabs(f)); }

    double gtol(const size_t k) const { return TOL * std::max({1.0, gmax, a[k]}); }
};

// loss value and gradient of ONE sample through the public loss interface
class sample_loss_t
{
public:
    sample_loss_t(const loss_t& loss, const tensor3d_dims_t& tdims)
        : m_loss(loss)
        , m_t(cat_dims(1, tdims))
        , m_o(cat_dims(1, tdims))
        , m_g(cat_dims(1, tdims))
        , m_v(1)
    {
    }

    double eval(const double* target, const double* output, std::vector<double>& grad)
    {
        const auto size = m_t.size();
        for (tensor_size_t o = 0; o < size; ++o)
        {
            m_t(o) = target[o];
            m_o(o) = output[o];
        }
        m_loss.value(m_t, m_o, m_v.tensor());
        m_loss.vgrad(m_t, m_o, m_g.tensor());
        grad.resize(static_cast<size_t>(size));
        for (tensor_size_t o = 0; o < size; ++o)
        {
            grad[static_cast<size_t>(o)] = m_g(o);
        }
        return m_v(0);
    }

private:
    const loss_t& m_loss;
    tensor4d_t    m_t, m_o, m_g;
    tensor1d_t    m_v;
};

ref_t ref_linear(const rows_t& R, const loss_t& loss, const std::vector<double>& x, const double l1, const double l2)
{
    const auto          isize = R.isize, tsize = R.tsize, n = R.n;
    const auto          wsize = static_cast<size_t>(isize * tsize);
    sample_loss_t       sl(loss, R.tdims);
    std::vector<ld>     gsum(x.size(), 0), asum(x.size(), 0);
    std::vector<double> out(static_cast<size_t>(tsize)), vg;
    ld                  fsum = 0;
    for (tensor_size_t i = 0; i < n; ++i)
    {
        const auto* xi = &R.X[static_cast<size_t>(i * isize)];
        for (tensor_size_t o = 0; o < tsize; ++o)
        {
            ld acc = x[wsize + static_cast<size_t>(o)];
            for (tensor_size_t c = 0; c < isize; ++c)
            {
                acc += static_cast<ld>(x[static_cast<size_t>(o * isize + c)]) * static_cast<ld>(xi[c]);
            }
            out[static_cast<size_t>(o)] = static_cast<double>(acc);
        }
        fsum += sl.eval(&R.T[static_cast<size_t>(i * tsize)], out.data(), vg);
        for (tensor_size_t o = 0; o < tsize; ++o)
        {
            const ld go = vg[static_cast<size_t>(o)];
            for (tensor_size_t c = 0; c < isize; ++c)
            {
                const auto k = static_cast<size_t>(o * isize + c);
                gsum[k] += go * static_cast<ld>(xi[c]);
                asum[k] += std::fabs(go * static_cast<ld>(xi[c]));
            }
            gsum[wsize + static_cast<size_t>(o)] += go;
            asum[wsize + static_cast<size_t>(o)] += std::fabs(go);
        }
    }
    ld sabs = 0, ssqr = 0;
    for (size_t k = 0; k < wsize; ++k)
    {
        sabs += std::fabs(static_cast<ld>(x[k]));
        ssqr += static_cast<ld>(x[k]) * static_cast<ld>(x[k]);
    }
    const ld N = static_cast<ld>(n), M = static_cast<ld>(wsize);
    ref_t    r;
    r.f = static_cast<double>(fsum / N + static_cast<ld>(l1) * sabs / M + static_cast<ld>(l2) / 2 * ssqr / M);
    r.g.resize(x.size());
    r.a.resize(x.size());
    for (size_t k = 0; k < x.size(); ++k)
    {
        ld g = gsum[k] / N, a = asum[k] / N;
        if (k < wsize)
        {
            const ld s = x[k] > 0 ? 1 : (x[k] < 0 ? -1 : 0);
            g += static_cast<ld>(l1) * s / M + static_cast<ld>(l2) * static_cast<ld>(x[k]) / M;
            a += std::fabs(static_cast<ld>(l1) * s / M) + std::fabs(static_cast<ld>(l2) * static_cast<ld>(x[k]) / M);
        }
        r.g[k] = static_cast<double>(g);
        r.a[k] = static_cast<double>(a);
    }
    r.done();
    return r;
}

ref_t ref_bias(const rows_t& R, const loss_t& loss, const std::vector<double>& x)
{
    sample_loss_t       sl(loss, R.tdims);
    std::vector<ld>     gsum(x.size(), 0), asum(x.size(), 0);
    std::vector<double> vg;
    ld                  fsum = 0;
    for (tensor_size_t i = 0; i < R.n; ++i)
    {
        fsum += sl.eval(&R.T[static_cast<size_t>(i * R.tsize)], x.data(), vg);
        for (size_t o = 0; o < x.size(); ++o)
        {
            gsum[o] += static_cast<ld>(vg[o]);
            asum[o] += std::fabs(static_cast<ld>(vg[o]));
        }
    }
    ref_t r;
    r.f = static_cast<double>(fsum / static_cast<ld>(R.n));
    for (size_t o = 0; o < x.size(); ++o)
    {
        r.g.push_back(static_cast<double>(gsum[o] / static_cast<ld>(R.n)));
        r.a.push_back(static_cast<double>(asum[o] / static_cast<ld>(R.n)));
    }
    r.done();
    return r;
}

// soutputs/woutputs/groups are indexed by the sample id (not by the position in the sample list)
ref_t ref_scale(const rows_t& R, const loss_t& loss, const std::vector<tensor_size_t>& samples, const std::vector<tensor_size_t>& groups,
                const std::vector<double>& sout, const std::vector<double>& wout, const std::vector<double>& x)
{
    const auto          tsize = static_cast<size_t>(R.tsize);
    sample_loss_t       sl(loss, R.tdims);
    std::vector<ld>     gsum(x.size(), 0), asum(x.size(), 0);
    std::vector<double> out(tsize), vg;
    ld                  fsum = 0;
    for (tensor_size_t i = 0; i < R.n; ++i)
    {
        const auto sid   = static_cast<size_t>(samples[static_cast<size_t>(i)]);
        const auto group = groups[sid];
        for (size_t o = 0; o < tsize; ++o)
        {
            // unassigned samples are not scaled: their prediction stays the one of the strong learner
            out[o] = group < 0 ? sout[sid * tsize + o]
                               : static_cast<double>(static_cast<ld>(sout[sid * tsize + o]) +
                                                     static_cast<ld>(x[static_cast<size_t>(group)]) * static_cast<ld>(wout[sid * tsize + o]));
        }
        fsum += sl.eval(&R.T[static_cast<size_t>(i) * tsize], out.data(), vg);
        if (group >= 0)
        {
            ld dot = 0, adot = 0;
            for (size_t o = 0; o < tsize; ++o)
            {
                dot += static_cast<ld>(vg[o]) * static_cast<ld>(wout[sid * tsize + o]);
                adot += std::fabs(static_cast<ld>(vg[o]) * static_cast<ld>(wout[sid * tsize + o]));
            }
            gsum[static_cast<size_t>(group)] += dot;
            asum[static_cast<size_t>(group)] += adot;
        }
    }
    ref_t r;
    r.f = static_cast<double>(fsum / static_cast<ld>(R.n));
    for (size_t o = 0; o < x.size(); ++o)
    {
        r.g.push_back(static_cast<double>(gsum[o] / static_cast<ld>(R.n)));
        r.a.push_back(static_cast<double>(asum[o] / static_cast<ld>(R.n)));
    }
    r.done();
    return r;
}

// outputs are indexed by the position in the sample list
ref_t ref_grads(const rows_t& R, const loss_t& loss, const std::vector<double>& x)
{
    const auto          tsize = static_cast<size_t>(R.tsize);
    sample_loss_t       sl(loss, R.tdims);
    std::vector<double> vg;
    ld                  fsum = 0;
    ref_t               r;
    for (tensor_size_t i = 0; i < R.n; ++i)
    {
        fsum += sl.eval(&R.T[static_cast<size_t>(i) * tsize], &x[static_cast<size_t>(i) * tsize], vg);
        for (size_t o = 0; o < tsize; ++o)
        {
            r.raw.push_back(vg[o]);
            r.g.push_back(static_cast<double>(static_cast<ld>(vg[o]) / static_cast<ld>(R.n)));
            r.a.push_back(std::fabs(r.g.back()));
        }
    }
    r.f = static_cast<double>(fsum / static_cast<ld>(R.n));
    r.done();
    for (const auto v : r.raw)
    {
        r.ok = r.ok && std::isfinite(v);
    }
    return r;
}

// ---- configurations --------------------------------------------------------------------------------------------------
struct config_t
{
    size_t        threads{1};
    tensor_size_t batch{100};
    int           cache{0}; ///< 0 nothing, 1 inputs+targets, 2 inputs only, 3 targets only, 4 requested but refused (1 byte allowed)
};

const char* cache_name(const int cache)
{
    switch (cache)
    {
    case 0: return "uncached";
    case 1: return "cached";
    case 2: return "inputs-cached";
    case 3: return "targets-cached";
    default: return "cache-refused";
    }
}

std::string describe(const config_t& cfg)
{
    return "threads=" + std::to_string(cfg.threads) + " batch=" + std::to_string(cfg.batch) + " " + cache_name(cfg.cache);
}

enum : int
{
    k_linear = 0,
    k_bias   = 1,
    k_scale  = 2,
    k_grads  = 3
};

const char* kind_name(const int kind)
{
    switch (kind)
    {
    case k_linear: return "linear";
    case k_bias: return "gboost-bias";
    case k_scale: return "gboost-scale";
    default: return "gboost-grads";
    }
}

// spread of the library's own results over the configurations
struct spread_t
{
    double              fmin{std::numeric_limits<double>::infinity()}, fmax{-std::numeric_limits<double>::infinity()};
    std::string         cmin, cmax;
    std::vector<double> gmin, gmax;
    std::vector<int>    gcmin, gcmax; ///< index of the configuration
    int                 evaluations{0};
};

struct monitor_t
{
    vf::ctx_t&            c;
    vf::json_t            base;
    std::set<std::string> reported;
    std::vector<config_t> configs;
    bool                  multi{false}; ///< some evaluated call ran >= 2 batches on >= 2 distinct worker threads

    explicit monitor_t(vf::ctx_t& ctx)
        : c(ctx)
    {
    }

    void violation(const std::string& key, vf::json_t details)
    {
        // one witness per key and case is enough
        if (reported.insert(key).second)
        {
            details.kv("object", base);
            c.violation(key, details);
        }
        c.count("violations_observed");
    }

    void note(const obs_t& o)
    {
        c.count("calls");
        if (o.tasks >= 2 && o.workers >= 2)
        {
            multi = true;
            c.count("calls_2+batches_on_2+workers");
        }
        else if (o.tasks == 0)
        {
            c.count("calls_serial_path");
        }
        else
        {
            c.count("calls_parallel_path_1_worker");
        }
        c.count("batches_run_by_workers", static_cast<int64_t>(o.tasks));
        c.maxc("workers_in_one_call", static_cast<int64_t>(o.workers));
    }

    // value (and gradient) of one evaluation against the naive definition; then folded into the spread
    void judge(const int kind, const int p, const int icfg, const ref_t& ref, spread_t& sp, const double f, const double* g, const size_t gsize,
               const char* call)
    {
        const auto  name = std::string(kind_name(kind));
        const auto& cfg  = configs[static_cast<size_t>(icfg)];
        c.count(name + (g != nullptr ? "_value" : "_value_only"));
        const double ef = std::fabs(f - ref.f);
        c.maxc("worst_value_error_in_1e-6_of_tolerance", static_cast<int64_t>(std::min(1e15, 1e6 * ef / ref.ftol())));
        if (!(ef <= ref.ftol()))
        {
            vf::json_t j;
            j.kv("call", call).kv("config", describe(cfg)).kv("param", p).kv("got", f).kv("expected", ref.f).kv("tolerance", ref.ftol());
            violation("C09|" + std::string(g != nullptr ? "value" : "value-only") + "|" + name, j);
        }
        if (!(f >= sp.fmin))
        {
            sp.fmin = f;
            sp.cmin = describe(cfg) + " " + call;
        }
        if (!(f <= sp.fmax))
        {
            sp.fmax = f;
            sp.cmax = describe(cfg) + " " + call;
        }
        ++sp.evaluations;
        if (g == nullptr)
        {
            return;
        }
        c.count(name + "_gradient");
        c.count(name + "_gradient_components", static_cast<int64_t>(gsize));
        if (sp.gmin.empty())
        {
            sp.gmin.assign(g, g + gsize);
            sp.gmax.assign(g, g + gsize);
            sp.gcmin.assign(gsize, icfg);
            sp.gcmax.assign(gsize, icfg);
        }
        double worst = 0.0;
        size_t kworst = 0;
        for (size_t k = 0; k < gsize; ++k)
        {
            const double e = std::fabs(g[k] - ref.g[k]) / ref.gtol(k);
            if (!(e <= worst))
            {
                worst  = e;
                kworst = k;
            }
            if (!(g[k] >= sp.gmin[k]))
            {
                sp.gmin[k]  = g[k];
                sp.gcmin[k] = icfg;
            }
            if (!(g[k] <= sp.gmax[k]))
            {
                sp.gmax[k]  = g[k];
                sp.gcmax[k] = icfg;
            }
        }
        c.maxc("worst_gradient_error_in_1e-6_of_tolerance", static_cast<int64_t>(std::min(1e15, 1e6 * worst)));
        if (!(worst <= 1.0))
        {
            vf::json_t j;
            j.kv("call", call).kv("config", describe(cfg)).kv("param", p).kv("component", static_cast<long long>(kworst));
            j.kv("components", static_cast<long long>(gsize)).kv("got", g[kworst]).kv("expected", ref.g[kworst]).kv("tolerance", ref.gtol(kworst));
            j.kv("value_got", f).kv("value_expected", ref.f);
            violation("C09|gradient|" + name, j);
        }
    }

    void judge_spread(const int kind, const int p, const ref_t& ref, const spread_t& sp)
    {
        if (sp.evaluations < 2)
        {
            return;
        }
        const auto name = std::string(kind_name(kind));
        c.count(name + "_invariance");
        if (!(sp.fmax - sp.fmin <= ref.ftol()))
        {
            vf::json_t j;
            j.kv("param", p).kv("min", sp.fmin).kv("at", sp.cmin).kv("max", sp.fmax).kv("at_max", sp.cmax).kv("tolerance", ref.ftol());
            violation("C09|invariance-value|" + name, j);
        }
        for (size_t k = 0; k < sp.gmin.size(); ++k)
        {
            if (!(sp.gmax[k] - sp.gmin[k] <= ref.gtol(k)))
            {
                vf::json_t j;
                j.kv("param", p).kv("component", static_cast<long long>(k)).kv("min", sp.gmin[k]).kv("at", describe(configs[static_cast<size_t>(sp.gcmin[k])]));
                j.kv("max", sp.gmax[k]).kv("at_max", describe(configs[static_cast<size_t>(sp.gcmax[k])])).kv("tolerance", ref.gtol(k));
                violation("C09|invariance-gradient|" + name, j);
                break;
            }
        }
    }
};

vector_t to_vector(const std::vector<double>& v)
{
    vector_t x{static_cast<tensor_size_t>(v.size())};
    for (size_t i = 0; i < v.size(); ++i)
    {
        x(static_cast<tensor_size_t>(i)) = v[i];
    }
    return x;
}

uint64_t hash_vec(const std::vector<double>& v, uint64_t h)
{
    return vf::hash_bytes(v.data(), v.size() * sizeof(double), h);
}

void run_case(vf::ctx_t& c)
{
    auto& rng = c.rng;

    // ---- the object ------------------------------------------------------------------------------------------------
    const auto& lids  = loss_ids();
    const auto  lid   = lids[static_cast<size_t>(c.index) % lids.size()]; // every loss in turn
    const auto  tkind = target_kind_of(lid);
    auto        loss  = loss_t::all().get(lid);
    double      alpha = 0.5;
    if (lid == "pinball")
    {
        alpha                                   = rng.chance(0.3) ? rng.pick(std::vector<double>{0.0, 0.5, 1.0}) : rng.u01();
        loss->parameter("loss::pinball::alpha") = alpha;
    }

    const auto store = make_store(rng, tkind);
    auto       stack = shadow::identity_stack();
    if (rng.chance(0.2))
    {
        shadow::gen_spec_t product;
        product.how = shadow::g_product;
        stack.push_back(product);
    }
    if (rng.chance(0.3))
    {
        for (size_t i = stack.size() - 1; i > 0; --i)
        {
            std::swap(stack[i], stack[static_cast<size_t>(rng.integer(0, static_cast<int64_t>(i)))]);
        }
    }
    const auto feats = shadow::expected_features(store, stack);

    std::string samples_how;
    const auto  vsamples = make_samples(rng, store.samples, samples_how);
    const auto  samples  = shadow::to_indices(vsamples);
    const auto  scaling  = static_cast<scaling_type>(rng.integer(0, 3));
    const auto  reg      = rng.integer(0, 9); // 0..2: none, 3..4: l1, 5..6: l2, 7..9: both
    const auto  l1       = (reg == 3 || reg == 4 || reg >= 7) ? rng.loguniform(1e-6, 1e6) : 0.0;
    const auto  l2       = (reg >= 5) ? rng.loguniform(1e-6, 1e6) : 0.0;

    shadow::datasource_t ds(store);
    ds.load();

    rows_t R;
    R.n     = static_cast<tensor_size_t>(vsamples.size());
    R.isize = shadow::total_columns(feats);
    {
        const auto& tf = store.features[static_cast<size_t>(store.target)];
        R.tsize        = tf.target_columns();
        R.tdims        = (tf.kind == shadow::k_sclass || tf.kind == shadow::k_mclass) ? make_dims(tf.classes, 1, 1) : tf.dims;
    }

    // the statistics of the iterator (a 1-thread reference dataset); the values themselves come from the store
    {
        auto refset = dataset_t{ds, 1U};
        shadow::add_generators(refset, stack);
        if (refset.columns() != R.isize || refset.target_dims() != R.tdims || refset.samples() != store.samples)
        {
            // bookkeeping is judged by C08; without it no reference can be built
            c.inconclusive("dataset-bookkeeping-differs-from-the-store");
            return;
        }
        const auto          refit = flatten_iterator_t{refset, samples};
        const auto&         fstat = refit.flatten_stats();
        const auto&         tstat = refit.targets_stats();
        std::vector<double> row;
        for (tensor_size_t i = 0; i < R.n; ++i)
        {
            const auto sid = vsamples[static_cast<size_t>(i)];
            shadow::ref_flatten_row(store, feats, sid, row);
            for (tensor_size_t col = 0; col < R.isize; ++col)
            {
                const auto v = scaled(scaling, fstat, col, row[static_cast<size_t>(col)]);
                R.X.push_back(v);
                R.xmax = std::max(R.xmax, std::fabs(v));
            }
            shadow::ref_target_row(store, sid, row);
            for (tensor_size_t col = 0; col < R.tsize; ++col)
            {
                R.T.push_back(scaled(scaling, tstat, col, row[static_cast<size_t>(col)]));
            }
        }
    }

    // parameter vectors
    constexpr int                    P = 3;
    std::vector<std::vector<double>> xlin(P), xbias(P), xscale(P), xgrads(2);
    const auto                       wsize = static_cast<size_t>(R.isize * R.tsize);
    for (int p = 0; p < P; ++p)
    {
        const auto s  = rng.pick(std::vector<double>{0.1, 1.0, 3.0});
        const auto sw = s / (std::max(R.xmax, 0.1) * std::sqrt(static_cast<double>(R.isize)));
        const auto pz = p == 1 ? (rng.chance(0.15) ? 1.0 : 0.5) : 0.0; // the second vector is sparse (sign(0), whole W = 0)
        for (size_t k = 0; k < wsize + static_cast<size_t>(R.tsize); ++k)
        {
            xlin[static_cast<size_t>(p)].push_back(rng.chance(pz) ? 0.0 : (k < wsize ? sw : s) * rng.normal());
        }
        for (tensor_size_t k = 0; k < R.tsize; ++k)
        {
            xbias[static_cast<size_t>(p)].push_back(rng.chance(pz) ? 0.0 : s * rng.normal());
        }
    }
    const auto                 G = rng.integer(1, 4);
    std::vector<tensor_size_t> groups(static_cast<size_t>(store.samples), -1);
    const auto                 punassigned = rng.pick(std::vector<double>{0.0, 0.2, 0.2, 0.7});
    cluster_t                  cluster(store.samples, G);
    for (tensor_size_t s = 0; s < store.samples; ++s)
    {
        if (!rng.chance(punassigned))
        {
            groups[static_cast<size_t>(s)] = rng.integer(0, G - 1);
            cluster.assign(s, groups[static_cast<size_t>(s)]);
        }
    }
    const auto          oscale = rng.loguniform(1e-2, 3.0);
    const auto          wzero  = rng.chance(0.5); // weak learner silent on the samples it does not cover (as in gboost fits)
    std::vector<double> sout(static_cast<size_t>(store.samples * R.tsize)), wout(sout.size());
    for (size_t i = 0; i < sout.size(); ++i)
    {
        const auto sid = i / static_cast<size_t>(R.tsize);
        sout[i]        = oscale * rng.uniform(-1.0, 1.0);
        wout[i]        = (rng.chance(0.1) || (wzero && groups[sid] < 0)) ? 0.0 : oscale * rng.uniform(-1.0, 1.0);
    }
    tensor4d_t soutputs(cat_dims(store.samples, R.tdims)), woutputs(cat_dims(store.samples, R.tdims));
    for (size_t i = 0; i < sout.size(); ++i)
    {
        soutputs(static_cast<tensor_size_t>(i)) = sout[i];
        woutputs(static_cast<tensor_size_t>(i)) = wout[i];
    }
    for (int p = 0; p < P; ++p)
    {
        const auto s = rng.pick(std::vector<double>{0.1, 1.0, 3.0});
        for (tensor_size_t g = 0; g < G; ++g)
        {
            xscale[static_cast<size_t>(p)].push_back((p == 1 && rng.chance(0.5)) ? 0.0 : s * rng.normal());
        }
    }
    for (auto& x : xgrads)
    {
        const auto s = rng.pick(std::vector<double>{0.1, 1.0, 3.0});
        for (tensor_size_t k = 0; k < R.n * R.tsize; ++k)
        {
            x.push_back(s * rng.normal());
        }
    }

    // configurations: distinct (threads, batch) pairs first, grouped by pool size
    const auto            nconf = std::max<int64_t>(2, std::atoll(c.args.get("configs", c.args.thorough() ? "25" : "10").c_str()));
    std::vector<config_t> configs;
    {
        std::vector<std::pair<size_t, tensor_size_t>> grid;
        // pool sizes: 1, 2, 16 always, plus two sizes drawn from 3..15 per case (every size of the quantifier 1..16 is
        // reached: reductions over the per-thread accumulators may be wrong for particular counts only)
        const auto r1 = static_cast<size_t>(rng.integer(3, 15));
        auto       r2 = static_cast<size_t>(rng.integer(3, 15));
        r2            = (r2 == r1) ? (r1 == 15U ? 3U : r1 + 1U) : r2;
        for (const size_t threads : {size_t(1), size_t(2), r1, r2, size_t(16)})
        {
            for (const tensor_size_t batch : {1, 2, 7, 100, 10000})
            {
                grid.emplace_back(threads, batch);
            }
        }
        for (size_t i = grid.size() - 1; i > 0; --i)
        {
            std::swap(grid[i], grid[static_cast<size_t>(rng.integer(0, static_cast<int64_t>(i)))]);
        }
        for (int64_t i = 0; i < nconf; ++i)
        {
            config_t cfg;
            cfg.threads  = grid[static_cast<size_t>(i) % grid.size()].first;
            cfg.batch    = grid[static_cast<size_t>(i) % grid.size()].second;
            const auto r = rng.integer(0, 19);
            cfg.cache    = r < 8 ? 0 : (r < 15 ? 1 : (r < 17 ? 2 : (r < 19 ? 3 : 4)));
            configs.push_back(cfg);
        }
        std::stable_sort(configs.begin(), configs.end(), [](const config_t& a, const config_t& b) { return a.threads < b.threads; });
    }

    // ---- the references ---------------------------------------------------------------------------------------------
    std::vector<ref_t> rlin, rbias, rscale, rgrads;
    for (int p = 0; p < P; ++p)
    {
        rlin.push_back(ref_linear(R, *loss, xlin[static_cast<size_t>(p)], l1, l2));
        rbias.push_back(ref_bias(R, *loss, xbias[static_cast<size_t>(p)]));
        rscale.push_back(ref_scale(R, *loss, vsamples, groups, sout, wout, xscale[static_cast<size_t>(p)]));
    }
    for (const auto& x : xgrads)
    {
        rgrads.push_back(ref_grads(R, *loss, x));
    }
    int usable = 0;
    for (const auto* refs : {&rlin, &rbias, &rscale, &rgrads})
    {
        for (const auto& r : *refs)
        {
            usable += r.ok ? 1 : 0;
            if (!r.ok)
            {
                c.count("skipped_nonfinite_reference");
            }
        }
    }
    if (usable == 0)
    {
        c.inconclusive("no-finite-reference");
        return;
    }

    // perturbation of the worker schedule (not part of the decoded case: the results must not depend on it)
    const auto spread = static_cast<int>(rng.integer(0, 3) % 3);
    g_spread.store(spread, RLX);
    c.count("schedule:" + std::string(spread == 0 ? "untouched" : (spread == 1 ? "yield-before-task" : "yield-before+pause-after-task")));

    monitor_t m(c);
    m.configs = configs;
    m.base.kv("loss", lid).kv("samples", static_cast<long long>(R.n)).kv("of", static_cast<long long>(store.samples)).kv("sample_list", samples_how);
    m.base.kv("store", shadow::describe(store)).kv("stack", shadow::describe(stack)).kv("inputs", static_cast<long long>(R.isize));
    m.base.kv("targets", static_cast<long long>(R.tsize)).kv("missing", static_cast<long long>(store.missing()));
    m.base.kv("scaling", scat(scaling)).kv("l1", l1).kv("l2", l2).kv("groups", static_cast<long long>(G));
    if (lid == "pinball")
    {
        m.base.kv("alpha", alpha);
    }

    std::vector<spread_t> slin(P), sbias(P), sscale(P), sgrads(xgrads.size()), sraw(xgrads.size());

    // ---- the library under every configuration ----------------------------------------------------------------------
    std::unique_ptr<dataset_t> dataset;
    uint64_t                   first_slot = 0;
    for (int icfg = 0; icfg < static_cast<int>(configs.size()); ++icfg)
    {
        const auto& cfg = configs[static_cast<size_t>(icfg)];
        if (!dataset || dataset->concurrency() != cfg.threads)
        {
            dataset.reset(); // joins the previous pool
            first_slot = g_next.load(RLX);
            dataset    = std::make_unique<dataset_t>(ds, cfg.threads);
            shadow::add_generators(*dataset, stack);
            if (dataset->concurrency() != cfg.threads)
            {
                c.inconclusive("pool-size-clamped");
                return;
            }
        }
        c.count("configurations");
        const auto max_bytes = cfg.cache == 4 ? tensor_size_t{1} : (tensor_size_t{1} << 30);

        // linear model objective
        {
            auto iterator = flatten_iterator_t{*dataset, samples};
            iterator.batch(cfg.batch);
            iterator.scaling(scaling);
            if (cfg.cache == 1 || cfg.cache == 2 || cfg.cache == 4)
            {
                const auto cached = iterator.cache_flatten(max_bytes);
                c.count(cached ? "inputs_cached" : "inputs_cache_refused");
            }
            if (cfg.cache == 1 || cfg.cache == 3 || cfg.cache == 4)
            {
                const auto cached = iterator.cache_targets(max_bytes);
                c.count(cached ? "targets_cached" : "targets_cache_refused");
            }
            const auto function = linear::function_t{iterator, *loss, l1, l2};
            if (function.size() != static_cast<tensor_size_t>(wsize) + R.tsize)
            {
                vf::json_t j;
                j.kv("size", static_cast<long long>(function.size())).kv("expected", static_cast<long long>(wsize) + R.tsize);
                m.violation("C09|parameters|linear", j);
                continue;
            }
            for (int p = 0; p < P; ++p)
            {
                if (!rlin[static_cast<size_t>(p)].ok)
                {
                    continue;
                }
                const auto x = to_vector(xlin[static_cast<size_t>(p)]);
                vector_t   gx{x.size()};
                gx.full(std::numeric_limits<double>::quiet_NaN());
                double fx = 0.0, fv = 0.0;
                m.note(observed(first_slot, [&] { fx = function.vgrad(x, gx); }));
                m.judge(k_linear, p, icfg, rlin[static_cast<size_t>(p)], slin[static_cast<size_t>(p)], fx, gx.data(), static_cast<size_t>(gx.size()), "vgrad(x,gx)");
                m.note(observed(first_slot, [&] { fv = function.vgrad(x); }));
                m.judge(k_linear, p, icfg, rlin[static_cast<size_t>(p)], slin[static_cast<size_t>(p)], fv, nullptr, 0, "vgrad(x)");
            }
        }

        // gradient boosting objectives
        {
            auto iterator = targets_iterator_t{*dataset, samples};
            iterator.batch(cfg.batch);
            iterator.scaling(scaling);
            if (cfg.cache == 1 || cfg.cache == 3 || cfg.cache == 4)
            {
                iterator.cache_targets(max_bytes);
            }
            const auto fbias  = gboost::bias_function_t{iterator, *loss};
            const auto fscale = gboost::scale_function_t{iterator, *loss, cluster, soutputs, woutputs};
            const auto fgrads = gboost::grads_function_t{iterator, *loss};
            if (fbias.size() != R.tsize || fscale.size() != G || fgrads.size() != R.n * R.tsize)
            {
                vf::json_t j;
                j.kv("bias", static_cast<long long>(fbias.size())).kv("scale", static_cast<long long>(fscale.size())).kv("grads", static_cast<long long>(fgrads.size()));
                m.violation("C09|parameters|gboost", j);
                continue;
            }
            for (int p = 0; p < P; ++p)
            {
                // interleaved on purpose: every function object is called again after it has been used
                if (rbias[static_cast<size_t>(p)].ok)
                {
                    const auto x = to_vector(xbias[static_cast<size_t>(p)]);
                    vector_t   gx{x.size()};
                    gx.full(std::numeric_limits<double>::quiet_NaN());
                    double fx = 0.0, fv = 0.0;
                    m.note(observed(first_slot, [&] { fv = fbias.vgrad(x); }));
                    m.judge(k_bias, p, icfg, rbias[static_cast<size_t>(p)], sbias[static_cast<size_t>(p)], fv, nullptr, 0, "vgrad(x)");
                    m.note(observed(first_slot, [&] { fx = fbias.vgrad(x, gx); }));
                    m.judge(k_bias, p, icfg, rbias[static_cast<size_t>(p)], sbias[static_cast<size_t>(p)], fx, gx.data(), static_cast<size_t>(gx.size()), "vgrad(x,gx)");
                }
                if (rscale[static_cast<size_t>(p)].ok)
                {
                    const auto x = to_vector(xscale[static_cast<size_t>(p)]);
                    vector_t   gx{x.size()};
                    gx.full(std::numeric_limits<double>::quiet_NaN());
                    double fx = 0.0, fv = 0.0;
                    m.note(observed(first_slot, [&] { fx = fscale.vgrad(x, gx); }));
                    m.judge(k_scale, p, icfg, rscale[static_cast<size_t>(p)], sscale[static_cast<size_t>(p)], fx, gx.data(), static_cast<size_t>(gx.size()), "vgrad(x,gx)");
                    m.note(observed(first_slot, [&] { fv = fscale.vgrad(x); }));
                    m.judge(k_scale, p, icfg, rscale[static_cast<size_t>(p)], sscale[static_cast<size_t>(p)], fv, nullptr, 0, "vgrad(x)");
                }
            }
            for (size_t p = 0; p < xgrads.size(); ++p)
            {
                const auto& ref = rgrads[p];
                if (!ref.ok)
                {
                    continue;
                }
                const auto x = to_vector(xgrads[p]);
                vector_t   gx{x.size()};
                gx.full(std::numeric_limits<double>::quiet_NaN());
                double fx = 0.0, fv = 0.0;
                m.note(observed(first_slot, [&] { fx = fgrads.vgrad(x, gx); }));
                m.judge(k_grads, static_cast<int>(p), icfg, ref, sgrads[p], fx, gx.data(), static_cast<size_t>(gx.size()), "vgrad(x,gx)");
                m.note(observed(first_slot, [&] { fv = fgrads.vgrad(x); }));
                m.judge(k_grads, static_cast<int>(p), icfg, ref, sgrads[p], fv, nullptr, 0, "vgrad(x)");

                // the per-sample loss gradients (what the boosting rounds consume)
                const tensor4d_t* raw = nullptr;
                m.note(observed(first_slot, [&] { raw = &fgrads.gradients(map_tensor(x.data(), cat_dims(R.n, R.tdims))); }));
                c.count("gboost-grads_per_sample_gradients", static_cast<int64_t>(R.n));
                double rmax = 1.0;
                for (const auto v : ref.raw)
                {
                    rmax = std::max(rmax, std::fabs(v));
                }
                if (raw->size() != static_cast<tensor_size_t>(ref.raw.size()))
                {
                    vf::json_t j;
                    j.kv("size", static_cast<long long>(raw->size())).kv("expected", static_cast<long long>(ref.raw.size()));
                    m.violation("C09|per-sample-gradients|gboost-grads", j);
                    continue;
                }
                for (size_t k = 0; k < ref.raw.size(); ++k)
                {
                    const double got = (*raw)(static_cast<tensor_size_t>(k));
                    if (!(std::fabs(got - ref.raw[k]) <= TOL * rmax))
                    {
                        vf::json_t j;
                        j.kv("config", describe(cfg)).kv("param", static_cast<long long>(p)).kv("position", static_cast<long long>(k / static_cast<size_t>(R.tsize)));
                        j.kv("output", static_cast<long long>(k % static_cast<size_t>(R.tsize))).kv("got", got).kv("expected", ref.raw[k]);
                        m.violation("C09|per-sample-gradients|gboost-grads", j);
                        break;
                    }
                }
            }
        }
    }
    dataset.reset();

    // ---- the same call must not depend on the configuration ----------------------------------------------------------
    for (int p = 0; p < P; ++p)
    {
        m.judge_spread(k_linear, p, rlin[static_cast<size_t>(p)], slin[static_cast<size_t>(p)]);
        m.judge_spread(k_bias, p, rbias[static_cast<size_t>(p)], sbias[static_cast<size_t>(p)]);
        m.judge_spread(k_scale, p, rscale[static_cast<size_t>(p)], sscale[static_cast<size_t>(p)]);
    }
    for (size_t p = 0; p < xgrads.size(); ++p)
    {
        m.judge_spread(k_grads, static_cast<int>(p), rgrads[p], sgrads[p]);
    }

    // ---- evidence -----------------------------------------------------------------------------------------------------
    c.count(std::string("loss:") + lid);
    c.count(std::string("scaling:") + scat(scaling));
    c.count(l1 > 0.0 || l2 > 0.0 ? "objects_with_regulariser" : "objects_without_regulariser");
    if (store.missing() > 0)
    {
        c.count("objects_with_missing_values");
    }
    bool unassigned = false;
    for (const auto sid : vsamples)
    {
        unassigned = unassigned || groups[static_cast<size_t>(sid)] < 0;
    }
    if (unassigned)
    {
        c.count("objects_with_unassigned_samples");
    }
    if (m.multi)
    {
        uint64_t h = store.hash();
        h          = vf::mix(h, vf::hash_str(lid.c_str()));
        h          = vf::hash_double(l1, vf::hash_double(l2, vf::hash_double(alpha, h)));
        h          = vf::mix(h, static_cast<uint64_t>(scaling) * 131ULL + static_cast<uint64_t>(G));
        h          = vf::hash_bytes(vsamples.data(), vsamples.size() * sizeof(tensor_size_t), h);
        h          = vf::hash_bytes(groups.data(), groups.size() * sizeof(tensor_size_t), h);
        for (const auto* xs : {&xlin, &xbias, &xscale, &xgrads})
        {
            for (const auto& x : *xs)
            {
                h = hash_vec(x, h);
            }
        }
        h = hash_vec(sout, hash_vec(wout, h));
        for (const auto& cfg : configs)
        {
            h = vf::mix(h, cfg.threads * 1000003ULL + static_cast<uint64_t>(cfg.batch) * 17ULL + static_cast<uint64_t>(cfg.cache));
        }
        c.nontrivial(h);
        if (l1 > 0.0 || l2 > 0.0)
        {
            c.count("nontrivial_with_regulariser");
        }
    }
    if (c.want_sample())
    {
        vf::json_t               j = m.base;
        std::vector<std::string> cs;
        for (const auto& cfg : configs)
        {
            cs.push_back(describe(cfg));
        }
        j.strs("configurations", cs);
        j.kv("linear_value_expected", rlin[0].f).kv("bias_value_expected", rbias[0].f).kv("scale_value_expected", rscale[0].f);
        j.kv("grads_value_expected", rgrads[0].f).kv("two_batches_on_two_workers", m.multi);
        j.arr("linear_parameters", xlin[0].data(), xlin[0].size(), 12);
        j.arr("linear_gradient_expected", rlin[0].g.data(), rlin[0].g.size(), 12);
        c.sample(j);
    }
}
} // namespace

int main(int argc, char** argv)
{
    const auto args = vf::parse_args(argc, argv);
    // pools of 16 threads even on smaller machines
    if (std::thread::hardware_concurrency() < 16U)
    {
        nano::verif::pool_max_size().store(16U);
    }
    nano::verif::pool_hook().store(&hook);

    return vf::run(args, "C09",
                   "case = one object: shadow dataset (1..200 samples, 1..10 mixed input features over 12 storage types, missing values, scalar/"
                   "structured/sclass/mclass target) + sample list (all/subset/shuffled/repeats) + loss (17 in turn) + l1,l2 in {0} u [1e-6,1e6] + "
                   "scaling + 3 parameter vectors per objective (dense, sparse, zero) + cluster assignment with unassigned samples + strong/weak "
                   "outputs; linear, gboost bias/scale/grads objectives evaluated (value+gradient and value-only, repeatedly on the same function "
                   "object) under K configurations of pool {1,2,3,8,16} x batch {1,2,7,100,10000} x cache {none,both,inputs,targets,refused} and "
                   "compared with the naive per-sample long-double definition and with each other (tolerance 1e-9 relative); non-trivial: at "
                   "least one evaluated library call ran >= 2 batches on >= 2 distinct worker threads (observed through the pool hook during that "
                   "very call); distinct by hash(store, loss, regularisers, scaling, sample list, parameters, clusters, outputs, configurations)",
                   run_case);
}
