// C08 - all dataset views agree with the stored feature values, incl. missing ones.
//
// Monitor: a shadow datasource (common/shadow_dataset.h) fills the library's in-memory datasource through the protected
// set() API and keeps its own std::vector store as the reference.  Every element returned by dataset_t::flatten /
// select / targets (directly and through flatten_iterator_t / targets_iterator_t / select_iterator_t, dataset pools of
// 1..16 threads, batch sizes 1..L+1) is compared with the value derived from the store under the documented encodings;
// the feature/column bookkeeping is compared with the feature list derived from the store and the generator stack;
// drop/undrop/shuffle/unshuffle histories run against a small reference state machine; indices outside the valid
// range must be rejected with an exception.
//
// modes:  default  - everything, single datasets with pools of 1..16 threads
//         threads  - pools of 2..16 threads, many iterator loops with small batches (the TSan stage)
#include "common/shadow_dataset.h"
#include <algorithm>
#include <atomic>
#include <nano/dataset/iterator.h>

using namespace nano;

namespace
{
constexpr double  sentinel_f64 = -7.77e+77;
constexpr int32_t sentinel_i32 = 0x5a5a5a5a;
constexpr int8_t  sentinel_i08 = 0x5a;

enum : int
{
    st_normal   = 1,
    st_dropped  = 2,
    st_shuffled = 4
};

const char* state_name(const int state)
{
    switch (state)
    {
    case st_normal: return "normal";
    case st_dropped: return "dropped";
    case st_shuffled: return "shuffled";
    default: return "ambiguous";
    }
}

bool same(const double a, const double b)
{
    return (std::isnan(a) && std::isnan(b)) || a == b;
}

using list_t = std::vector<tensor_size_t>;

indices_t to_indices(const list_t& list)
{
    return shadow::to_indices(list);
}

bool is_identity(const list_t& list, const tensor_size_t samples)
{
    if (static_cast<tensor_size_t>(list.size()) != samples)
    {
        return false;
    }
    for (tensor_size_t i = 0; i < samples; ++i)
    {
        if (list[static_cast<size_t>(i)] != i)
        {
            return false;
        }
    }
    return true;
}

list_t make_list(vf::rng_t& rng, const tensor_size_t N, const int shape)
{
    list_t l;
    switch (shape)
    {
    case 0: // all samples in order
        for (tensor_size_t i = 0; i < N; ++i)
        {
            l.push_back(i);
        }
        break;
    case 1: // reversed
        for (tensor_size_t i = N; i > 0; --i)
        {
            l.push_back(i - 1);
        }
        break;
    case 2: // random with repetitions, up to twice as long as the dataset
        for (tensor_size_t i = 0, n = rng.integer(1, 2 * N); i < n; ++i)
        {
            l.push_back(rng.integer(0, N - 1));
        }
        break;
    case 3: // single element
    {
        const auto r = rng.integer(0, 2);
        l.push_back(r == 0 ? 0 : (r == 1 ? N - 1 : rng.integer(0, N - 1)));
        break;
    }
    case 4: // sorted subset
        for (tensor_size_t i = 0; i < N; ++i)
        {
            if (rng.chance(0.5))
            {
                l.push_back(i);
            }
        }
        if (l.empty())
        {
            l.push_back(rng.integer(0, N - 1));
        }
        break;
    case 5: // boundary values first/last, repeated
        for (tensor_size_t i = 0, n = rng.integer(2, 9); i < n; ++i)
        {
            l.push_back(rng.chance(0.5) ? N - 1 : (rng.chance(0.5) ? 0 : rng.integer(0, N - 1)));
        }
        break;
    case 6: // a permutation of all samples
        for (tensor_size_t i = 0; i < N; ++i)
        {
            l.push_back(i);
        }
        for (tensor_size_t i = N - 1; i > 0; --i)
        {
            std::swap(l[static_cast<size_t>(i)], l[static_cast<size_t>(rng.integer(0, i))]);
        }
        break;
    case 8: // the empty list (valid: nothing to read)
        break;
    default: // N + 1 entries (one more than there are samples)
        for (tensor_size_t i = 0; i <= N; ++i)
        {
            l.push_back(rng.chance(0.7) ? (i % N) : rng.integer(0, N - 1));
        }
        break;
    }
    return l;
}

uint64_t hash_list(const list_t& l, const uint64_t h)
{
    return vf::hash_bytes(l.data(), l.size() * sizeof(tensor_size_t), h);
}

struct fstate_t
{
    int    cands{st_normal}; ///< set of states the statement allows for this feature right now
    list_t perm;             ///< the bijection reported by the library when the feature was shuffled last
};

///
/// \brief a copy of what the library returned for one sample list (direct views).
///
struct view_t
{
    list_t                           list;
    tensor_size_t                    rows{0};
    tensor_size_t                    cols{0};
    bool                             flat_ok{false};
    std::vector<double>              flat; ///< rows x cols
    std::vector<std::vector<double>> sel;  ///< per feature: rows x width (empty: not taken)
    std::vector<uint8_t>             sel_ok;
};

struct mismatch_t
{
    std::string   clause;
    tensor_size_t row{0};
    tensor_size_t col{0};
    tensor_size_t sample{0};
    double        got{0};
    double        expected{0};
};

struct rec_t
{
    tensor_size_t       begin{0};
    tensor_size_t       end{0};
    tensor_size_t       feature{-1};
    size_t              tnum{0};
    bool                dims_ok{true};
    std::vector<double> flat;
    std::vector<double> targ;
};

class monitor_t
{
public:
    monitor_t(vf::ctx_t& c, const shadow::store_t& store, const shadow::stack_t& stack, const shadow::efeatures_t& feats,
              const dataset_t& dataset)
        : c(c)
        , rng(c.rng)
        , store(store)
        , stack(stack)
        , feats(feats)
        , dataset(dataset)
        , N(store.samples)
        , F(static_cast<tensor_size_t>(feats.size()))
        , cols(shadow::total_columns(feats))
        , states(feats.size())
    {
        tensor_size_t off = 0;
        for (const auto& e : feats)
        {
            offsets.push_back(off);
            off += e.columns;
        }
    }

    // ---------------------------------------------------------------------------------------------------------
    void violation(const std::string& key, vf::json_t j)
    {
        // one report per key and case, a bounded number of keys per case
        if (std::find(reported.begin(), reported.end(), key) != reported.end() || budget <= 0)
        {
            c.count("violations_not_printed");
            return;
        }
        reported.push_back(key);
        --budget;
        j.kv("samples", static_cast<long long>(N));
        j.kv("store", shadow::describe(store));
        j.kv("stack", shadow::describe(stack));
        j.kv("history", history);
        c.violation(key, j);
    }

    std::string feature_tag(const size_t fi) const
    {
        const auto& e = feats[fi];
        std::string s = shadow::generator_name(e.how);
        if (e.how == shadow::g_gradient && e.columns == 1)
        {
            s += "-1x1x1";
        }
        return s;
    }

    vf::json_t feature_json(const size_t fi) const
    {
        const auto& e = feats[fi];
        vf::json_t  j;
        j.kv("feature", static_cast<long long>(fi)).kv("generator", e.generator).kv("how", shadow::generator_name(e.how));
        j.kv("kind", shadow::kind_name(e.kind)).kv("src1", e.src1).kv("src2", e.src2);
        j.kv("columns", static_cast<long long>(e.columns)).kv("column_offset", static_cast<long long>(offsets[fi]));
        j.kv("allowed_states", states[fi].cands);
        return j;
    }

    // ---------------------------------------------------------------------------------------------------------
    // bookkeeping: counts, column-to-feature map, descriptors, target
    bool check_bookkeeping()
    {
        c.count("bookkeeping_checks");
        bool ok = true;
        if (dataset.features() != F || dataset.columns() != cols)
        {
            vf::json_t j;
            j.kv("features", static_cast<long long>(dataset.features())).kv("expected_features", static_cast<long long>(F));
            j.kv("columns", static_cast<long long>(dataset.columns())).kv("expected_columns", static_cast<long long>(cols));
            violation(dataset.features() != F ? "C08|bookkeeping|features" : "C08|bookkeeping|columns", j);
            return false;
        }
        if (dataset.samples() != N)
        {
            violation("C08|bookkeeping|samples", vf::json_t().kv("got", static_cast<long long>(dataset.samples())));
            ok = false;
        }
        for (size_t fi = 0; fi < feats.size() && ok; ++fi)
        {
            const auto& e  = feats[fi];
            const auto  d  = dataset.feature(static_cast<tensor_size_t>(fi));
            const auto& s1 = store.features[static_cast<size_t>(e.src1)];
            c.count("descriptor_checks");
            bool good = true;
            const int kind = d.is_scalar() ? shadow::k_scalar : (d.is_struct() ? shadow::k_struct : (d.is_sclass() ? shadow::k_sclass : (d.is_mclass() ? shadow::k_mclass : -1)));
            good = good && kind == e.kind;
            if (e.kind == shadow::k_sclass || e.kind == shadow::k_mclass)
            {
                good = good && d.classes() == e.classes;
            }
            else
            {
                good = good && d.dims() == e.dims;
            }
            if (e.how <= shadow::g_mclass)
            {
                // identity: the descriptor is the one of the stored feature
                good = good && d == s1.feature;
            }
            else
            {
                good = good && d.type() == feature_type::float64;
                good = good && d.name().find(s1.feature.name()) != std::string::npos;
                if (e.how == shadow::g_product)
                {
                    good = good && d.name().find(store.features[static_cast<size_t>(e.src2)].feature.name()) != std::string::npos;
                }
                else
                {
                    good = good && d.name().find("channel::" + std::to_string(e.channel)) != std::string::npos;
                }
            }
            if (!good)
            {
                auto j = feature_json(fi);
                j.kv("got_name", d.name()).kv("got_type", scat(d.type())).kv("got_classes", static_cast<long long>(d.classes()));
                j.kv("got_dims", scat(d.dims())).kv("expected_dims", scat(e.dims)).kv("expected_classes", static_cast<long long>(e.classes));
                j.kv("source_name", s1.feature.name());
                violation("C08|bookkeeping|descriptor|" + feature_tag(fi), j);
                ok = false;
            }
            for (tensor_size_t col = 0; col < e.columns; ++col)
            {
                c.count("column2feature_checks");
                if (dataset.column2feature(offsets[fi] + col) != static_cast<tensor_size_t>(fi))
                {
                    auto j = feature_json(fi);
                    j.kv("column", static_cast<long long>(offsets[fi] + col)).kv("got", static_cast<long long>(dataset.column2feature(offsets[fi] + col)));
                    violation("C08|bookkeeping|column2feature", j);
                    ok = false;
                    break;
                }
            }
        }
        // target
        c.count("target_descriptor_checks");
        if (store.target < 0)
        {
            if (dataset.target().valid() || dataset.type() != task_type::unsupervised || dataset.target_dims() != make_dims(0, 0, 0))
            {
                violation("C08|bookkeeping|target", vf::json_t().kv("expected", "none").kv("got", dataset.target().name()));
                ok = false;
            }
        }
        else
        {
            const auto& t     = store.features[static_cast<size_t>(store.target)];
            const auto  edims = (t.kind == shadow::k_sclass || t.kind == shadow::k_mclass) ? make_dims(t.classes, 1, 1) : t.dims;
            const auto  etask = t.kind == shadow::k_sclass ? task_type::sclassification : (t.kind == shadow::k_mclass ? task_type::mclassification : task_type::regression);
            if (dataset.target() != t.feature || dataset.target_dims() != edims || dataset.type() != etask)
            {
                vf::json_t j;
                j.kv("expected", t.feature.name()).kv("got", dataset.target().name()).kv("got_dims", scat(dataset.target_dims())).kv("expected_dims", scat(edims));
                violation("C08|bookkeeping|target", j);
                ok = false;
            }
        }
        return ok;
    }

    // ---------------------------------------------------------------------------------------------------------
    // direct views
    template <class tbuffer, class tvalue>
    void prepare(tbuffer& buffer, const tvalue sentinel)
    {
        // sometimes a fresh (empty) buffer, sometimes a larger recycled one pre-filled with a sentinel
        if (rng.chance(0.3))
        {
            buffer = tbuffer{};
        }
        else if (buffer.size() > 0)
        {
            buffer.full(sentinel);
        }
    }

    void take_flatten(view_t& v)
    {
        const auto samples = to_indices(v.list);
        prepare(fbuf, sentinel_f64);
        const auto flat = dataset.flatten(samples, fbuf);
        c.count("flatten_calls");
        if (flat.size<0>() != v.rows || flat.size<1>() != cols)
        {
            vf::json_t j;
            j.kv("rows", static_cast<long long>(flat.size<0>())).kv("cols", static_cast<long long>(flat.size<1>()));
            j.kv("expected_rows", static_cast<long long>(v.rows)).kv("expected_cols", static_cast<long long>(cols));
            violation("C08|flatten|shape", j);
            return;
        }
        v.flat.resize(static_cast<size_t>(v.rows * cols));
        for (tensor_size_t i = 0; i < v.rows; ++i)
        {
            for (tensor_size_t col = 0; col < cols; ++col)
            {
                v.flat[static_cast<size_t>(i * cols + col)] = flat(i, col);
            }
        }
        v.flat_ok = true;
    }

    void take_select(view_t& v, const size_t fi)
    {
        const auto& e       = feats[fi];
        const auto  samples = to_indices(v.list);
        const auto  f       = static_cast<tensor_size_t>(fi);
        auto&       out     = v.sel[fi];
        out.assign(static_cast<size_t>(v.rows * e.width), 0.0);
        bool shape = true;
        c.count("select_calls");
        switch (e.kind)
        {
        case shadow::k_scalar:
        {
            prepare(sbuf, sentinel_f64);
            const auto r = dataset.select(samples, f, sbuf);
            shape        = r.size() == v.rows;
            for (tensor_size_t i = 0; i < v.rows && shape; ++i)
            {
                out[static_cast<size_t>(i)] = r(i);
            }
            break;
        }
        case shadow::k_sclass:
        {
            prepare(cbuf, sentinel_i32);
            const auto r = dataset.select(samples, f, cbuf);
            shape        = r.size() == v.rows;
            for (tensor_size_t i = 0; i < v.rows && shape; ++i)
            {
                out[static_cast<size_t>(i)] = static_cast<double>(r(i));
            }
            break;
        }
        case shadow::k_mclass:
        {
            prepare(mbuf, sentinel_i08);
            const auto r = dataset.select(samples, f, mbuf);
            shape        = r.size<0>() == v.rows && r.size<1>() == e.classes;
            for (tensor_size_t i = 0; i < v.rows && shape; ++i)
            {
                for (tensor_size_t k = 0; k < e.classes; ++k)
                {
                    out[static_cast<size_t>(i * e.width + k)] = static_cast<double>(r(i, k));
                }
            }
            break;
        }
        default:
        {
            prepare(tbuf, sentinel_f64);
            const auto r = dataset.select(samples, f, tbuf);
            shape        = r.size<0>() == v.rows && r.size<1>() == e.dims[0] && r.size<2>() == e.dims[1] && r.size<3>() == e.dims[2];
            for (tensor_size_t i = 0; i < v.rows && shape; ++i)
            {
                tensor_size_t k = 0;
                for (tensor_size_t i0 = 0; i0 < e.dims[0]; ++i0)
                {
                    for (tensor_size_t i1 = 0; i1 < e.dims[1]; ++i1)
                    {
                        for (tensor_size_t i2 = 0; i2 < e.dims[2]; ++i2, ++k)
                        {
                            // row-major flattening: component (i0,i1,i2) <-> column (i0*d1+i1)*d2+i2
                            out[static_cast<size_t>(i * e.width + k)] = r(i, i0, i1, i2);
                        }
                    }
                }
            }
            break;
        }
        }
        if (!shape)
        {
            violation("C08|select|shape|" + feature_tag(fi), feature_json(fi));
            return;
        }
        v.sel_ok[fi] = 1;
    }

    view_t take_view(const list_t& list, const double pselect = 1.0)
    {
        view_t v;
        v.list = list;
        v.rows = static_cast<tensor_size_t>(list.size());
        v.cols = cols;
        v.sel.resize(feats.size());
        v.sel_ok.assign(feats.size(), 0);
        take_flatten(v);
        for (size_t fi = 0; fi < feats.size(); ++fi)
        {
            if (pselect >= 1.0 || rng.chance(pselect))
            {
                take_select(v, fi);
            }
        }
        return v;
    }

    double missing_select(const shadow::efeature_t& e) const
    {
        return (e.kind == shadow::k_sclass || e.kind == shadow::k_mclass) ? -1.0 : shadow::NaN;
    }

    // does the view of feature fi agree with the store if the feature is in the given state?
    bool matches(const size_t fi, const int state, const view_t& v, mismatch_t& mm)
    {
        const auto& e    = feats[fi];
        const auto  off  = offsets[fi];
        const auto& perm = states[fi].perm;
        for (tensor_size_t i = 0; i < v.rows; ++i)
        {
            const auto li    = v.list[static_cast<size_t>(i)];
            const auto s     = state == st_shuffled ? perm[static_cast<size_t>(li)] : li;
            const auto given = state != st_dropped && shadow::ref_given(store, e, s);
            if (v.flat_ok)
            {
                for (tensor_size_t col = 0; col < e.columns; ++col)
                {
                    const auto got = v.flat[static_cast<size_t>(i * cols + off + col)];
                    ++n_flatten_values;
                    if (e.values_known())
                    {
                        const auto expected = given ? shadow::ref_flatten(store, e, s, col) : shadow::NaN;
                        if (!same(got, expected))
                        {
                            mm = mismatch_t{"flatten", i, col, s, got, expected};
                            return false;
                        }
                    }
                    else if (given ? !std::isfinite(got) : !std::isnan(got))
                    {
                        // gradient features: missing-value propagation only (values are judged select-vs-flatten)
                        mm = mismatch_t{"flatten-missing", i, col, s, got, given ? std::numeric_limits<double>::infinity() : shadow::NaN};
                        return false;
                    }
                }
            }
            if (v.sel_ok[fi])
            {
                for (tensor_size_t k = 0; k < e.width; ++k)
                {
                    const auto got = v.sel[fi][static_cast<size_t>(i * e.width + k)];
                    ++n_select_values;
                    if (e.values_known())
                    {
                        const auto expected = given ? shadow::ref_select(store, e, s, k) : missing_select(e);
                        if (!same(got, expected))
                        {
                            mm = mismatch_t{"select", i, k, s, got, expected};
                            return false;
                        }
                    }
                    else if (v.flat_ok)
                    {
                        // the per-feature view and the flattened view of a generated feature agree (row-major);
                        // the missing-value propagation of the flattened view was judged above
                        const auto expected = v.flat[static_cast<size_t>(i * cols + off + k)];
                        ++n_select_vs_flatten;
                        if (!same(got, expected))
                        {
                            mm = mismatch_t{"select-vs-flatten", i, k, s, got, expected};
                            return false;
                        }
                    }
                    else if (given ? !std::isfinite(got) : !std::isnan(got))
                    {
                        mm = mismatch_t{"select-missing", i, k, s, got, given ? std::numeric_limits<double>::infinity() : shadow::NaN};
                        return false;
                    }
                }
            }
        }
        return true;
    }

    // judge every feature of a view against the states the reference state machine allows; narrows ambiguous states
    void judge(const view_t& v, const char* context)
    {
        for (size_t fi = 0; fi < feats.size(); ++fi)
        {
            auto&      st      = states[fi];
            int        matched = 0;
            mismatch_t first;
            bool       have_first = false;
            for (const int state : {st_normal, st_dropped, st_shuffled})
            {
                if ((st.cands & state) == 0)
                {
                    continue;
                }
                mismatch_t mm;
                if (matches(fi, state, v, mm))
                {
                    matched |= state;
                }
                else if (!have_first)
                {
                    first      = mm;
                    have_first = true;
                    first.clause += std::string("|") + feature_tag(fi) + "|" + state_name(st.cands == state ? state : 0);
                }
            }
            ++n_feature_views;
            if (st.cands == st_dropped) ++n_dropped_views;
            if (st.cands == st_shuffled) ++n_shuffled_views;
            if ((st.cands & (st.cands - 1)) != 0) ++n_ambiguous_views;
            if (matched == 0)
            {
                auto j = feature_json(fi);
                j.kv("context", context).kv("row", static_cast<long long>(first.row)).kv("component", static_cast<long long>(first.col));
                j.kv("list_entry", static_cast<long long>(v.list[static_cast<size_t>(first.row)])).kv("stored_sample", static_cast<long long>(first.sample));
                j.kv("got", first.got).kv("expected", first.expected).kv("rows", static_cast<long long>(v.rows));
                violation("C08|" + first.clause, j);
            }
            else
            {
                st.cands = matched;
            }
        }
    }

    // ---------------------------------------------------------------------------------------------------------
    // targets: dense view and per-type select
    void check_targets(const list_t& list)
    {
        if (store.target < 0)
        {
            return;
        }
        const auto& t       = store.features[static_cast<size_t>(store.target)];
        const auto  samples = to_indices(list);
        const auto  rows    = static_cast<tensor_size_t>(list.size());
        const auto  edims   = (t.kind == shadow::k_sclass || t.kind == shadow::k_mclass) ? make_dims(t.classes, 1, 1) : t.dims;
        prepare(gbuf, sentinel_f64);
        const auto targ = dataset.targets(samples, gbuf);
        c.count("targets_calls");
        if (targ.dims() != cat_dims(rows, edims))
        {
            violation("C08|targets|shape", vf::json_t().kv("got", scat(targ.dims())).kv("expected_rows", static_cast<long long>(rows)).kv("expected_dims", scat(edims)));
        }
        else
        {
            bool bad = false;
            for (tensor_size_t i = 0; i < rows && !bad; ++i)
            {
                const auto row = targ.tensor(i);
                const auto s   = list[static_cast<size_t>(i)];
                tensor_size_t k = 0;
                for (tensor_size_t i0 = 0; i0 < edims[0] && !bad; ++i0)
                {
                    for (tensor_size_t i1 = 0; i1 < edims[1] && !bad; ++i1)
                    {
                        for (tensor_size_t i2 = 0; i2 < edims[2] && !bad; ++i2, ++k)
                        {
                            const auto got      = row(i0, i1, i2);
                            const auto expected = t.target_value(s, k);
                            ++n_target_values;
                            if (!same(got, expected))
                            {
                                vf::json_t j;
                                j.kv("row", static_cast<long long>(i)).kv("stored_sample", static_cast<long long>(s)).kv("component", static_cast<long long>(k));
                                j.kv("got", got).kv("expected", expected).kv("target", store.target);
                                violation(std::string("C08|targets|") + shadow::kind_name(t.kind), j);
                                bad = true;
                            }
                        }
                    }
                }
            }
        }

        // per-type select of the target
        bool         bad = false;
        const auto report = [&](tensor_size_t i, tensor_size_t k, double got, double expected)
        {
            vf::json_t j;
            j.kv("row", static_cast<long long>(i)).kv("stored_sample", static_cast<long long>(list[static_cast<size_t>(i)])).kv("component", static_cast<long long>(k));
            j.kv("got", got).kv("expected", expected).kv("target", store.target);
            violation(std::string("C08|target-select|") + shadow::kind_name(t.kind), j);
            bad = true;
        };
        c.count("target_select_calls");
        switch (t.kind)
        {
        case shadow::k_sclass:
        {
            prepare(cbuf, sentinel_i32);
            const auto r = dataset.select(samples, cbuf);
            for (tensor_size_t i = 0; i < rows && !bad; ++i)
            {
                ++n_target_values;
                if (r.size() != rows || static_cast<double>(r(i)) != t.at(list[static_cast<size_t>(i)], 0))
                {
                    report(i, 0, r.size() != rows ? -2.0 : r(i), t.at(list[static_cast<size_t>(i)], 0));
                }
            }
            break;
        }
        case shadow::k_mclass:
        {
            prepare(mbuf, sentinel_i08);
            const auto r = dataset.select(samples, mbuf);
            for (tensor_size_t i = 0; i < rows && !bad; ++i)
            {
                for (tensor_size_t k = 0; k < t.classes && !bad; ++k)
                {
                    ++n_target_values;
                    if (r.size<0>() != rows || r.size<1>() != t.classes || static_cast<double>(r(i, k)) != t.at(list[static_cast<size_t>(i)], k))
                    {
                        report(i, k, (r.size<0>() != rows || r.size<1>() != t.classes) ? -2.0 : r(i, k), t.at(list[static_cast<size_t>(i)], k));
                    }
                }
            }
            break;
        }
        case shadow::k_scalar:
        {
            prepare(sbuf, sentinel_f64);
            const auto r = dataset.select(samples, sbuf);
            for (tensor_size_t i = 0; i < rows && !bad; ++i)
            {
                ++n_target_values;
                if (r.size() != rows || !same(r(i), t.at(list[static_cast<size_t>(i)], 0)))
                {
                    report(i, 0, r.size() != rows ? -2.0 : r(i), t.at(list[static_cast<size_t>(i)], 0));
                }
            }
            break;
        }
        default:
        {
            prepare(tbuf, sentinel_f64);
            const auto r = dataset.select(samples, tbuf);
            if (r.dims() != cat_dims(rows, t.dims))
            {
                report(0, 0, -2.0, 0.0);
            }
            for (tensor_size_t i = 0; i < rows && !bad; ++i)
            {
                tensor_size_t k = 0;
                for (tensor_size_t i0 = 0; i0 < t.dims[0] && !bad; ++i0)
                {
                    for (tensor_size_t i1 = 0; i1 < t.dims[1] && !bad; ++i1)
                    {
                        for (tensor_size_t i2 = 0; i2 < t.dims[2] && !bad; ++i2, ++k)
                        {
                            ++n_target_values;
                            if (!same(r(i, i0, i1, i2), t.at(list[static_cast<size_t>(i)], k)))
                            {
                                report(i, k, r(i, i0, i1, i2), t.at(list[static_cast<size_t>(i)], k));
                            }
                        }
                    }
                }
            }
            break;
        }
        }
    }

    // ---------------------------------------------------------------------------------------------------------
    // iterators (views through the dataset's thread pool)

    // expected dense rows for a list whose direct view `v` was judged before: recomputed from the store for every
    // feature in a definite state with modelled values, the (judged) direct view elsewhere
    std::vector<double> expected_dense(const view_t& v) const
    {
        auto E = v.flat;
        for (size_t fi = 0; fi < feats.size(); ++fi)
        {
            const auto& e  = feats[fi];
            const auto& st = states[fi];
            if (!e.values_known() || (st.cands & (st.cands - 1)) != 0)
            {
                continue;
            }
            for (tensor_size_t i = 0; i < v.rows; ++i)
            {
                const auto li    = v.list[static_cast<size_t>(i)];
                const auto s     = st.cands == st_shuffled ? st.perm[static_cast<size_t>(li)] : li;
                const auto given = st.cands != st_dropped;
                for (tensor_size_t col = 0; col < e.columns; ++col)
                {
                    E[static_cast<size_t>(i * cols + offsets[fi] + col)] = given ? shadow::ref_flatten(store, e, s, col) : shadow::NaN;
                }
            }
        }
        return E;
    }

    tensor_size_t pick_batch(const tensor_size_t rows, const bool small)
    {
        if (small)
        {
            return rng.integer(1, std::max<tensor_size_t>(1, std::min<tensor_size_t>(8, rows)));
        }
        switch (rng.integer(0, 7))
        {
        case 0: return 1;
        case 1: return 2;
        case 2: return 7;
        case 3: return 8;
        case 4: return std::max<tensor_size_t>(1, rows - 1);
        case 5: return rows;
        case 6: return rows + 1;
        default: return rng.integer(1, rows + 1);
        }
    }

    // the ranges handed out must tile [0, rows) exactly once in chunks of `batch`
    bool check_tiling(std::vector<rec_t>& recs, const tensor_size_t rows, const tensor_size_t batch, const char* what)
    {
        std::sort(recs.begin(), recs.end(), [](const rec_t& a, const rec_t& b) { return a.begin < b.begin; });
        tensor_size_t at = 0;
        bool          ok = true;
        for (const auto& r : recs)
        {
            ok = ok && r.begin == at && r.end > r.begin && r.end <= rows && (r.end - r.begin) <= batch && (r.end == rows || (r.end - r.begin) == batch) && r.dims_ok;
            at = r.end;
        }
        ok = ok && at == rows;
        c.count("iterator_tilings");
        if (!ok)
        {
            vf::json_t j;
            j.kv("iterator", what).kv("rows", static_cast<long long>(rows)).kv("batch", static_cast<long long>(batch)).kv("chunks", static_cast<long long>(recs.size()));
            violation("C08|iterator|tiling", j);
        }
        return ok;
    }

    static std::vector<rec_t> gather(std::vector<std::vector<rec_t>>& per_thread)
    {
        std::vector<rec_t> all;
        for (auto& v : per_thread)
        {
            for (auto& r : v)
            {
                all.push_back(std::move(r));
            }
            v.clear();
        }
        return all;
    }

    void compare_dense(const std::vector<rec_t>& recs, const std::vector<double>& E, const tensor_size_t width, const bool nan2zero, const char* key, const list_t& list, const tensor_size_t batch, const bool targ)
    {
        for (const auto& r : recs)
        {
            const auto& data = targ ? r.targ : r.flat;
            for (tensor_size_t i = r.begin; i < r.end; ++i)
            {
                for (tensor_size_t k = 0; k < width; ++k)
                {
                    auto expected = E[static_cast<size_t>(i * width + k)];
                    if (nan2zero && !std::isfinite(expected))
                    {
                        expected = 0.0; // documented: missing values are replaced with zeros for dense models
                    }
                    const auto got = data[static_cast<size_t>((i - r.begin) * width + k)];
                    ++n_iterator_values;
                    if (!same(got, expected))
                    {
                        vf::json_t j;
                        j.kv("row", static_cast<long long>(i)).kv("column", static_cast<long long>(k)).kv("list_entry", static_cast<long long>(list[static_cast<size_t>(i)]));
                        j.kv("got", got).kv("expected", expected).kv("batch", static_cast<long long>(batch)).kv("thread", static_cast<long long>(r.tnum));
                        j.kv("pool", static_cast<long long>(dataset.concurrency())).kv("chunk_begin", static_cast<long long>(r.begin));
                        violation(key, j);
                        return;
                    }
                }
            }
        }
    }

    void check_dense_iterators(const view_t& v, const bool small_batches)
    {
        if (!v.flat_ok)
        {
            return;
        }
        const auto E       = expected_dense(v);
        const auto samples = to_indices(v.list);
        const auto rows    = v.rows;
        const auto threads = dataset.concurrency();
        const auto batch   = pick_batch(rows, small_batches);
        const bool sup     = store.target >= 0;

        std::vector<double> T;
        tensor_size_t       tcols = 0;
        if (sup)
        {
            const auto& t = store.features[static_cast<size_t>(store.target)];
            tcols         = t.target_columns();
            for (tensor_size_t i = 0; i < rows; ++i)
            {
                for (tensor_size_t k = 0; k < tcols; ++k)
                {
                    T.push_back(t.target_value(v.list[static_cast<size_t>(i)], k));
                }
            }
        }

        std::vector<std::vector<rec_t>> per_thread(threads);
        std::atomic<int>                bad_tnum{0};

        const auto record = [&](tensor_range_t range, size_t tnum, const tensor2d_cmap_t* flat, const tensor4d_cmap_t* targ)
        {
            if (tnum >= per_thread.size())
            {
                bad_tnum.store(1, std::memory_order_relaxed);
                return;
            }
            rec_t r;
            r.begin = range.begin();
            r.end   = range.end();
            r.tnum  = tnum;
            if (flat != nullptr)
            {
                r.dims_ok = r.dims_ok && flat->size<0>() == range.size() && flat->size<1>() == cols;
                if (r.dims_ok)
                {
                    r.flat.assign(flat->data(), flat->data() + flat->size());
                }
            }
            if (targ != nullptr)
            {
                r.dims_ok = r.dims_ok && targ->size<0>() == range.size() && targ->size() == range.size() * tcols;
                if (r.dims_ok)
                {
                    r.targ.assign(targ->data(), targ->data() + targ->size());
                }
            }
            per_thread[tnum].push_back(std::move(r));
        };

        {
            auto it = flatten_iterator_t{dataset, samples};
            it.batch(batch);
            const auto rc = rng.integer(0, 3);
            if (rc == 1)
            {
                it.cache_flatten(tensor_size_t{1} << 30);
            }
            else if (rc == 2)
            {
                it.cache_flatten(0);
            }
            if (sup && rng.chance(0.3))
            {
                it.cache_targets(rng.chance(0.8) ? (tensor_size_t{1} << 30) : 0);
            }
            c.count("flatten_iterator_loops");
            it.loop([&](tensor_range_t range, size_t tnum, tensor2d_cmap_t flat) { record(range, tnum, &flat, nullptr); });
            auto recs = gather(per_thread);
            if (check_tiling(recs, rows, batch, "flatten"))
            {
                compare_dense(recs, E, cols, true, "C08|iterator|flatten-values", v.list, batch, false);
            }
            if (sup)
            {
                c.count("flatten_targets_iterator_loops");
                it.loop([&](tensor_range_t range, size_t tnum, tensor2d_cmap_t flat, tensor4d_cmap_t targ) { record(range, tnum, &flat, &targ); });
                auto recs2 = gather(per_thread);
                if (check_tiling(recs2, rows, batch, "flatten+targets"))
                {
                    compare_dense(recs2, E, cols, true, "C08|iterator|flatten-values", v.list, batch, false);
                    compare_dense(recs2, T, tcols, true, "C08|iterator|targets-values", v.list, batch, true);
                }
            }
        }
        if (sup && rng.chance(0.5))
        {
            auto it = targets_iterator_t{dataset, samples};
            const auto batch2 = pick_batch(rows, small_batches);
            it.batch(batch2);
            if (rng.chance(0.3))
            {
                it.cache_targets(tensor_size_t{1} << 30);
            }
            c.count("targets_iterator_loops");
            it.loop([&](tensor_range_t range, size_t tnum, tensor4d_cmap_t targ) { record(range, tnum, nullptr, &targ); });
            auto recs = gather(per_thread);
            if (check_tiling(recs, rows, batch2, "targets"))
            {
                compare_dense(recs, T, tcols, true, "C08|iterator|targets-values", v.list, batch2, true);
            }
        }
        if (bad_tnum.load() != 0)
        {
            violation("C08|iterator|thread-number", vf::json_t().kv("pool", static_cast<long long>(threads)));
        }
    }

    void check_select_iterator(const view_t& v)
    {
        const auto samples = to_indices(v.list);
        const auto threads = dataset.concurrency();
        auto       it      = select_iterator_t{dataset};

        std::vector<std::vector<rec_t>> per_thread(threads);
        std::atomic<int>                bad_tnum{0};

        const auto push = [&](tensor_size_t feature, size_t tnum, std::vector<double>&& values, bool dims_ok)
        {
            if (tnum >= per_thread.size())
            {
                bad_tnum.store(1, std::memory_order_relaxed);
                return;
            }
            rec_t r;
            r.feature = feature;
            r.tnum    = tnum;
            r.dims_ok = dims_ok;
            r.flat    = std::move(values);
            per_thread[tnum].push_back(std::move(r));
        };
        const auto on_sclass = [&](tensor_size_t f, size_t tnum, sclass_cmap_t values)
        {
            std::vector<double> d(static_cast<size_t>(values.size()));
            for (tensor_size_t i = 0; i < values.size(); ++i)
            {
                d[static_cast<size_t>(i)] = static_cast<double>(values(i));
            }
            push(f, tnum, std::move(d), values.size() == v.rows);
        };
        const auto on_mclass = [&](tensor_size_t f, size_t tnum, mclass_cmap_t values)
        {
            std::vector<double> d(static_cast<size_t>(values.size()));
            for (tensor_size_t i = 0; i < values.size(); ++i)
            {
                d[static_cast<size_t>(i)] = static_cast<double>(values(i));
            }
            push(f, tnum, std::move(d), values.size<0>() == v.rows);
        };
        const auto on_scalar = [&](tensor_size_t f, size_t tnum, scalar_cmap_t values)
        {
            push(f, tnum, std::vector<double>(values.data(), values.data() + values.size()), values.size() == v.rows);
        };
        const auto on_struct = [&](tensor_size_t f, size_t tnum, struct_cmap_t values)
        {
            push(f, tnum, std::vector<double>(values.data(), values.data() + values.size()), values.size<0>() == v.rows);
        };

        // expected: every feature of the kind exactly once, values = the (judged) per-feature view / the store
        const auto verify = [&](const int kind, const std::vector<tensor_size_t>& expected_features, const char* how)
        {
            auto recs = gather(per_thread);
            std::vector<tensor_size_t> got;
            for (const auto& r : recs)
            {
                got.push_back(r.feature);
            }
            auto want = expected_features;
            std::sort(got.begin(), got.end());
            std::sort(want.begin(), want.end());
            c.count("select_iterator_loops");
            if (got != want)
            {
                vf::json_t j;
                j.kv("kind", shadow::kind_name(kind)).kv("how", how).kv("visited", static_cast<long long>(got.size())).kv("expected", static_cast<long long>(want.size()));
                violation("C08|iterator|select-coverage", j);
                return;
            }
            for (const auto& r : recs)
            {
                const auto  fi = static_cast<size_t>(r.feature);
                const auto& e  = feats[fi];
                if (!v.sel_ok[fi])
                {
                    continue;
                }
                bool bad = !r.dims_ok || r.flat.size() != v.sel[fi].size();
                for (size_t k = 0; k < r.flat.size() && !bad; ++k)
                {
                    auto        expected = v.sel[fi][k];
                    const auto& st       = states[fi];
                    if (e.values_known() && (st.cands & (st.cands - 1)) == 0)
                    {
                        const auto i  = static_cast<tensor_size_t>(k) / e.width;
                        const auto li = v.list[static_cast<size_t>(i)];
                        const auto s  = st.cands == st_shuffled ? st.perm[static_cast<size_t>(li)] : li;
                        expected      = (st.cands != st_dropped && shadow::ref_given(store, e, s)) ? shadow::ref_select(store, e, s, static_cast<tensor_size_t>(k) % e.width) : missing_select(e);
                    }
                    ++n_iterator_values;
                    if (!same(r.flat[k], expected))
                    {
                        auto j = feature_json(fi);
                        j.kv("how", how).kv("position", static_cast<long long>(k)).kv("got", r.flat[k]).kv("expected", expected).kv("thread", static_cast<long long>(r.tnum));
                        violation("C08|iterator|select-values|" + feature_tag(fi), j);
                        bad = true;
                    }
                }
                if ((!r.dims_ok || r.flat.size() != v.sel[fi].size()))
                {
                    violation("C08|iterator|select-shape|" + feature_tag(fi), feature_json(fi));
                }
            }
        };

        for (const int kind : {shadow::k_sclass, shadow::k_mclass, shadow::k_scalar, shadow::k_struct})
        {
            std::vector<tensor_size_t> of_kind;
            for (size_t fi = 0; fi < feats.size(); ++fi)
            {
                // features whose kind is ambiguous in the library (gradient features of 3x3 inputs) are not requested
                if (feats[fi].kind == kind && !(feats[fi].how == shadow::g_gradient && feats[fi].columns == 1))
                {
                    of_kind.push_back(static_cast<tensor_size_t>(fi));
                }
            }
            const bool has_ambiguous = std::any_of(feats.begin(), feats.end(), [](const auto& e) { return e.how == shadow::g_gradient && e.columns == 1; });
            const auto call = [&](auto&&... args)
            {
                switch (kind)
                {
                case shadow::k_sclass: it.loop(samples, args..., sclass_callback_t{on_sclass}); break;
                case shadow::k_mclass: it.loop(samples, args..., mclass_callback_t{on_mclass}); break;
                case shadow::k_scalar: it.loop(samples, args..., scalar_callback_t{on_scalar}); break;
                default: it.loop(samples, args..., struct_callback_t{on_struct}); break;
                }
            };
            // (a) all features of the kind
            if (!(has_ambiguous && kind == shadow::k_scalar))
            {
                call();
                verify(kind, of_kind, "all");
            }
            if (of_kind.empty())
            {
                continue;
            }
            // (b) one feature
            {
                const auto f = rng.pick(of_kind);
                call(f);
                verify(kind, {f}, "one");
            }
            // (c) an explicit list (any order, with repetitions)
            {
                std::vector<tensor_size_t> some;
                for (tensor_size_t i = 0, n = rng.integer(1, static_cast<int64_t>(of_kind.size()) + 2); i < n; ++i)
                {
                    some.push_back(rng.pick(of_kind));
                }
                const auto features = to_indices(some);
                call(indices_cmap_t{features});
                verify(kind, some, "list");
            }
        }
        if (bad_tnum.load() != 0)
        {
            violation("C08|iterator|thread-number", vf::json_t().kv("pool", static_cast<long long>(threads)));
        }
    }

    // ---------------------------------------------------------------------------------------------------------
    // histories of drop/undrop/shuffle/unshuffle against the reference state machine
    void apply_drop(const tensor_size_t f)
    {
        dataset.drop(f);
        states[static_cast<size_t>(f)].cands = st_dropped;
        history += "D" + std::to_string(f) + " ";
        c.count("drop_calls");
    }

    void apply_shuffle(const tensor_size_t f)
    {
        dataset.shuffle(f);
        history += "S" + std::to_string(f) + " ";
        c.count("shuffle_calls");
        auto& st = states[static_cast<size_t>(f)];
        st.cands = st_shuffled;
        // the reported map must be a bijection of all samples
        const auto all  = arange(0, N);
        const auto perm = dataset.shuffled(f, all);
        st.perm.assign(perm.begin(), perm.end());
        auto sorted = st.perm;
        std::sort(sorted.begin(), sorted.end());
        bool bijection = static_cast<tensor_size_t>(sorted.size()) == N;
        for (tensor_size_t i = 0; i < N && bijection; ++i)
        {
            bijection = sorted[static_cast<size_t>(i)] == i;
        }
        if (!bijection)
        {
            auto j = feature_json(static_cast<size_t>(f));
            j.arr("map", st.perm.data(), st.perm.size(), 48);
            violation("C08|shuffle|map-not-bijection", j);
            st.perm.assign(static_cast<size_t>(N), 0); // keep the model in range
            for (tensor_size_t i = 0; i < N; ++i)
            {
                st.perm[static_cast<size_t>(i)] = i;
            }
        }
        moved += !is_identity(st.perm, N) ? 1 : 0;
    }

    // the map reported for a sample list is the composition list -> all-samples map
    void check_shuffled_map(const tensor_size_t f, const list_t& list)
    {
        const auto& st = states[static_cast<size_t>(f)];
        if (st.cands != st_shuffled)
        {
            return;
        }
        const auto samples = to_indices(list);
        const auto mapped  = dataset.shuffled(f, samples);
        c.count("shuffled_map_checks");
        bool ok = mapped.size() == samples.size();
        for (tensor_size_t i = 0; i < mapped.size() && ok; ++i)
        {
            ok = mapped(i) == st.perm[static_cast<size_t>(list[static_cast<size_t>(i)])];
        }
        if (!ok)
        {
            violation("C08|shuffle|map-inconsistent", feature_json(static_cast<size_t>(f)));
        }
    }

    void apply_undrop()
    {
        dataset.undrop();
        history += "UD ";
        c.count("undrop_calls");
        for (auto& st : states)
        {
            int cands = 0;
            if (st.cands & st_normal) cands |= st_normal;
            if (st.cands & st_dropped) cands |= st_normal;
            // the statement is silent about shuffled features after undrop(): restored or unchanged, nothing else
            if (st.cands & st_shuffled) cands |= st_shuffled | st_normal;
            st.cands = cands;
        }
    }

    void apply_unshuffle()
    {
        dataset.unshuffle();
        history += "US ";
        c.count("unshuffle_calls");
        for (auto& st : states)
        {
            int cands = 0;
            if (st.cands & st_normal) cands |= st_normal;
            if (st.cands & st_shuffled) cands |= st_normal;
            // the statement is silent about dropped features after unshuffle(): restored or unchanged, nothing else
            if (st.cands & st_dropped) cands |= st_dropped | st_normal;
            st.cands = cands;
        }
    }

    void undo_all()
    {
        if (rng.chance(0.5))
        {
            apply_undrop();
            apply_unshuffle();
        }
        else
        {
            apply_unshuffle();
            apply_undrop();
        }
        for (auto& st : states)
        {
            st.cands = st_normal; // both undone: the original views, nothing else
        }
    }

    void compare_views(const view_t& a, const view_t& b)
    {
        c.count("undo_checks");
        bool equal = a.flat_ok == b.flat_ok && a.flat.size() == b.flat.size();
        for (size_t i = 0; i < a.flat.size() && equal; ++i)
        {
            equal = same(a.flat[i], b.flat[i]);
        }
        for (size_t fi = 0; fi < feats.size() && equal; ++fi)
        {
            if (feats[fi].how == shadow::g_gradient && feats[fi].columns == 1)
            {
                continue; // the per-feature view of these is judged by the select-vs-flatten clause alone
            }
            equal = a.sel_ok[fi] == b.sel_ok[fi] && a.sel[fi].size() == b.sel[fi].size();
            for (size_t i = 0; i < a.sel[fi].size() && equal; ++i)
            {
                equal = same(a.sel[fi][i], b.sel[fi][i]);
            }
        }
        if (!equal)
        {
            violation("C08|undo|views-differ", vf::json_t().kv("rows", static_cast<long long>(a.rows)));
        }
    }

    // ---------------------------------------------------------------------------------------------------------
    // indices outside the valid range are rejected with an exception, never read
    template <class toperator>
    bool rejected(const toperator& op)
    {
        try
        {
            op();
        }
        catch (const std::exception&)
        {
            return true;
        }
        return false;
    }

    void check_sample_rejection(const tensor_size_t bad, const char* object)
    {
        list_t list;
        if (!rng.chance(0.3))
        {
            for (tensor_size_t i = 0, n = rng.integer(1, std::min<tensor_size_t>(N, 12)); i < n; ++i)
            {
                list.push_back(rng.integer(0, N - 1));
            }
        }
        list.insert(list.begin() + rng.integer(0, static_cast<int64_t>(list.size())), bad);
        const auto samples = to_indices(list);
        const auto key     = std::string("C08|index-not-rejected|") + object;

        const auto report = [&](const char* api, const tensor_size_t feature)
        {
            vf::json_t j;
            j.kv("api", api).kv("bad_index", static_cast<long long>(bad)).kv("feature", static_cast<long long>(feature));
            j.arr("sample_list", list.data(), list.size(), 16);
            violation(key, j);
        };

        // order: first a per-feature read that stays inside the library's value pools even if the index is accepted
        // (so that the behavioural verdict is printed before a sanitizer can stop the process)
        std::vector<size_t> order;
        for (size_t fi = 0; fi < feats.size(); ++fi)
        {
            order.push_back(fi);
        }
        for (size_t i = order.size(); i > 1; --i)
        {
            std::swap(order[i - 1], order[static_cast<size_t>(rng.integer(0, static_cast<int64_t>(i) - 1))]);
        }
        const auto harmless = [&](const size_t fi)
        {
            const auto& e = feats[fi];
            if (e.how > shadow::g_mclass)
            {
                return false;
            }
            const auto& f     = store.features[static_cast<size_t>(e.src1)];
            bool        later = false;
            for (size_t k = static_cast<size_t>(e.src1) + 1; k < store.features.size(); ++k)
            {
                later = later || (store.features[k].pool_id() == f.pool_id() && store.features[k].width >= f.width);
            }
            return later && (N % 8 != 0 || static_cast<size_t>(e.src1) + 1 < store.features.size());
        };
        std::stable_sort(order.begin(), order.end(), [&](size_t a, size_t b) { return harmless(a) > harmless(b); });

        tensor_size_t done = 0;
        for (const auto fi : order)
        {
            if (done++ >= 3)
            {
                break;
            }
            const auto f = static_cast<tensor_size_t>(fi);
            ++n_reject_sample;
            bool ok = true;
            switch (feats[fi].kind)
            {
            case shadow::k_scalar: ok = rejected([&] { scalar_mem_t b; dataset.select(samples, f, b); }); break;
            case shadow::k_sclass: ok = rejected([&] { sclass_mem_t b; dataset.select(samples, f, b); }); break;
            case shadow::k_mclass: ok = rejected([&] { mclass_mem_t b; dataset.select(samples, f, b); }); break;
            default: ok = rejected([&] { struct_mem_t b; dataset.select(samples, f, b); }); break;
            }
            if (!ok)
            {
                report("select", f);
            }
        }
        ++n_reject_sample;
        if (!rejected([&] { tensor2d_t b; dataset.flatten(samples, b); }))
        {
            report("flatten", -1);
        }
        if (store.target >= 0)
        {
            ++n_reject_sample;
            if (!rejected([&] { tensor4d_t b; dataset.targets(samples, b); }))
            {
                report("targets", -1);
            }
            ++n_reject_sample;
            bool ok = true;
            switch (store.features[static_cast<size_t>(store.target)].kind)
            {
            case shadow::k_scalar: ok = rejected([&] { scalar_mem_t b; dataset.select(samples, b); }); break;
            case shadow::k_sclass: ok = rejected([&] { sclass_mem_t b; dataset.select(samples, b); }); break;
            case shadow::k_mclass: ok = rejected([&] { mclass_mem_t b; dataset.select(samples, b); }); break;
            default: ok = rejected([&] { struct_mem_t b; dataset.select(samples, b); }); break;
            }
            if (!ok)
            {
                report("select-target", -1);
            }
        }
    }

    // dataset_t::shuffled(feature, samples) of a feature that IS shuffled: out-of-range sample indices are rejected
    void check_shuffled_rejection(const tensor_size_t f)
    {
        if (states[static_cast<size_t>(f)].cands != st_shuffled)
        {
            return;
        }
        const auto r   = rng.integer(0, 5);
        const auto bad = r <= 1 ? N : (r <= 3 ? tensor_size_t{-1} : (r == 4 ? N + rng.integer(1, 1000) : -rng.integer(2, 1000)));
        list_t     list;
        if (!rng.chance(0.3))
        {
            for (tensor_size_t i = 0, n = rng.integer(1, std::min<tensor_size_t>(N, 12)); i < n; ++i)
            {
                list.push_back(rng.integer(0, N - 1));
            }
        }
        list.insert(list.begin() + rng.integer(0, static_cast<int64_t>(list.size())), bad);
        const auto samples = to_indices(list);
        ++n_reject_shuffled;
        if (!rejected([&] { (void)dataset.shuffled(f, samples); }))
        {
            vf::json_t j;
            j.kv("api", "shuffled").kv("bad_index", static_cast<long long>(bad)).kv("feature", static_cast<long long>(f));
            j.arr("sample_list", list.data(), list.size(), 16);
            violation("C08|index-not-rejected|shuffled-map-sample-index", j);
        }
    }

    void check_feature_rejection(const tensor_size_t bad)
    {
        const auto list    = make_list(rng, N, 2);
        const auto samples = to_indices(list);
        const auto report  = [&](const char* api)
        {
            vf::json_t j;
            j.kv("api", api).kv("bad_index", static_cast<long long>(bad)).kv("features", static_cast<long long>(F));
            violation("C08|index-not-rejected|feature-index", j);
        };
        n_reject_feature += 8;
        if (!rejected([&] { (void)dataset.feature(bad); })) report("feature");
        if (!rejected([&] { scalar_mem_t b; dataset.select(samples, bad, b); })) report("select-scalar");
        if (!rejected([&] { sclass_mem_t b; dataset.select(samples, bad, b); })) report("select-sclass");
        if (!rejected([&] { mclass_mem_t b; dataset.select(samples, bad, b); })) report("select-mclass");
        if (!rejected([&] { struct_mem_t b; dataset.select(samples, bad, b); })) report("select-struct");
        if (!rejected([&] { (void)dataset.shuffled(bad, samples); })) report("shuffled");
        if (!rejected([&] { dataset.drop(bad); })) report("drop");
        if (!rejected([&] { dataset.shuffle(bad); })) report("shuffle");
    }

    void flush_counters()
    {
        c.count("flatten_values", n_flatten_values);
        c.count("select_values", n_select_values);
        c.count("select_vs_flatten_values", n_select_vs_flatten);
        c.count("target_values", n_target_values);
        c.count("iterator_values", n_iterator_values);
        c.count("feature_views", n_feature_views);
        c.count("feature_views_dropped", n_dropped_views);
        c.count("feature_views_shuffled", n_shuffled_views);
        c.count("feature_views_ambiguous_state", n_ambiguous_views);
        c.count("reject_sample_index_checks", n_reject_sample);
        c.count("reject_feature_index_checks", n_reject_feature);
        c.count("reject_shuffled_map_index_checks", n_reject_shuffled);
    }

    // attributes
    vf::ctx_t&                 c;
    vf::rng_t&                 rng;
    const shadow::store_t&     store;
    const shadow::stack_t&     stack;
    const shadow::efeatures_t& feats;
    const dataset_t&           dataset;
    tensor_size_t              N;
    tensor_size_t              F;
    tensor_size_t              cols;
    std::vector<tensor_size_t> offsets;
    std::vector<fstate_t>      states;
    std::string                history;
    int                        budget{6};
    std::vector<std::string>   reported;
    int                        moved{0}; ///< number of shuffles that were not the identity

    tensor2d_t   fbuf;
    tensor4d_t   gbuf;
    scalar_mem_t sbuf;
    sclass_mem_t cbuf;
    mclass_mem_t mbuf;
    struct_mem_t tbuf;

    int64_t n_flatten_values{0}, n_select_values{0}, n_select_vs_flatten{0}, n_target_values{0}, n_iterator_values{0};
    int64_t n_feature_views{0}, n_dropped_views{0}, n_shuffled_views{0}, n_ambiguous_views{0};
    int64_t n_reject_sample{0}, n_reject_feature{0}, n_reject_shuffled{0};
};

void run_case(vf::ctx_t& c)
{
    auto&      rng          = c.rng;
    const bool threads_mode = c.args.mode == "threads";

    nano::verif::rng_seed().store(c.seed | 1U);
    nano::verif::pool_max_size().store(16U);

    // the case: store, generator stack, pool size
    shadow::store_options_t sopt;
    if (threads_mode)
    {
        sopt.min_samples = 8;
    }
    const auto store = shadow::make_store(rng, sopt);
    const auto stack = shadow::make_stack(rng, store);
    const auto feats = shadow::expected_features(store, stack);
    const auto N     = store.samples;

    size_t threads = 1;
    if (threads_mode)
    {
        threads = static_cast<size_t>(c.args.threads > 0 ? c.args.threads : rng.pick(std::vector<int64_t>{2, 2, 3, 4, 4, 8, 16, rng.integer(2, 16), rng.integer(5, 15)}));
    }
    else
    {
        threads = static_cast<size_t>(rng.pick(std::vector<int64_t>{1, 1, 1, 2, 2, 3, 4, 5, 8, 16, rng.integer(2, 16), rng.integer(5, 15)}));
    }

    auto datasource = shadow::datasource_t{store};
    datasource.load();
    auto dataset = dataset_t{datasource, threads};
    shadow::add_generators(dataset, stack);

    monitor_t m(c, store, stack, feats, dataset);
    c.count("datasets");
    c.count("generators", static_cast<int64_t>(stack.size()));
    c.count("dataset_features", static_cast<int64_t>(feats.size()));
    for (const auto& e : feats)
    {
        c.count(std::string("features:") + shadow::generator_name(e.how));
    }
    c.maxc("columns", shadow::total_columns(feats));
    c.maxc("features", static_cast<int64_t>(feats.size()));

    if (dataset.concurrency() != threads)
    {
        m.violation("C08|bookkeeping|concurrency", vf::json_t().kv("got", static_cast<long long>(dataset.concurrency())).kv("expected", static_cast<long long>(threads)));
    }
    if (!m.check_bookkeeping())
    {
        m.flush_counters();
        return;
    }

    uint64_t hash          = vf::mix(store.hash(), vf::hash_str(shadow::describe(stack).c_str()));
    int      nonidentities = 0;
    int      nlists        = 0;

    // the original views of all samples (kept for the undo clause)
    const auto all      = make_list(rng, N, 0);
    const auto original = m.take_view(all);
    m.judge(original, "original");
    m.check_targets(all);

    // sample lists of all shapes
    const auto view_lists = threads_mode ? rng.integer(1, 2) : rng.integer(2, 5);
    for (int64_t k = 0; k < view_lists; ++k)
    {
        const auto list = make_list(rng, N, rng.chance(0.05) ? 8 : static_cast<int>(rng.integer(1, 7)));
        const auto v    = m.take_view(list, feats.size() > 24 ? 0.4 : 1.0);
        m.judge(v, "lists");
        m.check_targets(list);
        nonidentities += (list.empty() || is_identity(list, N)) ? 0 : 1;
        hash = hash_list(list, hash);
        ++nlists;
        if (list.empty())
        {
            c.count("empty_lists");
            continue;
        }
        if (threads_mode || rng.chance(0.35))
        {
            m.check_dense_iterators(v, threads_mode);
        }
        if (threads_mode || rng.chance(0.25))
        {
            m.check_select_iterator(v);
        }
    }

    // history of drop/undrop/shuffle/unshuffle
    const auto nops = threads_mode ? rng.integer(0, 4) : rng.integer(0, 12);
    const auto F    = static_cast<tensor_size_t>(feats.size());
    for (int64_t op = 0; op < nops; ++op)
    {
        const auto r = rng.integer(0, 9);
        if (F > 0 && r <= 2)
        {
            m.apply_drop(rng.integer(0, F - 1));
        }
        else if (F > 0 && r <= 5)
        {
            m.apply_shuffle(rng.integer(0, F - 1));
        }
        else if (r <= 7)
        {
            m.apply_undrop();
        }
        else
        {
            m.apply_unshuffle();
        }
        const auto list = make_list(rng, N, static_cast<int>(rng.integer(0, 7)));
        for (tensor_size_t f = 0; f < F; ++f)
        {
            m.check_shuffled_map(f, list);
            if (rng.chance(0.1))
            {
                m.check_shuffled_rejection(f);
            }
        }
        const auto v = m.take_view(list, feats.size() > 24 ? 0.4 : 1.0);
        m.judge(v, "history");
        nonidentities += is_identity(list, N) ? 0 : 1;
        hash = hash_list(list, vf::mix(hash, static_cast<uint64_t>(r)));
        c.count("history_steps");
        if (rng.chance(threads_mode ? 0.7 : 0.15))
        {
            m.check_dense_iterators(v, threads_mode);
        }
        if (rng.chance(threads_mode ? 0.5 : 0.1))
        {
            m.check_select_iterator(v);
        }
    }

    // undoing restores the original views
    m.undo_all();
    {
        const auto restored = m.take_view(all);
        m.judge(restored, "after-undo");
        m.compare_views(original, restored);
    }

    // indices outside the valid range
    if (!threads_mode || rng.chance(0.2))
    {
        if (F > 0 && rng.chance(0.5))
        {
            // the map of a feature that is shuffled right now (then undone again)
            const auto f = rng.integer(0, F - 1);
            m.apply_shuffle(f);
            m.check_shuffled_rejection(f);
            m.undo_all();
        }
        m.check_sample_rejection(-1, "sample-index==-1");
        m.check_sample_rejection(N, "sample-index==N");
        if (rng.chance(0.5))
        {
            m.check_sample_rejection(N + rng.integer(1, 9), "sample-index>N");
        }
        if (rng.chance(0.3))
        {
            m.check_sample_rejection(rng.chance(0.5) ? N + rng.integer(10, 100000) : std::numeric_limits<tensor_size_t>::max(), "sample-index>N");
        }
        if (rng.chance(0.3))
        {
            m.check_sample_rejection(rng.chance(0.5) ? -rng.integer(2, 100000) : std::numeric_limits<tensor_size_t>::min(), "sample-index<-1");
        }
        m.check_feature_rejection(-1);
        m.check_feature_rejection(F);
        if (rng.chance(0.5))
        {
            m.check_feature_rejection(rng.chance(0.5) ? F + rng.integer(1, 1000) : -rng.integer(2, 1000));
        }
    }

    m.flush_counters();

    int kinds = 0;
    {
        int mask = 0;
        for (const auto& e : feats)
        {
            mask |= 1 << e.kind;
        }
        kinds = __builtin_popcount(static_cast<unsigned>(mask));
    }
    tensor_size_t missing = 0;
    for (const auto k : store.inputs())
    {
        for (const auto g : store.features[static_cast<size_t>(k)].given)
        {
            missing += g ? 0 : 1;
        }
    }
    if (missing > 0 && kinds >= 2 && nonidentities > 0)
    {
        c.nontrivial(hash);
    }
    if (m.moved > 0)
    {
        c.count("shuffles_moving_samples", m.moved);
    }
    if (c.want_sample())
    {
        vf::json_t j;
        j.kv("samples", static_cast<long long>(N)).kv("store", shadow::describe(store)).kv("stack", shadow::describe(stack));
        j.kv("pool_threads", static_cast<long long>(threads)).kv("dataset_features", static_cast<long long>(feats.size()));
        j.kv("columns", static_cast<long long>(shadow::total_columns(feats))).kv("missing_values", static_cast<long long>(missing));
        j.kv("sample_lists", nlists).kv("history", m.history);
        c.sample(j);
    }
}
} // namespace

int main(int argc, char** argv)
{
    const auto args = vf::parse_args(argc, argv);
    return vf::run(args, "C08",
                   "case = one shadow datasource (1..200 samples, 1..12 features over the 12 feature types, missing masks from "
                   "empty to full, any target or none) + a stack of 1..6 generators (4 identities, product, gradient, explicit "
                   "subsets) + 3..6 sample lists (reversed, repeats, single, boundary, N+1 long) + a history of <= 12 "
                   "drop/undrop/shuffle/unshuffle calls judged after every step + out-of-range sample/feature indices; "
                   "non-trivial: >= 1 missing input value, >= 2 feature kinds exposed by the dataset and >= 1 non-identity sample "
                   "list; distinct by hash(store contents, generator stack, sample lists, history)",
                   run_case);
}
