// C10 - weak learners: optimal fit in class (brute force), consistent prediction algebra.
//
// The harness owns a small store of feature values (scalar / single-label / multi-label, with missing values, ties,
// constant columns), fills the library's in-memory datasource from it and keeps it as the reference.
//
// mode "optimal": with the RSS criterion, stump / hinge / affine / dense-table / dstep-table are fitted on
//   (dataset, sample list, gradient tensor) and the returned score is compared with the minimum RSS found by brute
//   force over the whole hypothesis class (long double, centred sums, all features, all mid-point thresholds, both hinge
//   directions, per label(-set) means, closed-form least squares); the RSS recomputed from predict() must equal the score.
// mode "algebra": all 8 learners (incl. kbest/ksplit tables and dtree) with all 4 criteria: predictions are added to the
//   outputs, zero for a missing selected feature, depend only on the sample, equal the table of the group of split(),
//   scale(s) multiplies (per group), merge keeps the summed predictions, depth-1 tree == stump.
//
// The expected values never come from the code under test: the fitted parameters (feature, threshold, tables, nodes) are
// read as *observations* and re-evaluated on the harness' own copy of the data.
#include "common/vf.h"
#include <algorithm>
#include <limits>
#include <map>
#include <nano/dataset.h>
#include <nano/generator/elemwise_identity.h>
#include <nano/wlearner.h>
#include <nano/wlearner/affine.h>
#include <nano/wlearner/criterion.h>
#include <nano/wlearner/dtree.h>
#include <nano/wlearner/hinge.h>
#include <nano/wlearner/stump.h>
#include <nano/wlearner/table.h>
#include <nano/wlearner/util.h>
#include <set>

using namespace nano;

namespace
{
using ld = long double;

constexpr double NaN = std::numeric_limits<double>::quiet_NaN();
constexpr double EPS = std::numeric_limits<double>::epsilon();

// ---- the store (reference copy of the data) ------------------------------------------------------------------------
struct store_t
{
    int S = 0, NS = 0, NC = 0, NM = 0, T = 1; // samples, #scalar, #sclass, #mclass features, outputs
    std::vector<std::vector<double>>           scal; // [feature][sample], NaN if missing
    std::vector<std::string>                   scal_kind;
    std::vector<std::vector<int>>              scls; // [feature][sample], -1 if missing
    std::vector<int>                           scls_classes;
    std::vector<std::vector<std::vector<int>>> mcls; // [feature][sample][class], empty if missing
    std::vector<int>                           mcls_classes;
};

class shadow_ds_t final : public datasource_t
{
public:
    explicit shadow_ds_t(const store_t& st)
        : datasource_t("c10-shadow")
        , m_st(&st)
    {
    }

    rdatasource_t clone() const override { return std::make_unique<shadow_ds_t>(*this); }

    void do_load() override
    {
        const auto& st = *m_st;
        features_t  features;
        for (int f = 0; f < st.NS; ++f)
        {
            features.push_back(feature_t{scat("s", f)}.scalar(feature_type::float64));
        }
        for (int f = 0; f < st.NC; ++f)
        {
            features.push_back(feature_t{scat("c", f)}.sclass(static_cast<size_t>(st.scls_classes[static_cast<size_t>(f)])));
        }
        for (int f = 0; f < st.NM; ++f)
        {
            features.push_back(feature_t{scat("m", f)}.mclass(static_cast<size_t>(st.mcls_classes[static_cast<size_t>(f)])));
        }
        features.push_back(feature_t{"y"}.scalar(feature_type::float64, make_dims(st.T, 1, 1)));
        resize(st.S, features, features.size() - 1U);
        for (int s = 0; s < st.S; ++s)
        {
            const auto us = static_cast<size_t>(s);
            int        k  = 0;
            for (int f = 0; f < st.NS; ++f, ++k)
            {
                if (std::isfinite(st.scal[static_cast<size_t>(f)][us]))
                {
                    set(s, k, st.scal[static_cast<size_t>(f)][us]);
                }
            }
            for (int f = 0; f < st.NC; ++f, ++k)
            {
                if (st.scls[static_cast<size_t>(f)][us] >= 0)
                {
                    set(s, k, st.scls[static_cast<size_t>(f)][us]);
                }
            }
            for (int f = 0; f < st.NM; ++f, ++k)
            {
                const auto& lab = st.mcls[static_cast<size_t>(f)][us];
                if (!lab.empty())
                {
                    tensor_mem_t<int8_t, 1> hits(static_cast<tensor_size_t>(lab.size()));
                    for (size_t cc = 0; cc < lab.size(); ++cc)
                    {
                        hits(static_cast<tensor_size_t>(cc)) = static_cast<int8_t>(lab[cc]);
                    }
                    set(s, k, hits);
                }
            }
            tensor_mem_t<double, 3> y(st.T, 1, 1);
            y.zero();
            set(s, k, y);
        }
    }

private:
    const store_t* m_st;
};

// which store column a dataset feature is
struct fref_t
{
    char kind{'?'}; // 's', 'c', 'm'
    int  idx{-1};
};

struct case_t
{
    store_t                          st;
    std::vector<int>                 subset;  // fit sample list (may repeat, any order)
    std::vector<std::vector<double>> g;       // [sample][T] gradients for ALL dataset samples
    size_t                           threads{1};
    double                           gscale{1};
    std::string                      gkind;
    bool                             repeats{false};
};

// ---- generation ----------------------------------------------------------------------------------------------------
// relative grid steps of the scalar features: distinct values of one feature differ by >= q*max|x| (q >= 5e-3).
// Measured (200 000 cases, -O2): worst |score - brute force| of hinge/affine = 0.2% of the 1e-7 tolerance for q >= 1e-2, 16% for
// q >= 1e-3 ("--grid fine", an experiment, not used by the check), and FALSE ALARMS (434 of 200 000) for an absolute spacing
// of 1e-3 at |x| = 10 (q = 1e-4): the raw-moment RSS of hinge/affine loses ~1/q^2 digits; conditioning is not what C10 is about.
std::vector<double> g_grid{0.005, 0.01, 0.02, 0.05, 0.1, 0.25};

void gen_scalar_feature(vf::rng_t& rng, store_t& st, double pmiss)
{
    // values live on a grid k*step, |x| <= X <= 10, distinct values differ by >= 5e-3*X (see g_grid):
    const double X    = rng.pick(std::vector<double>{0.5, 1.0, 3.0, 10.0});
    const double q    = rng.pick(g_grid);
    const double step = X * q;
    const auto   kmax = static_cast<int64_t>(std::floor(1.0 / q + 1e-9));
    const int    kind = static_cast<int>(rng.integer(0, 5));

    std::vector<int64_t> levels;
    std::string          name;
    switch (kind)
    {
    case 0: name = "grid"; break;
    case 1:
    {
        name         = "few";
        const auto m = rng.integer(2, 5);
        for (int64_t i = 0; i < m; ++i)
        {
            levels.push_back(rng.integer(-kmax, kmax));
        }
        break;
    }
    case 2:
        name = "constant";
        levels.push_back(rng.integer(-kmax, kmax));
        break;
    case 3:
    {
        // tight cluster far from zero (cancellation in raw-moment formulas), adjacent grid levels
        name           = "offset-cluster";
        const auto m   = rng.integer(2, 6);
        const auto top = rng.chance(0.5) ? kmax : -kmax + m;
        for (int64_t i = 0; i < m; ++i)
        {
            levels.push_back(top - i);
        }
        break;
    }
    case 4:
    {
        // a bulk plus one far level (outlier)
        name           = "bulk+outlier";
        const auto b   = rng.integer(-kmax, kmax - 3);
        levels         = {b, b + 1, b + 2, b, b + 1, b + 2, b, b + 1};
        levels.push_back(rng.chance(0.5) ? kmax : -kmax);
        break;
    }
    default: name = "integers"; break;
    }

    std::vector<double> v(static_cast<size_t>(st.S));
    for (auto& x : v)
    {
        int64_t k = 0;
        if (kind == 0)
        {
            k = rng.integer(-kmax, kmax);
        }
        else if (kind == 5)
        {
            k = rng.integer(0, 3);
        }
        else
        {
            k = rng.pick(levels);
        }
        x = (kind == 5) ? static_cast<double>(k) : static_cast<double>(k) * step;
        if (rng.chance(pmiss))
        {
            x = NaN;
        }
    }
    st.scal.push_back(v);
    st.scal_kind.push_back(name);
}

case_t gen_case(vf::ctx_t& c, const bool multi_pools)
{
    auto&  rng = c.rng;
    case_t cs;
    auto&  st = cs.st;

    st.S = static_cast<int>(rng.chance(0.15) ? rng.integer(2, 6) : rng.integer(2, 60));
    st.T = static_cast<int>(rng.integer(1, 3));

    const auto nfeat = static_cast<int>(rng.integer(1, 8));
    for (int f = 0; f < nfeat; ++f)
    {
        const auto r = rng.integer(0, 9);
        (r < 5 ? st.NS : (r < 8 ? st.NC : st.NM)) += 1;
    }
    // three regimes of missing values: none, some, many
    const auto   rm    = rng.integer(0, 5);
    const double pmiss = rm == 0 ? 0.0 : (rm < 5 ? rng.uniform(0.02, 0.35) : rng.uniform(0.5, 0.95));

    for (int f = 0; f < st.NS; ++f)
    {
        gen_scalar_feature(rng, st, rng.chance(0.2) ? 0.0 : pmiss);
    }
    for (int f = 0; f < st.NC; ++f)
    {
        const auto C = static_cast<int>(rng.integer(1, 6));
        st.scls_classes.push_back(C);
        std::vector<int> v(static_cast<size_t>(st.S));
        const auto       pm = rng.chance(0.2) ? 0.0 : (rng.chance(0.04) ? 1.0 : pmiss);
        for (auto& x : v)
        {
            x = rng.chance(pm) ? -1 : static_cast<int>(rng.integer(0, C - 1));
        }
        st.scls.push_back(v);
    }
    for (int f = 0; f < st.NM; ++f)
    {
        const auto C = static_cast<int>(rng.integer(1, 6));
        st.mcls_classes.push_back(C);
        std::vector<std::vector<int>> v(static_cast<size_t>(st.S));
        const auto                    pm   = rng.chance(0.2) ? 0.0 : (rng.chance(0.04) ? 1.0 : pmiss);
        const double                  phit = rng.uniform(0.1, 0.9);
        for (auto& x : v)
        {
            if (!rng.chance(pm))
            {
                x.resize(static_cast<size_t>(C));
                for (auto& h : x)
                {
                    h = rng.chance(phit) ? 1 : 0;
                }
            }
        }
        st.mcls.push_back(v);
    }

    // gradients (for all dataset samples): noise, noise + planted structure of one feature, with offset, sparse, ties
    const auto gk = rng.integer(0, 9);
    cs.gscale     = gk == 9 ? rng.loguniform(1e-6, 1e6) : rng.loguniform(1e-2, 1e3);
    cs.g.assign(static_cast<size_t>(st.S), std::vector<double>(static_cast<size_t>(st.T), 0.0));
    const int    pf     = static_cast<int>(rng.integer(0, nfeat - 1)); // planted feature (store order s,c,m)
    const double offset = (gk == 3) ? rng.uniform(-30.0, 30.0) : 0.0;
    std::vector<std::vector<double>> lut(static_cast<size_t>(st.T), std::vector<double>(8));
    for (auto& row : lut)
    {
        for (auto& x : row)
        {
            x = rng.normal() * 2.0;
        }
    }
    for (int s = 0; s < st.S; ++s)
    {
        const auto us = static_cast<size_t>(s);
        for (int t = 0; t < st.T; ++t)
        {
            const auto ut = static_cast<size_t>(t);
            double     v  = rng.normal();
            switch (gk)
            {
            case 0:
            case 1:
            case 9: cs.gkind = "noise"; break;
            case 2:
            case 4:
            case 5:
            {
                cs.gkind = "planted+noise";
                v *= 0.3;
                if (pf < st.NS)
                {
                    const double x = st.scal[static_cast<size_t>(pf)][us];
                    if (std::isfinite(x))
                    {
                        v += (gk == 2) ? (x < 0 ? lut[ut][0] : lut[ut][1]) : (gk == 4 ? lut[ut][2] * x + lut[ut][3] : lut[ut][4] * std::max(0.0, x));
                    }
                }
                else if (pf < st.NS + st.NC)
                {
                    const int l = st.scls[static_cast<size_t>(pf - st.NS)][us];
                    v += l >= 0 ? lut[ut][static_cast<size_t>(l)] : 0.0;
                }
                else
                {
                    const auto& l = st.mcls[static_cast<size_t>(pf - st.NS - st.NC)][us];
                    for (size_t k = 0; k < l.size(); ++k)
                    {
                        v += l[k] != 0 ? lut[ut][k] : 0.0;
                    }
                }
                break;
            }
            case 3:
                cs.gkind = "offset";
                v += offset;
                break;
            case 6:
                cs.gkind = "sparse";
                v        = rng.chance(0.7) ? 0.0 : v;
                break;
            case 7:
                cs.gkind = "ties";
                v        = static_cast<double>(rng.integer(-2, 2));
                break;
            default:
                cs.gkind = "zero";
                v        = rng.chance(0.5) ? 0.0 : (s == 0 ? v : 0.0);
                break;
            }
            cs.g[us][ut] = cs.gscale * v;
        }
    }

    // the fit sample list: all, a subset, a list with repetitions; any order
    const auto sk = rng.integer(0, 5);
    if (sk == 0)
    {
        for (int s = 0; s < st.S; ++s)
        {
            cs.subset.push_back(s);
        }
    }
    else if (sk <= 3)
    {
        const double keep = rng.uniform(0.2, 0.95);
        for (int s = 0; s < st.S; ++s)
        {
            if (rng.chance(keep))
            {
                cs.subset.push_back(s);
            }
        }
        if (cs.subset.empty())
        {
            cs.subset.push_back(static_cast<int>(rng.integer(0, st.S - 1)));
        }
    }
    else
    {
        cs.repeats   = true;
        const auto n = rng.integer(1, 2 * st.S);
        for (int64_t i = 0; i < n; ++i)
        {
            cs.subset.push_back(static_cast<int>(rng.integer(0, st.S - 1)));
        }
    }
    if (rng.chance(0.6))
    {
        for (size_t i = cs.subset.size(); i > 1; --i)
        {
            std::swap(cs.subset[i - 1], cs.subset[static_cast<size_t>(rng.integer(0, static_cast<int64_t>(i) - 1))]);
        }
    }

    // every pool size of the quantifier 1..16 is reachable (reductions may be wrong for particular counts only)
    cs.threads = static_cast<size_t>(multi_pools ? rng.pick(std::vector<int64_t>{2, 2, 3, 4, 8, 16, rng.integer(2, 16), rng.integer(5, 15)})
                                                 : rng.pick(std::vector<int64_t>{1, 1, 1, 2, 3, 4, 8, 16, rng.integer(2, 16), rng.integer(5, 15)}));
    return cs;
}

uint64_t hash_case(const case_t& cs)
{
    uint64_t h = vf::hash_bytes(&cs.st.S, sizeof(int));
    for (const auto& v : cs.st.scal)
    {
        h = vf::hash_bytes(v.data(), v.size() * sizeof(double), h);
    }
    for (const auto& v : cs.st.scls)
    {
        h = vf::hash_bytes(v.data(), v.size() * sizeof(int), h);
    }
    for (const auto& f : cs.st.mcls)
    {
        for (const auto& v : f)
        {
            h = vf::hash_bytes(v.data(), v.size() * sizeof(int), h ^ 0x9E37U);
        }
    }
    for (const auto& v : cs.g)
    {
        h = vf::hash_bytes(v.data(), v.size() * sizeof(double), h);
    }
    return vf::hash_bytes(cs.subset.data(), cs.subset.size() * sizeof(int), h);
}

vf::json_t describe(const case_t& cs)
{
    const auto& st = cs.st;
    vf::json_t  j;
    j.kv("samples", st.S).kv("scalar", st.NS).kv("sclass", st.NC).kv("mclass", st.NM).kv("outputs", st.T);
    j.kv("pool", static_cast<unsigned long>(cs.threads)).kv("gradients", cs.gkind).kv("gscale", cs.gscale);
    j.kv("repeats", cs.repeats);
    j.arr("subset", cs.subset.data(), cs.subset.size(), 130);
    for (int f = 0; f < st.NS; ++f)
    {
        j.arr("s" + std::to_string(f) + ":" + st.scal_kind[static_cast<size_t>(f)], st.scal[static_cast<size_t>(f)].data(),
              st.scal[static_cast<size_t>(f)].size(), 64);
    }
    for (int f = 0; f < st.NC; ++f)
    {
        j.arr("c" + std::to_string(f) + ":" + std::to_string(st.scls_classes[static_cast<size_t>(f)]),
              st.scls[static_cast<size_t>(f)].data(), st.scls[static_cast<size_t>(f)].size(), 64);
    }
    for (int f = 0; f < st.NM; ++f)
    {
        std::vector<int> codes;
        for (const auto& l : st.mcls[static_cast<size_t>(f)])
        {
            int code = l.empty() ? -1 : 0;
            for (size_t k = 0; k < l.size(); ++k)
            {
                code |= l[k] << k;
            }
            codes.push_back(code);
        }
        j.arr("m" + std::to_string(f) + ":" + std::to_string(st.mcls_classes[static_cast<size_t>(f)]) + "(bitmask)", codes.data(),
              codes.size(), 64);
    }
    std::vector<double> gflat;
    for (const auto& row : cs.g)
    {
        gflat.insert(gflat.end(), row.begin(), row.end());
    }
    j.arr("gradients_row_major", gflat.data(), gflat.size(), 190);
    return j;
}

// ---- the live library objects of a case ----------------------------------------------------------------------------
struct live_t
{
    std::unique_ptr<shadow_ds_t> source;
    std::unique_ptr<dataset_t>   dataset;
    std::vector<fref_t>          fmap; // dataset feature -> store column
    tensor4d_t                   gradients;
    indices_t                    samples;
};

indices_t to_indices(const std::vector<int>& v)
{
    indices_t r(static_cast<tensor_size_t>(v.size()));
    for (size_t i = 0; i < v.size(); ++i)
    {
        r(static_cast<tensor_size_t>(i)) = v[i];
    }
    return r;
}

tensor4d_t to_gradients(const case_t& cs, const std::vector<std::vector<double>>& g, const dataset_t& dataset)
{
    tensor4d_t gradients(cat_dims(cs.st.S, dataset.target_dims()));
    for (int s = 0; s < cs.st.S; ++s)
    {
        for (int t = 0; t < cs.st.T; ++t)
        {
            gradients(s, t, 0, 0) = g[static_cast<size_t>(s)][static_cast<size_t>(t)];
        }
    }
    return gradients;
}

bool make_live(vf::ctx_t& c, const case_t& cs, live_t& lv)
{
    lv.source = std::make_unique<shadow_ds_t>(cs.st);
    lv.source->load();
    lv.dataset = std::make_unique<dataset_t>(*lv.source, cs.threads);
    lv.dataset->add<scalar_identity_generator_t>();
    lv.dataset->add<sclass_identity_generator_t>();
    lv.dataset->add<mclass_identity_generator_t>();

    const auto& st = cs.st;
    const auto  nf = lv.dataset->features();
    bool        ok = nf == st.NS + st.NC + st.NM && lv.dataset->samples() == st.S && lv.dataset->target_dims() == make_dims(st.T, 1, 1);
    for (tensor_size_t i = 0; ok && i < nf; ++i)
    {
        const auto name = lv.dataset->feature(i).name();
        fref_t     r;
        r.kind = name.empty() ? '?' : name[0];
        r.idx  = name.size() > 1 ? std::atoi(name.c_str() + 1) : -1;
        const int lim = r.kind == 's' ? st.NS : (r.kind == 'c' ? st.NC : (r.kind == 'm' ? st.NM : 0));
        ok            = r.idx >= 0 && r.idx < lim;
        lv.fmap.push_back(r);
    }
    if (!ok)
    {
        // the dataset does not expose the store the way this harness assumes (judged by C08, not here)
        c.inconclusive("dataset-layout");
        return false;
    }
    lv.gradients = to_gradients(cs, cs.g, *lv.dataset);
    lv.samples   = to_indices(cs.subset);
    return true;
}

// ---- brute force ---------------------------------------------------------------------------------------------------
struct brute_t
{
    const store_t&                          st;
    const std::vector<int>&                 samples; // multiset of sample indices
    const std::vector<std::vector<double>>& g;

    ld rss_zero(int s) const
    {
        ld r = 0;
        for (int t = 0; t < st.T; ++t)
        {
            const ld v = g[static_cast<size_t>(s)][static_cast<size_t>(t)];
            r += v * v;
        }
        return r;
    }

    ld rss_zero(const std::vector<int>& idx) const
    {
        ld r = 0;
        for (const int s : idx)
        {
            r += rss_zero(s);
        }
        return r;
    }

    ld residual(int s, int t) const { return -static_cast<ld>(g[static_cast<size_t>(s)][static_cast<size_t>(t)]); }

    // best constant over idx (centred)
    ld rss_const(const std::vector<int>& idx) const
    {
        if (idx.empty())
        {
            return 0;
        }
        ld total = 0;
        for (int t = 0; t < st.T; ++t)
        {
            ld m = 0;
            for (const int s : idx)
            {
                m += residual(s, t);
            }
            m /= static_cast<ld>(idx.size());
            for (const int s : idx)
            {
                const ld d = residual(s, t) - m;
                total += d * d;
            }
        }
        return total;
    }

    // least squares r ~ w*x+b over idx; ok=false if the present values are (nearly) all equal
    ld rss_affine(const std::vector<int>& idx, const std::vector<double>& x, bool& ok) const
    {
        ok = false;
        if (idx.size() < 2)
        {
            return 0;
        }
        ld mx = 0;
        for (const int s : idx)
        {
            mx += x[static_cast<size_t>(s)];
        }
        mx /= static_cast<ld>(idx.size());
        ld vx = 0;
        for (const int s : idx)
        {
            const ld d = static_cast<ld>(x[static_cast<size_t>(s)]) - mx;
            vx += d * d;
        }
        if (vx <= 1e-12L * (1 + mx * mx) * static_cast<ld>(idx.size()))
        {
            return 0;
        }
        ok       = true;
        ld total = 0;
        for (int t = 0; t < st.T; ++t)
        {
            ld mr = 0;
            for (const int s : idx)
            {
                mr += residual(s, t);
            }
            mr /= static_cast<ld>(idx.size());
            ld cv = 0;
            for (const int s : idx)
            {
                cv += (static_cast<ld>(x[static_cast<size_t>(s)]) - mx) * (residual(s, t) - mr);
            }
            const ld w = cv / vx;
            for (const int s : idx)
            {
                const ld d = (residual(s, t) - mr) - w * (static_cast<ld>(x[static_cast<size_t>(s)]) - mx);
                total += d * d;
            }
        }
        return total;
    }

    // r ~ beta*(x-thr) on idx (no intercept)
    ld rss_hinge_side(const std::vector<int>& idx, const std::vector<double>& x, double thr) const
    {
        ld total = 0;
        for (int t = 0; t < st.T; ++t)
        {
            ld num = 0, den = 0;
            for (const int s : idx)
            {
                const ld u = static_cast<ld>(x[static_cast<size_t>(s)]) - static_cast<ld>(thr);
                num += u * residual(s, t);
                den += u * u;
            }
            const ld beta = den > 0 ? num / den : 0;
            for (const int s : idx)
            {
                const ld d = residual(s, t) - beta * (static_cast<ld>(x[static_cast<size_t>(s)]) - static_cast<ld>(thr));
                total += d * d;
            }
        }
        return total;
    }

    struct best_t
    {
        ld   lo{1e300L}, up{1e300L}; // bracket of the minimum RSS (lo == up unless a convention is open)
        bool any_lo{false}, any_up{false};
        int  thresholds_max{0};

        void both(ld v)
        {
            lo     = std::min(lo, v);
            up     = std::min(up, v);
            any_lo = any_up = true;
        }

        void only_lo(ld v)
        {
            lo     = std::min(lo, v);
            any_lo = true;
        }
    };

    void present(const std::vector<double>& x, std::vector<int>& pres, ld& miss) const
    {
        miss = 0;
        for (const int s : samples)
        {
            if (std::isfinite(x[static_cast<size_t>(s)]))
            {
                pres.push_back(s);
            }
            else
            {
                miss += rss_zero(s);
            }
        }
    }

    static std::vector<double> distinct(const std::vector<double>& x, const std::vector<int>& pres)
    {
        std::set<double> vals;
        for (const int s : pres)
        {
            vals.insert(x[static_cast<size_t>(s)]);
        }
        return {vals.begin(), vals.end()};
    }

    best_t best_stump() const
    {
        best_t b;
        for (int f = 0; f < st.NS; ++f)
        {
            const auto&      x = st.scal[static_cast<size_t>(f)];
            std::vector<int> pres;
            ld               miss = 0;
            present(x, pres, miss);
            const auto v      = distinct(x, pres);
            b.thresholds_max  = std::max(b.thresholds_max, static_cast<int>(v.size()) - 1);
            for (size_t i = 0; i + 1 < v.size(); ++i)
            {
                const double     thr = 0.5 * (v[i] + v[i + 1]);
                std::vector<int> lo, hi;
                for (const int s : pres)
                {
                    (x[static_cast<size_t>(s)] < thr ? lo : hi).push_back(s);
                }
                b.both(rss_const(lo) + rss_const(hi) + miss);
            }
        }
        return b;
    }

    best_t best_hinge() const
    {
        best_t b;
        for (int f = 0; f < st.NS; ++f)
        {
            const auto&      x = st.scal[static_cast<size_t>(f)];
            std::vector<int> pres;
            ld               miss = 0;
            present(x, pres, miss);
            const auto v = distinct(x, pres);
            for (size_t i = 0; i + 1 < v.size(); ++i)
            {
                const double     thr = 0.5 * (v[i] + v[i + 1]);
                std::vector<int> lo, hi;
                for (const int s : pres)
                {
                    (x[static_cast<size_t>(s)] < thr ? lo : hi).push_back(s);
                }
                b.both(rss_hinge_side(lo, x, thr) + rss_zero(hi) + miss);
                b.both(rss_hinge_side(hi, x, thr) + rss_zero(lo) + miss);
            }
        }
        return b;
    }

    best_t best_affine() const
    {
        best_t b;
        for (int f = 0; f < st.NS; ++f)
        {
            const auto&      x = st.scal[static_cast<size_t>(f)];
            std::vector<int> pres;
            ld               miss = 0;
            present(x, pres, miss);
            bool     ok = false;
            const ld r  = rss_affine(pres, x, ok);
            if (ok)
            {
                b.both(r + miss);
            }
            else if (!pres.empty())
            {
                // degenerate least squares (all present values equal): the class contains the constant fits; whether the
                // library considers the feature at all is left open (bracket)
                b.only_lo(rss_const(pres) + miss);
            }
        }
        return b;
    }

    template <class tkey>
    void table_candidates(const std::map<tkey, std::vector<int>>& groups, ld miss, bool dstep, best_t& b) const
    {
        if (groups.empty())
        {
            // no present value among the samples: an empty table (predicts zero everywhere) - legal for the dense table by the
            // design; whether such a feature is considered at all is left open (bracket)
            b.only_lo(miss);
            return;
        }
        if (!dstep)
        {
            ld r = miss;
            for (const auto& kv : groups)
            {
                r += rss_const(kv.second);
            }
            b.both(r);
            return;
        }
        ld zero = miss;
        for (const auto& kv : groups)
        {
            zero += rss_zero(kv.second);
        }
        for (const auto& kv : groups)
        {
            b.both(zero - rss_zero(kv.second) + rss_const(kv.second));
        }
    }

    best_t best_table(bool dstep) const
    {
        best_t b;
        for (int f = 0; f < st.NC; ++f)
        {
            std::map<int, std::vector<int>> groups;
            ld                              miss = 0;
            for (const int s : samples)
            {
                const int l = st.scls[static_cast<size_t>(f)][static_cast<size_t>(s)];
                if (l >= 0)
                {
                    groups[l].push_back(s);
                }
                else
                {
                    miss += rss_zero(s);
                }
            }
            table_candidates(groups, miss, dstep, b);
        }
        for (int f = 0; f < st.NM; ++f)
        {
            std::map<std::vector<int>, std::vector<int>> groups;
            ld                                           miss = 0;
            for (const int s : samples)
            {
                const auto& l = st.mcls[static_cast<size_t>(f)][static_cast<size_t>(s)];
                if (!l.empty())
                {
                    groups[l].push_back(s);
                }
                else
                {
                    miss += rss_zero(s);
                }
            }
            table_candidates(groups, miss, dstep, b);
        }
        return b;
    }
};

// ---- observation helpers -------------------------------------------------------------------------------------------
bool feature_missing(const store_t& st, const fref_t& r, int s)
{
    const auto us = static_cast<size_t>(s);
    switch (r.kind)
    {
    case 's': return !std::isfinite(st.scal[static_cast<size_t>(r.idx)][us]);
    case 'c': return st.scls[static_cast<size_t>(r.idx)][us] < 0;
    default: return st.mcls[static_cast<size_t>(r.idx)][us].empty();
    }
}

tensor4d_t predict_zero(const wlearner_t& wl, const dataset_t& dataset, const indices_t& samples)
{
    tensor4d_t outputs(cat_dims(samples.size(), dataset.target_dims()));
    outputs.zero();
    wl.predict(dataset, samples, outputs.tensor());
    return outputs;
}

std::string criterion_name(const wlearner_criterion cr)
{
    switch (cr)
    {
    case wlearner_criterion::rss: return "rss";
    case wlearner_criterion::aic: return "aic";
    case wlearner_criterion::aicc: return "aicc";
    default: return "bic";
    }
}

// =====================================================================================================================
// mode "optimal"
// =====================================================================================================================
void run_optimal(vf::ctx_t& c, const bool multi_pools)
{
    const auto cs = gen_case(c, multi_pools);
    live_t     lv;
    if (!make_live(c, cs, lv))
    {
        return;
    }
    const auto& st      = cs.st;
    const auto& dataset = *lv.dataset;

    ld sumg2 = 0;
    for (const int s : cs.subset)
    {
        for (int t = 0; t < st.T; ++t)
        {
            const ld v = cs.g[static_cast<size_t>(s)][static_cast<size_t>(t)];
            sumg2 += v * v;
        }
    }
    const brute_t brute{st, cs.subset, cs.g};
    const ld      floor_ = static_cast<ld>(EPS) * 1e3L;

    bool winner_not_first = false, winner_missing = false, thresholds3 = false, tables2 = false;
    int  fitted = 0;

    const auto witness = [&](const std::string& id)
    {
        auto j = describe(cs);
        j.kv("learner", id);
        return j;
    };

    for (const char* cid : {"stump", "hinge", "affine", "dense-table", "dstep-table"})
    {
        const std::string id = cid;
        auto              wl = wlearner_t::all().get(id);
        wl->parameter("wlearner::criterion") = wlearner_criterion::rss;

        const auto score = wl->fit(dataset, lv.samples, lv.gradients);
        c.count("fit:" + id);

        brute_t::best_t b;
        double          rtol = 1e-9;
        if (id == "stump")
        {
            b = brute.best_stump();
        }
        else if (id == "hinge")
        {
            b    = brute.best_hinge();
            rtol = 1e-7;
        }
        else if (id == "affine")
        {
            b    = brute.best_affine();
            rtol = 1e-7;
        }
        else
        {
            b = brute.best_table(id == "dstep-table");
        }
        const ld tol = static_cast<ld>(rtol) * (1 + sumg2);

        if (score == wlearner_t::no_fit_score())
        {
            c.count("nofit:" + id);
            c.count("clause:nofit-only-without-candidates");
            if (b.any_up)
            {
                c.violation("C10|no-fit-but-class-not-empty|" + id, witness(id).kv("bruteforce_min_rss", static_cast<double>(b.up)));
            }
            continue;
        }
        ++fitted;

        c.count("clause:score-vs-bruteforce");
        c.count("clause:score-vs-bruteforce:" + id);
        if (!b.any_lo)
        {
            c.violation("C10|fit-but-class-empty|" + id, witness(id).kv("score", score));
            continue;
        }
        const ld lo = std::max(b.lo, floor_), up = b.any_up ? std::max(b.up, floor_) : 1e300L;
        const ld sc = score;
        if (b.lo != b.up)
        {
            c.count("bracket-open:" + id);
        }
        if (!std::isfinite(score) || sc < lo - tol || sc > up + tol)
        {
            auto j = witness(id);
            j.kv("score", score).kv("bruteforce_lo", static_cast<double>(lo)).kv("bruteforce_up", static_cast<double>(up));
            j.kv("tolerance", static_cast<double>(tol)).kv("sum_g2", static_cast<double>(sumg2));
            c.violation(std::string("C10|score-") + (sc < lo ? "below" : "above") + "-bruteforce-minimum|" + id, j);
        }
        else
        {
            // distance to the attained minimum when the bracket is closed (how much of the tolerance the rounding noise uses)
            if (b.lo == b.up)
            {
                c.maxc("score_err_ppm_of_tol:" + id, static_cast<int64_t>(1e6L * std::fabs(sc - lo) / tol));
            }
        }

        // predictions reproduce the score
        const auto outputs = predict_zero(*wl, dataset, lv.samples);
        ld         rss     = 0;
        for (tensor_size_t i = 0; i < lv.samples.size(); ++i)
        {
            for (int t = 0; t < st.T; ++t)
            {
                const ld d = brute.residual(cs.subset[static_cast<size_t>(i)], t) - static_cast<ld>(outputs(i, t, 0, 0));
                rss += d * d;
            }
        }
        rss = std::max(rss, floor_);
        c.count("clause:predictions-reproduce-score");
        c.count("clause:predictions-reproduce-score:" + id);
        if (!(std::fabs(rss - sc) <= tol))
        {
            auto j = witness(id);
            j.kv("score", score).kv("rss_of_predictions", static_cast<double>(rss)).kv("tolerance", static_cast<double>(tol));
            const auto* single = dynamic_cast<const single_feature_wlearner_t*>(wl.get());
            if (single != nullptr)
            {
                j.kv("feature", static_cast<long long>(single->feature()));
                j.arr("tables", single->tables().data(), static_cast<size_t>(single->tables().size()), 24);
            }
            c.violation("C10|predictions-do-not-reproduce-score|" + id, j);
        }
        else
        {
            c.maxc("pred_err_ppm_of_tol:" + id, static_cast<int64_t>(1e6L * std::fabs(rss - sc) / tol));
        }

        // non-triviality bookkeeping (observations of the winner)
        if (const auto* single = dynamic_cast<const single_feature_wlearner_t*>(wl.get()); single != nullptr)
        {
            const auto f = single->feature();
            if (f >= 0 && f < static_cast<tensor_size_t>(lv.fmap.size()))
            {
                const auto& r     = lv.fmap[static_cast<size_t>(f)];
                const bool  first = r.kind == 's' ? (r.idx == 0) : (r.kind == 'c' ? r.idx == 0 : (st.NC == 0 && r.idx == 0));
                bool        miss  = false;
                for (const int s : cs.subset)
                {
                    miss = miss || feature_missing(st, r, s);
                }
                winner_not_first = winner_not_first || !first;
                winner_missing   = winner_missing || miss;
                if (!first)
                {
                    c.count("winner-not-first-feature:" + id);
                }
                if (miss)
                {
                    c.count("winner-has-missing-values:" + id);
                }
                if (r.kind == 's' && (id == "stump" || id == "hinge"))
                {
                    std::vector<int> pres;
                    ld               m = 0;
                    brute.present(st.scal[static_cast<size_t>(r.idx)], pres, m);
                    thresholds3 = thresholds3 || brute_t::distinct(st.scal[static_cast<size_t>(r.idx)], pres).size() >= 4;
                }
                if (r.kind != 's')
                {
                    tables2 = tables2 || single->tables().size<0>() >= 2;
                }
            }
            else
            {
                c.violation("C10|selected-feature-out-of-range|" + id, witness(id).kv("feature", static_cast<long long>(f)));
            }
        }
    }

    if (fitted > 0 && winner_not_first && (thresholds3 || (st.NS == 0 && tables2)))
    {
        c.nontrivial(hash_case(cs));
        if (winner_missing)
        {
            c.count("nontrivial-with-missing-values-in-winner");
        }
    }
    if (cs.repeats)
    {
        c.count("cases-with-repeated-samples");
    }
    c.count("pool-size:" + std::to_string(cs.threads));
    if (c.want_sample())
    {
        c.sample(describe(cs));
    }
}

// =====================================================================================================================
// mode "algebra"
// =====================================================================================================================
struct fit_t
{
    std::string        id;
    rwlearner_t        wl;
    wlearner_criterion criterion{wlearner_criterion::rss};
    double             score{0};
};

// walks the decision tree on the store; -1 = no group (a feature on the path is missing)
tensor_size_t ref_tree_group(const store_t& st, const std::vector<fref_t>& fmap, const dtree_nodes_t& nodes, int s, bool& broken)
{
    size_t idx = 0;
    for (size_t guard = 0; guard <= nodes.size(); ++guard)
    {
        if (idx + 1 >= nodes.size())
        {
            broken = true;
            return -1;
        }
        const auto& node = nodes[idx];
        if (node.m_feature < 0 || node.m_feature >= static_cast<tensor_size_t>(fmap.size()) || fmap[static_cast<size_t>(node.m_feature)].kind != 's')
        {
            broken = true;
            return -1;
        }
        const double x = st.scal[static_cast<size_t>(fmap[static_cast<size_t>(node.m_feature)].idx)][static_cast<size_t>(s)];
        if (!std::isfinite(x))
        {
            return -1;
        }
        const size_t grp = x < node.m_threshold ? 0U : 1U;
        if (node.m_next == 0U)
        {
            return node.m_table + static_cast<tensor_size_t>(grp);
        }
        idx = nodes[idx + grp].m_next;
    }
    broken = true;
    return -1;
}

struct ref_pred_t
{
    tensor_size_t       group{-1};
    std::vector<double> value; // expected prediction (T)
    std::vector<double> mag;   // magnitude of the terms (for rounding tolerances)
    bool                exact{true};
    bool                missing{false}; // a selected feature is missing for this sample
};

// label key of a categorical feature (to check that split() is a function of the label)
std::vector<int> label_key(const store_t& st, const fref_t& r, int s)
{
    if (r.kind == 'c')
    {
        return {st.scls[static_cast<size_t>(r.idx)][static_cast<size_t>(s)]};
    }
    return st.mcls[static_cast<size_t>(r.idx)][static_cast<size_t>(s)];
}

struct algebra_t
{
    vf::ctx_t&    c;
    const case_t& cs;
    const live_t& lv;

    vf::json_t witness(const fit_t& f) const
    {
        auto j = describe(cs);
        j.kv("learner", f.id).kv("criterion", criterion_name(f.criterion)).kv("score", f.score);
        if (const auto* single = dynamic_cast<const single_feature_wlearner_t*>(f.wl.get()); single != nullptr)
        {
            j.kv("feature", static_cast<long long>(single->feature()));
            j.arr("tables", single->tables().data(), static_cast<size_t>(single->tables().size()), 24);
        }
        return j;
    }

    // expected prediction of `wl` for dataset sample s, given the group reported by split() (tables learners) or
    // derived from the store (all others); sets `group_expected` when the store determines the group.
    bool reference(const fit_t& f, const wlearner_t& wl, int s, tensor_size_t split_group, ref_pred_t& r, bool& group_known,
                   tensor_size_t& group_expected) const
    {
        const auto& st = cs.st;
        const auto  T  = static_cast<size_t>(st.T);
        r.value.assign(T, 0.0);
        r.mag.assign(T, 0.0);
        r.exact     = true;
        group_known = false;

        if (const auto* tree = dynamic_cast<const dtree_wlearner_t*>(&wl); tree != nullptr)
        {
            bool broken    = false;
            group_expected = ref_tree_group(st, lv.fmap, tree->nodes(), s, broken);
            if (broken || (group_expected >= tree->tables().size<0>()))
            {
                c.violation("C10|malformed-tree|dtree", witness(f));
                return false;
            }
            group_known = true;
            r.group     = group_expected;
            // a feature of the walked path is missing <=> no group
            r.missing = group_expected < 0;
            if (group_expected >= 0)
            {
                for (size_t t = 0; t < T; ++t)
                {
                    r.value[t] = tree->tables()(group_expected, static_cast<tensor_size_t>(t), 0, 0);
                    r.mag[t]   = std::fabs(r.value[t]);
                }
            }
            return true;
        }

        const auto* single = dynamic_cast<const single_feature_wlearner_t*>(&wl);
        if (single == nullptr || single->feature() < 0 || single->feature() >= static_cast<tensor_size_t>(lv.fmap.size()))
        {
            c.violation("C10|selected-feature-out-of-range|" + f.id, witness(f));
            return false;
        }
        const auto& fr     = lv.fmap[static_cast<size_t>(single->feature())];
        const auto& tables = single->tables();
        r.missing          = feature_missing(st, fr, s);

        const auto table_row = [&](tensor_size_t row)
        {
            for (size_t t = 0; t < T; ++t)
            {
                r.value[t] = tables(row, static_cast<tensor_size_t>(t), 0, 0);
                r.mag[t]   = std::fabs(r.value[t]);
            }
        };

        if (const auto* stump = dynamic_cast<const stump_wlearner_t*>(&wl); stump != nullptr)
        {
            if (fr.kind != 's' || tables.size<0>() != 2)
            {
                c.violation("C10|wrong-feature-kind|" + f.id, witness(f));
                return false;
            }
            group_known    = true;
            const double x = st.scal[static_cast<size_t>(fr.idx)][static_cast<size_t>(s)];
            group_expected = r.missing ? -1 : (x < stump->threshold() ? 0 : 1);
            r.group        = group_expected;
            if (!r.missing)
            {
                table_row(group_expected);
            }
            return true;
        }
        const auto* hinge  = dynamic_cast<const hinge_wlearner_t*>(&wl);
        const auto* affine = dynamic_cast<const affine_wlearner_t*>(&wl);
        if (hinge != nullptr || affine != nullptr)
        {
            if (fr.kind != 's' || tables.size<0>() != 2)
            {
                c.violation("C10|wrong-feature-kind|" + f.id, witness(f));
                return false;
            }
            group_known    = true;
            const double x = st.scal[static_cast<size_t>(fr.idx)][static_cast<size_t>(s)];
            bool         on = !r.missing;
            if (on && hinge != nullptr)
            {
                on = hinge->hinge() == hinge_type::left ? (x < hinge->threshold()) : (x >= hinge->threshold());
            }
            group_expected = on ? 0 : -1;
            r.group        = group_expected;
            r.exact        = false;
            if (on)
            {
                for (size_t t = 0; t < T; ++t)
                {
                    const double w = tables(0, static_cast<tensor_size_t>(t), 0, 0), b = tables(1, static_cast<tensor_size_t>(t), 0, 0);
                    r.value[t]     = w * x + b;
                    r.mag[t]       = std::fabs(w * x) + std::fabs(b);
                }
            }
            return true;
        }
        // look-up tables: the group comes from split() (its dependence on the label alone is checked by the caller)
        if (fr.kind == 's')
        {
            c.violation("C10|wrong-feature-kind|" + f.id, witness(f));
            return false;
        }
        if (split_group >= tables.size<0>())
        {
            c.violation("C10|split-group-out-of-range|" + f.id, witness(f).kv("group", static_cast<long long>(split_group)));
            return false;
        }
        r.group = split_group;
        if (r.missing)
        {
            group_known    = true;
            group_expected = -1;
        }
        if (split_group >= 0)
        {
            table_row(split_group);
        }
        return true;
    }

    // the consistency clauses for one fitted learner over several sample lists
    void check(const fit_t& f, const std::vector<std::vector<int>>& lists, int& missing_checked)
    {
        const auto& st      = cs.st;
        const auto& dataset = *lv.dataset;
        const auto& wl      = *f.wl;
        const auto  T       = st.T;
        auto&       rng     = c.rng;

        // a scaled clone (s >= 0; one factor for all groups or one per group)
        const auto     groups0 = wl.split(dataset, to_indices(lists[0])).groups();
        const bool     pergrp  = rng.chance(0.6) && groups0 > 1;
        const auto     nscale  = pergrp ? groups0 : tensor_size_t{1};
        nano::vector_t scale(nscale);
        for (tensor_size_t i = 0; i < nscale; ++i)
        {
            const auto r = rng.integer(0, 9);
            scale(i)     = r == 0 ? 0.0 : (r == 1 ? 1.0 : rng.uniform(0.05, 3.0));
        }
        auto scaled = wl.clone();
        scaled->scale(scale);

        std::map<int, std::vector<double>>                first_pred;  // sample -> prediction seen first
        std::map<std::vector<int>, tensor_size_t>         label_group; // label key -> group (tables)
        const auto* single  = dynamic_cast<const single_feature_wlearner_t*>(&wl);
        const bool  istable = dynamic_cast<const table_wlearner_t*>(&wl) != nullptr;

        for (size_t li = 0; li < lists.size(); ++li)
        {
            const auto& list    = lists[li];
            const auto  samples = to_indices(list);
            const auto  P0      = predict_zero(wl, dataset, samples);
            const auto  cluster = wl.split(dataset, samples);
            const auto  P2      = predict_zero(*scaled, dataset, samples);
            const auto  cluster2 = scaled->split(dataset, samples);

            // (a) predictions are ADDED to the given outputs
            tensor4d_t base(cat_dims(samples.size(), dataset.target_dims()));
            for (tensor_size_t i = 0; i < base.size(); ++i)
            {
                base(i) = rng.normal() * (rng.chance(0.5) ? 1.0 : cs.gscale);
            }
            auto out = base;
            wl.predict(dataset, samples, out.tensor());
            c.count("clause:added-to-outputs");
            for (tensor_size_t i = 0; i < base.size(); ++i)
            {
                const double e = base(i) + P0(i);
                if (!(std::fabs(out(i) - e) <= 8 * EPS * (std::fabs(base(i)) + std::fabs(P0(i)))))
                {
                    c.violation("C10|not-added-to-outputs|" + f.id,
                                witness(f).kv("given", base(i)).kv("prediction_from_zero", P0(i)).kv("got", out(i)));
                    break;
                }
            }

            if (cluster.samples() != dataset.samples())
            {
                c.violation("C10|split-size|" + f.id, witness(f));
                return;
            }

            for (size_t i = 0; i < list.size(); ++i)
            {
                const int  s  = list[i];
                const auto ti = static_cast<tensor_size_t>(i);
                const auto g  = cluster.group(s);

                ref_pred_t    r;
                bool          group_known    = false;
                tensor_size_t group_expected = -1;
                if (!reference(f, wl, s, g, r, group_known, group_expected))
                {
                    return;
                }

                // (b) zero for a missing selected feature (and no group)
                if (r.missing)
                {
                    ++missing_checked;
                    c.count("clause:zero-when-feature-missing");
                    bool zero = g < 0;
                    for (int t = 0; t < T; ++t)
                    {
                        zero = zero && P0(ti, t, 0, 0) == 0.0;
                    }
                    if (!zero)
                    {
                        c.violation("C10|nonzero-for-missing-feature|" + f.id,
                                    witness(f).kv("sample", s).kv("group", static_cast<long long>(g)).kv("prediction0", P0(ti, 0, 0, 0)));
                        return;
                    }
                }

                // (d) split() groups: as the store says (scalar learners, tree), a function of the label (tables)
                c.count("clause:split-group");
                if (group_known && g != group_expected)
                {
                    c.violation("C10|split-group-mismatch|" + f.id,
                                witness(f).kv("sample", s).kv("group", static_cast<long long>(g)).kv("expected", static_cast<long long>(group_expected)));
                    return;
                }
                if (istable && !r.missing && single != nullptr)
                {
                    const auto key = label_key(st, lv.fmap[static_cast<size_t>(single->feature())], s);
                    const auto it  = label_group.find(key);
                    if (it == label_group.end())
                    {
                        label_group[key] = g;
                    }
                    else if (it->second != g)
                    {
                        c.violation("C10|split-not-a-function-of-the-label|" + f.id, witness(f).kv("sample", s));
                        return;
                    }
                }

                // (d) prediction == table of the group of split() (w*x+b of the group for affine/hinge)
                c.count("clause:prediction-equals-table-of-group");
                for (int t = 0; t < T; ++t)
                {
                    const auto   ut  = static_cast<size_t>(t);
                    const double got = P0(ti, t, 0, 0);
                    const double tol = r.exact ? 0.0 : 8 * EPS * r.mag[ut];
                    if (!(std::fabs(got - r.value[ut]) <= tol))
                    {
                        c.violation("C10|prediction-differs-from-table-of-group|" + f.id,
                                    witness(f).kv("sample", s).kv("output", t).kv("group", static_cast<long long>(g)).kv("got", got).kv("expected", r.value[ut]));
                        return;
                    }
                }

                // (c) depends only on the sample: the same sample in any list / position gives the same bits
                c.count("clause:depends-only-on-sample");
                std::vector<double> row(static_cast<size_t>(T));
                for (int t = 0; t < T; ++t)
                {
                    row[static_cast<size_t>(t)] = P0(ti, t, 0, 0);
                }
                const auto it = first_pred.find(s);
                if (it == first_pred.end())
                {
                    first_pred[s] = row;
                }
                else if (std::memcmp(it->second.data(), row.data(), row.size() * sizeof(double)) != 0)
                {
                    c.violation("C10|prediction-depends-on-other-samples|" + f.id,
                                witness(f).kv("sample", s).kv("first", it->second[0]).kv("now", row[0]).kv("list", static_cast<long long>(li)));
                    return;
                }

                // (e) scale(s): same groups, predictions multiplied by the factor of the group
                c.count("clause:scale");
                if (cluster2.group(s) != g)
                {
                    c.violation("C10|scale-changes-split|" + f.id, witness(f).kv("sample", s));
                    return;
                }
                const double sf = g < 0 ? 1.0 : scale(std::min(g, nscale - 1));
                for (int t = 0; t < T; ++t)
                {
                    const auto   ut  = static_cast<size_t>(t);
                    const double e   = sf * P0(ti, t, 0, 0);
                    const double got = P2(ti, t, 0, 0);
                    const double tol = 8 * EPS * sf * std::max(r.mag[ut], std::fabs(P0(ti, t, 0, 0)));
                    if (!(std::fabs(got - e) <= tol))
                    {
                        auto j = witness(f);
                        j.kv("sample", s).kv("output", t).kv("group", static_cast<long long>(g)).kv("factor", sf).kv("per_group", pergrp);
                        j.kv("prediction", P0(ti, t, 0, 0)).kv("scaled_prediction", got).kv("expected", e);
                        j.arr("scale", scale.data(), static_cast<size_t>(scale.size()), 32);
                        c.violation("C10|scale-does-not-multiply-predictions|" + f.id, j);
                        return;
                    }
                }
            }
        }
        if (pergrp)
        {
            c.count("scale-per-group");
        }
    }

    // |terms| of the prediction of wl for every sample of the list (for the rounding tolerance of merge)
    void accumulate(const wlearner_t& wl, const std::vector<int>& list, const indices_t& samples, std::vector<ld>& sum,
                    std::vector<double>& mag) const
    {
        const auto& st      = cs.st;
        const auto  P       = predict_zero(wl, *lv.dataset, samples);
        const auto* single  = dynamic_cast<const single_feature_wlearner_t*>(&wl);
        const bool  lin     = dynamic_cast<const affine_wlearner_t*>(&wl) != nullptr || dynamic_cast<const hinge_wlearner_t*>(&wl) != nullptr;
        for (size_t i = 0; i < list.size(); ++i)
        {
            for (int t = 0; t < st.T; ++t)
            {
                const auto k = i * static_cast<size_t>(st.T) + static_cast<size_t>(t);
                const auto p = P(static_cast<tensor_size_t>(i), t, 0, 0);
                sum[k] += p;
                double m = std::fabs(p);
                if (lin && single != nullptr && single->feature() >= 0 && single->feature() < static_cast<tensor_size_t>(lv.fmap.size()) &&
                    lv.fmap[static_cast<size_t>(single->feature())].kind == 's')
                {
                    const double x = st.scal[static_cast<size_t>(lv.fmap[static_cast<size_t>(single->feature())].idx)][static_cast<size_t>(list[i])];
                    if (std::isfinite(x))
                    {
                        m = std::fabs(single->tables()(0, t, 0, 0) * x) + std::fabs(single->tables()(1, t, 0, 0));
                    }
                }
                mag[k] += m;
            }
        }
    }

    // (f) merging a list of learners leaves the sum of their predictions unchanged
    void check_merge(rwlearners_t& list, const std::vector<int>& samples_list, const std::string& what)
    {
        const auto samples = to_indices(samples_list);
        const auto n       = samples_list.size() * static_cast<size_t>(cs.st.T);

        std::vector<ld>     before(n, 0), after(n, 0);
        std::vector<double> mag(n, 0.0), mag2(n, 0.0);
        std::vector<std::string> ids;
        for (const auto& wl : list)
        {
            accumulate(*wl, samples_list, samples, before, mag);
            ids.push_back(wl->type_id());
        }
        const auto size0 = list.size();
        wlearner::merge(list);
        for (const auto& wl : list)
        {
            if (!wl)
            {
                c.violation("C10|merge-leaves-null-learner", describe(cs));
                return;
            }
            accumulate(*wl, samples_list, samples, after, mag2);
        }
        c.count("clause:merge-keeps-sum");
        c.count("merge-lists:" + what);
        if (list.size() < size0)
        {
            c.count("merge-lists-reduced");
            c.count("merged-learners", static_cast<int64_t>(size0 - list.size()));
        }
        for (size_t k = 0; k < n; ++k)
        {
            const ld tol = 16.0L * static_cast<ld>(EPS) * static_cast<ld>(mag[k]) + 1e-300L;
            if (!(std::fabs(before[k] - after[k]) <= tol))
            {
                auto j = describe(cs);
                j.strs("learners", ids);
                j.kv("list_size_before", static_cast<unsigned long>(size0)).kv("list_size_after", static_cast<unsigned long>(list.size()));
                j.kv("sample", samples_list[k / static_cast<size_t>(cs.st.T)]).kv("sum_before", static_cast<double>(before[k]));
                j.kv("sum_after", static_cast<double>(after[k])).kv("kind", what);
                std::string types;
                std::set<std::string> uniq(ids.begin(), ids.end());
                for (const auto& u : uniq)
                {
                    types += (types.empty() ? "" : "+") + u;
                }
                c.violation("C10|merge-changes-summed-predictions|" + (uniq.size() == 1 ? types : std::string("mixed")), j);
                return;
            }
        }
    }
};

void run_algebra(vf::ctx_t& c, const bool multi_pools)
{
    const auto cs = gen_case(c, multi_pools);
    live_t     lv;
    if (!make_live(c, cs, lv))
    {
        return;
    }
    auto&       rng     = c.rng;
    const auto& st      = cs.st;
    const auto& dataset = *lv.dataset;
    algebra_t   alg{c, cs, lv};

    const std::vector<wlearner_criterion> criteria{wlearner_criterion::rss, wlearner_criterion::aic, wlearner_criterion::aicc,
                                                   wlearner_criterion::bic};
    const std::vector<std::string>        ids{"stump", "hinge", "affine", "dense-table", "kbest-table", "ksplit-table", "dstep-table", "dtree"};

    const auto fit = [&](const std::string& id, wlearner_criterion cr, const indices_t& samples, const tensor4d_t& gradients,
                         int max_depth = -1)
    {
        fit_t f;
        f.id        = id;
        f.criterion = cr;
        f.wl        = wlearner_t::all().get(id);
        f.wl->parameter("wlearner::criterion") = cr;
        if (id == "dtree")
        {
            f.wl->parameter("wlearner::dtree::max_depth") = max_depth > 0 ? max_depth : static_cast<int>(rng.integer(1, 4));
            f.wl->parameter("wlearner::dtree::min_split") = static_cast<int>(rng.integer(1, 10));
        }
        f.score = f.wl->fit(dataset, samples, gradients);
        c.count("fit:" + id);
        c.count("fit-criterion:" + criterion_name(cr));
        if (f.score == wlearner_t::no_fit_score())
        {
            c.count("nofit:" + id);
            f.wl.reset();
        }
        return f;
    };

    // evaluation lists: the fit list, all samples (shuffled), a list with repetitions
    std::vector<std::vector<int>> lists;
    lists.push_back(cs.subset);
    {
        std::vector<int> all(static_cast<size_t>(st.S));
        for (int s = 0; s < st.S; ++s)
        {
            all[static_cast<size_t>(s)] = s;
        }
        for (size_t i = all.size(); i > 1; --i)
        {
            std::swap(all[i - 1], all[static_cast<size_t>(rng.integer(0, static_cast<int64_t>(i) - 1))]);
        }
        lists.push_back(all);
        std::vector<int> rep;
        const auto       n = rng.integer(1, st.S + 3);
        for (int64_t i = 0; i < n; ++i)
        {
            rep.push_back(static_cast<int>(rng.integer(0, st.S - 1)));
        }
        lists.push_back(rep);
    }

    std::vector<fit_t> fits;
    int                missing_checked = 0;
    for (const auto& id : ids)
    {
        auto f = fit(id, rng.pick(criteria), lv.samples, lv.gradients);
        if (!f.wl)
        {
            continue;
        }
        alg.check(f, lists, missing_checked);
        fits.push_back(std::move(f));
    }

    // (g) a tree of depth 1 equals a stump (same criterion, same data)
    {
        const auto cr    = rng.pick(criteria);
        auto       stump = fit("stump", cr, lv.samples, lv.gradients);
        auto       tree  = fit("dtree", cr, lv.samples, lv.gradients, 1);
        c.count("clause:depth1-tree-equals-stump");
        c.count("depth1:" + criterion_name(cr));
        if (static_cast<bool>(stump.wl) != static_cast<bool>(tree.wl))
        {
            c.violation("C10|depth1-tree-differs-from-stump|fit-status",
                        describe(cs).kv("criterion", criterion_name(cr)).kv("stump_score", stump.score).kv("tree_score", tree.score));
        }
        else if (stump.wl)
        {
            c.count("depth1-both-fitted");
            const auto* ps = dynamic_cast<const stump_wlearner_t*>(stump.wl.get());
            const auto* pt = dynamic_cast<const dtree_wlearner_t*>(tree.wl.get());
            auto        j  = describe(cs);
            j.kv("criterion", criterion_name(cr)).kv("stump_score", stump.score).kv("tree_score", tree.score);
            j.kv("stump_feature", static_cast<long long>(ps->feature())).kv("stump_threshold", ps->threshold());
            bool same_params = pt->nodes().size() == 2U && pt->tables().dims() == ps->tables().dims();
            if (same_params)
            {
                j.kv("tree_feature", static_cast<long long>(pt->nodes()[0].m_feature)).kv("tree_threshold", pt->nodes()[0].m_threshold);
            }
            const bool score_equal = std::fabs(stump.score - tree.score) <= 1e-12 * std::max(1.0, std::fabs(stump.score));
            if (!same_params)
            {
                c.violation("C10|depth1-tree-differs-from-stump|structure", j.kv("tree_nodes", static_cast<unsigned long>(pt->nodes().size())));
            }
            else if (!score_equal)
            {
                c.violation("C10|depth1-tree-differs-from-stump|score", j);
            }
            else if (pt->nodes()[0].m_feature != ps->feature() && cs.threads > 1)
            {
                // equal scores on two features: with more than one worker either may win (schedule), both are optimal
                c.count("depth1-tied-features-multithreaded");
            }
            else
            {
                bool equal = pt->nodes()[0].m_feature == ps->feature() && pt->nodes()[1].m_feature == ps->feature() &&
                             pt->nodes()[0].m_threshold == ps->threshold() && pt->nodes()[1].m_threshold == ps->threshold() &&
                             pt->features().size() == 1 && pt->features()(0) == ps->feature();
                for (tensor_size_t i = 0; equal && i < ps->tables().size(); ++i)
                {
                    equal = ps->tables()(i) == pt->tables()(i);
                }
                if (!equal)
                {
                    c.violation("C10|depth1-tree-differs-from-stump|parameters", j);
                }
                for (const auto& list : lists)
                {
                    const auto samples = to_indices(list);
                    const auto A       = predict_zero(*stump.wl, dataset, samples);
                    const auto B       = predict_zero(*tree.wl, dataset, samples);
                    bool       same    = true;
                    for (tensor_size_t i = 0; same && i < A.size(); ++i)
                    {
                        same = A(i) == B(i);
                    }
                    if (!same)
                    {
                        c.violation("C10|depth1-tree-differs-from-stump|predictions", j);
                        break;
                    }
                }
            }
        }
    }

    // (f) merge: lists built from the fitted learners, re-fits on other gradients / sample lists, scaled clones
    int merges_reduced = 0;
    if (!fits.empty())
    {
        // second gradient tensor and sample list (so that the same type lands on other features / labels / thresholds)
        auto g2 = cs.g;
        const bool fresh = rng.chance(0.5);
        for (auto& row : g2)
        {
            for (auto& v : row)
            {
                v = fresh ? cs.gscale * rng.normal() : v + 0.3 * cs.gscale * rng.normal();
            }
        }
        const auto       gradients2 = to_gradients(cs, g2, dataset);
        std::vector<int> subset2;
        for (int s = 0; s < st.S; ++s)
        {
            if (rng.chance(0.7))
            {
                subset2.push_back(s);
            }
        }
        if (subset2.empty())
        {
            subset2 = cs.subset;
        }
        const auto samples2 = to_indices(subset2);

        const auto nlists = rng.integer(2, 4);
        for (int64_t l = 0; l < nlists; ++l)
        {
            rwlearners_t list;
            std::string  what;
            const auto   style = rng.integer(0, 3);
            const auto&  base  = fits[static_cast<size_t>(rng.integer(0, static_cast<int64_t>(fits.size()) - 1))];
            if (style == 0)
            {
                // same type: the learner, a re-fit on other gradients (same list), a re-fit on another list, a scaled clone
                what = "same-type";
                list.push_back(base.wl->clone());
                for (int k = 0; k < 3; ++k)
                {
                    auto f = fit(base.id, base.criterion, k == 1 ? samples2 : lv.samples, k == 2 ? lv.gradients : gradients2);
                    if (f.wl)
                    {
                        list.push_back(std::move(f.wl));
                    }
                }
                auto sc = base.wl->clone();
                nano::vector_t s(1);
                s(0) = rng.uniform(0.1, 2.0);
                sc->scale(s);
                list.push_back(std::move(sc));
            }
            else if (style == 1)
            {
                // the table family on shared features: dense / kbest / ksplit / dstep fits are all table_wlearner_t
                what = "table-family";
                for (const auto& id : {"dstep-table", "kbest-table", "dense-table", "ksplit-table", "dstep-table", "kbest-table"})
                {
                    auto f = fit(id, rng.pick(criteria), rng.chance(0.5) ? samples2 : lv.samples, rng.chance(0.5) ? gradients2 : lv.gradients);
                    if (f.wl)
                    {
                        list.push_back(std::move(f.wl));
                    }
                }
            }
            else
            {
                what = "mixed";
                for (const auto& f : fits)
                {
                    if (rng.chance(0.7))
                    {
                        list.push_back(f.wl->clone());
                    }
                }
                for (const auto& f : fits)
                {
                    if (rng.chance(0.4))
                    {
                        auto r = fit(f.id, f.criterion, samples2, gradients2);
                        if (r.wl)
                        {
                            list.push_back(std::move(r.wl));
                        }
                    }
                }
            }
            if (list.size() < 2U)
            {
                continue;
            }
            for (size_t i = list.size(); i > 1; --i)
            {
                std::swap(list[i - 1], list[static_cast<size_t>(rng.integer(0, static_cast<int64_t>(i) - 1))]);
            }
            const auto before = list.size();
            alg.check_merge(list, lists[1], what);
            merges_reduced += list.size() < before ? 1 : 0;
        }
    }

    if (fits.size() >= 4U && missing_checked > 0)
    {
        c.nontrivial(hash_case(cs));
        if (merges_reduced > 0)
        {
            c.count("nontrivial-with-effective-merge");
        }
    }
    c.count("pool-size:" + std::to_string(cs.threads));
    if (c.want_sample())
    {
        auto j = describe(cs);
        std::vector<std::string> names;
        for (const auto& f : fits)
        {
            names.push_back(f.id + "/" + criterion_name(f.criterion));
        }
        j.strs("fitted", names);
        c.sample(j);
    }
}
} // namespace

int main(int argc, char** argv)
{
    const auto args  = vf::parse_args(argc, argv);
    const bool multi = args.get("pools") == "multi";
    if (args.get("grid") == "fine")
    {
        g_grid = {0.001, 0.002, 0.005, 0.01, 0.05, 0.25};
    }
    if (args.mode == "algebra")
    {
        return vf::run(args, "C10",
                       "case = one random dataset (2..60 samples, 1..8 scalar/sclass/mclass features with missing values, ties, "
                       "constants; 1..3 outputs; dataset pool 1..16) + gradient tensor + sample list (subset / with repetitions); all 8 "
                       "weak learners fitted with a random criterion of the 4 and judged on 3 sample lists (added, zero-if-missing, "
                       "sample-only, table-of-split-group, scale per group), depth-1 tree vs stump, 2..4 merge lists; non-trivial: >= 4 "
                       "learners fitted and >= 1 prediction checked for a sample whose selected feature is missing; distinct by "
                       "hash(store, gradients, sample list)",
                       [&](vf::ctx_t& c) { run_algebra(c, multi); });
    }
    return vf::run(args, "C10",
                   "case = one random dataset (as in mode algebra; scalar values on a grid with |x| <= 10 and distinct values >= 5e-3*max|x| "
                   "apart) + gradient tensor + sample list; stump, hinge, affine, dense-table, dstep-table fitted with the RSS criterion "
                   "and compared with the brute-force minimum RSS and with the RSS of their predictions; non-trivial: some winner is not "
                   "the first feature of its kind and the winning scalar feature has >= 3 distinct thresholds (categorical-only datasets: "
                   "winning table has >= 2 entries); winners with missing values counted separately; distinct by hash(store, gradients, "
                   "sample list)",
                   [&](vf::ctx_t& c) { run_optimal(c, multi); });
}
