"""Configuration of the checks: one JSON file per property under checks.d/ (stages = harness binary, mode,
sanitizer flavour, case counts per tier; plus the texts that go into MANIFEST.json)."""
import json
import os

CHECKS = {}
_d = os.path.join(os.path.dirname(os.path.abspath(__file__)), "checks.d")
for _f in sorted(os.listdir(_d)):
    if _f.endswith(".json"):
        CHECKS[_f[:-5]] = json.load(open(os.path.join(_d, _f)))
