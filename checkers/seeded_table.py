#!/usr/bin/env python3
"""Print the markdown table of the seeded changes under /verif/seeded (for DESIGN.md section 8)."""
import glob, json, os
rows = []
for d in sorted(glob.glob("/verif/seeded/*/")):
    m = json.load(open(os.path.join(d, "meta.json")))
    v = m.get("verification", {})
    name = os.path.basename(d.rstrip("/"))
    checks = v.get("checks", {})
    caught = "; ".join("%s: %s" % (p, ("exit 1 — " + ", ".join("`%s`" % k.replace("|", "\\|") for k in c["keys"][:2])) if c["exit"] == 1 else "**missed (exit %d)**" % c["exit"]) for p, c in checks.items())
    rows.append("| `%s` | %s | %s | %s | %s | %s |" % (name, m.get("property", "?"), m.get("summary", "").replace("|", "\\|")[:230], m.get("needs_to_manifest", "").replace("|", "\\|")[:260],
                "yes" if v.get("confirmed") else "NO", caught))
print("| seeded change | property | what was changed | what it needs to manifest | confirmed (tests pass, demo fails) | registered check, quick tier |")
print("|---|---|---|---|---|---|")
print("\n".join(rows))
