#!/bin/bash
# Rebuild /repo/_build WITHOUT the NANO_VERIF guard and run the repository's own test suite.
# Exit 0 iff every test of the stable baseline (72 tests, /root/.vp/BASELINE.json) passes; the two tests
# BASELINE.json lists as flaky (test_program_linear, test_program_quadratic) are run and reported, not judged.
set -u
REPO=${VERIF_REPO:-/repo}
B=$REPO/_build
if [ ! -f "$B/build.ninja" ]; then
    cmake -G Ninja -S "$REPO" -B "$B" -DCMAKE_BUILD_TYPE=RelWithDebInfo -DCMAKE_CXX_FLAGS=-Wno-error > "$B.configure.log" 2>&1 || { cat "$B.configure.log"; exit 2; }
fi
if grep -q "NANO_VERIF" "$B/CMakeCache.txt"; then echo "guard unexpectedly ON in $B"; exit 2; fi
cmake --build "$B" -j "$(nproc)" > "$B.build.log" 2>&1 || { tail -n 40 "$B.build.log"; exit 2; }
out=$(ctest --test-dir "$B" -j8 --timeout 900 2>&1)
echo "$out" | tail -n 15
failed=$(echo "$out" | grep -E "^\s*[0-9]+ - test_" | grep -vE "test_program_linear|test_program_quadratic" || true)
# test_solver_bundle draws its starting points from std::random_device and fails in ~0.5% of its runs on the ORIGINAL tree
# already (7 of 1500 runs at the pinned commit, 12 of 1500 with all fixes; measured, see DESIGN.md 8.1): a failed stable
# test is re-run up to two more times before it counts.
for attempt in 1 2; do
    [ -z "$failed" ] && break
    names=$(echo "$failed" | sed -E 's/^\s*[0-9]+ - (test_[a-z_0-9]+).*/\1/' | sort -u | paste -sd'|')
    echo "re-running after a failure: $names (attempt $attempt)"
    out=$(ctest --test-dir "$B" -j4 --timeout 900 -R "^($names)\$" 2>&1)
    failed=$(echo "$out" | grep -E "^\s*[0-9]+ - test_" || true)
done
if [ -n "$failed" ]; then echo "BASELINE FAILURES (guard off):"; echo "$failed"; exit 1; fi
echo "baseline (guard off): all stable tests passed"
exit 0
