// C13 - tuning evaluates grid points once and reports the true best trial.
//
// mode "tuner"  : tuner_t::optimize (local-search | surrogate) on 1..3 grids of 2..31 values with an adversarial
//                 landscape; the evaluation callback IS the monitor (grid-only, no-repeat, evaluation cap), the returned
//                 steps are compared with the callback's own log (complete, sorted, first = minimum observed); a second
//                 run injects one non-finite value at a random evaluation and expects an exception.
// mode "mltune" : ml::tune with a monitoring model callback under internal pools of 1, 2, 16 threads (NANO_VERIF hook
//                 pool_max_size) and injected delays (callback-level and at the unlocked schedule points of the pool);
//                 per-thread call logs (no mutex, no synchronising atomics: the same monitor is used under TSan), judged
//                 after ml::tune returned: every call carries exactly one fold's (train, valid) indices of the splitter,
//                 each (trial, fold) exactly once, stored statistics / extra = those of what the callback returned for
//                 that pair (values derive from a hash of (parameters, fold)), optimum = an arg-min of the mean
//                 validation error recomputed by the harness.
#include "common/vf.h"
#include <algorithm>
#include <any>
#include <atomic>
#include <chrono>
#include <nano/core/parallel.h>
#include <nano/core/random.h>
#include <nano/machine/tune.h>
#include <nano/tuner.h>
#include <set>
#include <thread>

using namespace nano;

namespace
{
constexpr auto RLX = std::memory_order_relaxed;

bool same_bits(const double a, const double b)
{
    return std::memcmp(&a, &b, sizeof(double)) == 0;
}

uint64_t bits_of(const double v)
{
    uint64_t b = 0;
    std::memcpy(&b, &v, sizeof(b));
    return b;
}

double unit(const uint64_t h)
{
    return static_cast<double>(h >> 11U) * (1.0 / 9007199254740992.0);
}

// ------------------------------------------------------------------------------------------------------------------
// grids

struct grid_t
{
    bool                log10{false};
    int                 style{0};
    std::vector<double> v;
};

grid_t make_grid(vf::rng_t& rng, const int max_m)
{
    grid_t g;
    int    m = 0;
    if (rng.chance(0.12))
    {
        m = 2;
    }
    else if (rng.chance(0.12))
    {
        m = max_m;
    }
    else if (rng.chance(0.06))
    {
        m = 3;
    }
    else
    {
        m = static_cast<int>(rng.integer(2, max_m));
    }
    g.log10 = rng.chance(0.5);
    g.style = static_cast<int>(rng.integer(0, 3));
    g.v.resize(static_cast<size_t>(m));
    if (!g.log10)
    {
        switch (g.style)
        {
        case 0: // evenly spaced, possibly with a large offset
        {
            const double starts[] = {0.0, rng.uniform(-10.0, 10.0), 1e6, -1e6};
            const double start    = starts[rng.integer(0, 3)];
            const double step     = rng.loguniform(1e-3, 1e3);
            for (int j = 0; j < m; ++j)
            {
                g.v[static_cast<size_t>(j)] = start + j * step;
            }
            break;
        }
        case 1: // random increments
        {
            double cur = rng.uniform(-3.0, 3.0);
            for (int j = 0; j < m; ++j)
            {
                cur += 0.01 + rng.u01();
                g.v[static_cast<size_t>(j)] = cur;
            }
            break;
        }
        case 2: // integers around zero (negative values, exact zero)
            for (int j = 0; j < m; ++j)
            {
                g.v[static_cast<size_t>(j)] = static_cast<double>(j - m / 2);
            }
            break;
        default: // clusters: neighbours one ulp apart
        {
            double cur = rng.uniform(-1.0, 1.0);
            for (int j = 0; j < m; ++j)
            {
                g.v[static_cast<size_t>(j)] = cur;
                cur = rng.chance(0.3) ? std::nextafter(cur, 1e300) : cur + rng.loguniform(1e-9, 1.0);
            }
            break;
        }
        }
    }
    else
    {
        switch (g.style)
        {
        case 0: // powers of ten
        {
            const auto e0 = rng.integer(-12, 3);
            for (int j = 0; j < m; ++j)
            {
                g.v[static_cast<size_t>(j)] = std::pow(10.0, static_cast<double>(e0 + j));
            }
            break;
        }
        case 1: // random factors
        {
            double cur = rng.loguniform(1e-9, 1.0);
            for (int j = 0; j < m; ++j)
            {
                g.v[static_cast<size_t>(j)] = cur;
                cur *= rng.uniform(1.1, 10.0);
            }
            break;
        }
        case 2: // powers of two
        {
            const auto e0 = static_cast<int>(rng.integer(0, m));
            for (int j = 0; j < m; ++j)
            {
                g.v[static_cast<size_t>(j)] = std::ldexp(1.0, j - e0);
            }
            break;
        }
        default: // clusters
        {
            double cur = rng.loguniform(1e-6, 1.0);
            for (int j = 0; j < m; ++j)
            {
                g.v[static_cast<size_t>(j)] = cur;
                cur = rng.chance(0.3) ? std::nextafter(cur, 1e300) : cur * rng.loguniform(1.0001, 100.0);
            }
            break;
        }
        }
    }
    for (size_t j = 1; j < g.v.size(); ++j)
    {
        if (!(g.v[j] > g.v[j - 1]))
        {
            g.v[j] = std::nextafter(g.v[j - 1], 1e300);
        }
    }
    return g;
}

param_spaces_t make_spaces(const std::vector<grid_t>& grids)
{
    param_spaces_t spaces;
    for (size_t i = 0; i < grids.size(); ++i)
    {
        const auto& g = grids[i];
        tensor1d_t  values(static_cast<tensor_size_t>(g.v.size()));
        for (size_t j = 0; j < g.v.size(); ++j)
        {
            values(static_cast<tensor_size_t>(j)) = g.v[j];
        }
        spaces.emplace_back("p" + std::to_string(i), g.log10 ? param_space_t::type::log10 : param_space_t::type::linear,
                            std::move(values));
    }
    return spaces;
}

// index of the grid value that equals x bit-for-bit, -1 if none
int grid_index(const grid_t& g, const double x)
{
    for (size_t j = 0; j < g.v.size(); ++j)
    {
        if (same_bits(g.v[j], x))
        {
            return static_cast<int>(j);
        }
    }
    return -1;
}

// position of a value in [0, 1] along its axis (linear or log10), from the value itself
double axis_position(const grid_t& g, const double x)
{
    const double lo = g.log10 ? std::log10(g.v.front()) : g.v.front();
    const double hi = g.log10 ? std::log10(g.v.back()) : g.v.back();
    const double t  = g.log10 ? std::log10(x) : x;
    const double u  = (t - lo) / (hi - lo);
    return std::isfinite(u) ? std::min(1.0, std::max(0.0, u)) : 0.0;
}

uint64_t hash_grids(const std::vector<grid_t>& grids, uint64_t h)
{
    for (const auto& g : grids)
    {
        h = vf::mix(h, g.log10 ? 2U : 1U);
        h = vf::hash_bytes(g.v.data(), g.v.size() * sizeof(double), h);
    }
    return h;
}

std::string describe_grids(const std::vector<grid_t>& grids)
{
    std::string s = "[";
    for (size_t i = 0; i < grids.size(); ++i)
    {
        const auto& g = grids[i];
        s += (i ? "," : "");
        s += vf::json_t().kv("type", g.log10 ? "log10" : "linear").kv("style", g.style).arr("values", g.v.data(), g.v.size(), 31).str();
    }
    return s + "]";
}

// ------------------------------------------------------------------------------------------------------------------
// landscapes over grid indices (always finite)

struct landscape_t
{
    int                 kind{0};
    std::vector<double> c, w;
    std::vector<int>    sgn, needle;
    int                 levels{2};
    uint64_t            salt{0};
    double              scale{1.0}, offset{0.0};

    static const char* name(const int kind)
    {
        static const char* names[] = {"bowl",   "plateaus", "constant", "corner", "needle",     "hash",
                                      "hash-q", "abs",      "coupled",  "hill",   "value-bowl", "ridge"};
        return names[kind];
    }

    double raw(const std::vector<int>& idx, const std::vector<grid_t>& grids) const
    {
        const auto          d = idx.size();
        std::vector<double> u(d);
        for (size_t k = 0; k < d; ++k)
        {
            u[k] = static_cast<double>(idx[k]) / static_cast<double>(grids[k].v.size() - 1);
        }
        double v = 0.0;
        switch (kind)
        {
        case 0:
            for (size_t k = 0; k < d; ++k)
            {
                v += w[k] * (u[k] - c[k]) * (u[k] - c[k]);
            }
            return v;
        case 1:
            for (size_t k = 0; k < d; ++k)
            {
                v += std::floor(static_cast<double>(levels) * std::fabs(u[k] - c[k]));
            }
            return v;
        case 2: return c[0];
        case 3:
            for (size_t k = 0; k < d; ++k)
            {
                v += static_cast<double>(sgn[k]) * u[k];
            }
            return v;
        case 4: return idx == needle ? -1.0 : 0.0;
        case 5:
        case 6:
        {
            uint64_t h = salt;
            for (const auto i : idx)
            {
                h = vf::mix(h, static_cast<uint64_t>(i) + 1U);
            }
            return kind == 5 ? unit(h) : static_cast<double>(h % static_cast<uint64_t>(levels));
        }
        case 7:
            for (size_t k = 0; k < d; ++k)
            {
                v += std::fabs(u[k] - c[k]);
            }
            return v;
        case 8:
            v = (u[0] - c[0]) * (u[0] - c[0]);
            for (size_t k = 1; k < d; ++k)
            {
                const double t = u[k] - u[k - 1] * u[k - 1];
                v += 5.0 * t * t;
            }
            return v;
        case 9:
            for (size_t k = 0; k < d; ++k)
            {
                v -= (u[k] - 0.5) * (u[k] - 0.5);
            }
            return v;
        case 10:
            for (size_t k = 0; k < d; ++k)
            {
                const double t = axis_position(grids[k], grids[k].v[static_cast<size_t>(idx[k])]) - c[k];
                v += t * t;
            }
            return v;
        default:
            if (d < 2)
            {
                return std::fabs(u[0] - c[0]);
            }
            v = 0.01 * u[0];
            for (size_t k = 1; k < d; ++k)
            {
                v += std::fabs(u[k] - u[k - 1]);
            }
            return v;
        }
    }

    double operator()(const std::vector<int>& idx, const std::vector<grid_t>& grids) const
    {
        const double v = offset + scale * raw(idx, grids);
        return std::isfinite(v) ? v : 0.0;
    }
};

landscape_t make_landscape(vf::rng_t& rng, const std::vector<grid_t>& grids)
{
    landscape_t l;
    const auto  d = grids.size();
    l.kind        = static_cast<int>(rng.integer(0, 11));
    l.levels      = static_cast<int>(rng.integer(2, 8));
    l.salt        = rng.next();
    for (size_t k = 0; k < d; ++k)
    {
        const auto m = static_cast<int>(grids[k].v.size());
        // centres: inside, exactly on a grid point, or outside the box (minimum at a corner)
        const auto how = rng.integer(0, 3);
        l.c.push_back(how == 0   ? rng.uniform(0.0, 1.0)
                      : how == 1 ? static_cast<double>(rng.integer(0, m - 1)) / static_cast<double>(m - 1)
                      : how == 2 ? rng.uniform(-0.3, 1.3)
                                 : (rng.chance(0.5) ? 0.0 : 1.0));
        l.w.push_back(rng.loguniform(0.01, 100.0));
        l.sgn.push_back(rng.chance(0.5) ? 1 : -1);
        // needle: close to the starting point (found) or anywhere (usually missed)
        const auto centre = m / 2;
        l.needle.push_back(rng.chance(0.5) ? static_cast<int>(std::min<int64_t>(m - 1, std::max<int64_t>(0, centre + rng.integer(-2, 2))))
                                           : static_cast<int>(rng.integer(0, m - 1)));
    }
    const auto s = rng.integer(0, 19);
    l.scale      = s < 8 ? 1.0 : s < 15 ? rng.loguniform(1e-6, 1e6) : s < 17 ? -1.0 : s == 17 ? 1e150 : s == 18 ? 1e-300 : -rng.loguniform(1e-3, 1e3);
    const auto o = rng.integer(0, 9);
    l.offset     = o < 5 ? 0.0 : o < 9 ? rng.uniform(-1e3, 1e3) : 1e9;
    return l;
}

int64_t pick_max_evals(vf::rng_t& rng, const int64_t hi)
{
    if (rng.chance(0.1))
    {
        return 10;
    }
    if (rng.chance(0.1))
    {
        return hi;
    }
    return static_cast<int64_t>(std::floor(rng.loguniform(10.0, static_cast<double>(hi) + 0.999)));
}

bool is_surrogate_fit_failure(const std::string& what)
{
    return what.find("tuner: failed to fit the surrogate model") != std::string::npos ||
           what.find("tuner: failed to optimize the surrogate model") != std::string::npos;
}

// ------------------------------------------------------------------------------------------------------------------
// mode "tuner"

struct tuner_monitor_t
{
    const std::vector<grid_t>& grids;
    const landscape_t&         land;
    int64_t                    inject_at{-1}; ///< 1-based evaluation to answer with a non-finite value
    double                     inject_value{0.0};

    std::map<std::vector<int>, double>               seen;
    std::vector<std::pair<std::vector<int>, double>> trace;
    int64_t                                          callbacks{0}, evals{0}, batch_max{0};
    bool                                             injected{false};
    double                                           minv{std::numeric_limits<double>::infinity()};

    bool       bad_shape{false}, offgrid{false}, repeated{false};
    vf::json_t w_shape, w_offgrid, w_repeated;

    tensor1d_t operator()(const tensor2d_t& params)
    {
        ++callbacks;
        const auto rows = params.size<0>();
        const auto cols = params.size<1>();
        batch_max       = std::max<int64_t>(batch_max, rows);
        tensor1d_t values(rows);
        if (cols != static_cast<tensor_size_t>(grids.size()))
        {
            if (!bad_shape)
            {
                bad_shape = true;
                w_shape.kv("rows", static_cast<long long>(rows)).kv("cols", static_cast<long long>(cols));
            }
            for (tensor_size_t r = 0; r < rows; ++r)
            {
                values(r) = 0.0;
            }
            return values;
        }
        for (tensor_size_t r = 0; r < rows; ++r)
        {
            ++evals;
            std::vector<int> idx(grids.size());
            bool             on_grid = true;
            for (size_t k = 0; k < grids.size(); ++k)
            {
                const double x = params(r, static_cast<tensor_size_t>(k));
                idx[k]         = grid_index(grids[k], x);
                if (idx[k] < 0)
                {
                    on_grid = false;
                    if (!offgrid)
                    {
                        offgrid = true;
                        w_offgrid.kv("evaluation", static_cast<long long>(evals)).kv("column", static_cast<long long>(k)).kv("value", x);
                    }
                }
            }
            double value = 0.0;
            if (on_grid)
            {
                value         = land(idx, grids);
                const auto it = seen.find(idx);
                if (it != seen.end())
                {
                    if (!repeated)
                    {
                        repeated = true;
                        w_repeated.kv("evaluation", static_cast<long long>(evals)).arr("grid_index", idx.data(), idx.size());
                    }
                }
                else
                {
                    seen.emplace(idx, value);
                }
            }
            if (evals == inject_at)
            {
                value    = inject_value;
                injected = true;
            }
            else
            {
                minv = std::min(minv, value);
            }
            trace.emplace_back(idx, value);
            values(r) = value;
        }
        return values;
    }
};

void tuner_case(vf::ctx_t& c)
{
    auto&      rng      = c.rng;
    const bool thorough = c.args.thorough();
    nano::verif::rng_seed().store(c.seed | 1U);

    const auto r = rng.integer(0, 99);
    int        d = r < 30 ? 1 : r < 70 ? 2 : 3;
    if (thorough && rng.chance(0.03))
    {
        d = 4;
    }
    std::vector<grid_t> grids;
    for (int i = 0; i < d; ++i)
    {
        grids.push_back(make_grid(rng, d == 4 ? 9 : 31));
    }
    const auto        spaces    = make_spaces(grids);
    const std::string id        = rng.chance(0.5) ? "local-search" : "surrogate";
    const auto        max_evals = pick_max_evals(rng, (id == "surrogate" && !thorough) ? 300 : 1000);
    const auto        land      = make_landscape(rng, grids);
    const auto        inj_u     = rng.u01();
    const auto        inj_kind  = rng.integer(0, 2);

    auto tuner = tuner_t::all().get(id);
    if (!tuner)
    {
        c.violation("C13|factory|" + id, vf::json_t().kv("what", "tuner id not registered"));
        return;
    }
    tuner->parameter("tuner::max_evals") = max_evals;

    int64_t cap = max_evals, p3 = 1;
    for (int i = 0; i < d; ++i)
    {
        p3 *= 3;
    }
    cap += p3;

    const auto witness = [&](const tuner_monitor_t& m)
    {
        vf::json_t j;
        j.kv("tuner", id).kv("max_evals", static_cast<long long>(max_evals)).kv("d", d);
        j.raw("grids", describe_grids(grids));
        j.kv("landscape", landscape_t::name(land.kind)).kv("scale", land.scale).kv("offset", land.offset);
        j.kv("callbacks", static_cast<long long>(m.callbacks)).kv("evaluations", static_cast<long long>(m.evals));
        return j;
    };

    // the clauses decided by the callback alone (they hold or not whatever optimize does afterwards)
    const auto judge_trace = [&](const tuner_monitor_t& m)
    {
        c.count("grid_point_checks", m.evals);
        c.count("no_repeat_checks", m.evals);
        c.count("eval_cap_checks");
        if (m.bad_shape)
        {
            c.violation("C13|callback-shape|" + id, witness(m).kv("shape", m.w_shape));
        }
        if (m.offgrid)
        {
            c.violation("C13|off-grid|" + id, witness(m).kv("first", m.w_offgrid));
        }
        if (m.repeated)
        {
            c.violation("C13|repeated-point|" + id, witness(m).kv("first", m.w_repeated));
        }
        if (m.evals > cap)
        {
            c.violation("C13|too-many-evals|" + id, witness(m).kv("allowed", static_cast<long long>(cap)));
        }
    };

    // run 1: finite landscape
    tuner_monitor_t mon{grids, land};
    tuner_steps_t   steps;
    bool            returned = false;
    std::string     what;
    try
    {
        steps    = tuner->optimize(spaces, [&](const tensor2d_t& p) { return mon(p); }, make_null_logger());
        returned = true;
    }
    catch (const std::exception& e)
    {
        what = e.what();
    }
    judge_trace(mon);
    c.count(std::string("runs:") + id);
    c.count(std::string("landscape:") + landscape_t::name(land.kind));
    c.maxc("evaluations_per_run", mon.evals);
    c.maxc("batch_size", mon.batch_max);
    if (mon.evals > max_evals)
    {
        c.count("runs_beyond_max_evals"); // inside the 3^d allowance of the cap clause
    }

    if (!returned)
    {
        if (id == "surrogate" && is_surrogate_fit_failure(what))
        {
            // FA trap of the design: the inner L-BFGS fit of the surrogate may fail; the statement does not cover it
            c.inconclusive("surrogate-fit-failed");
        }
        else
        {
            c.violation("C13|unexpected-throw|" + id, witness(mon).kv("what", what.substr(0, 300)));
        }
    }
    else
    {
        // returned steps = all evaluations (each exactly once, with the value the callback gave) ...
        c.count("steps_complete_checks");
        bool       complete = static_cast<int64_t>(steps.size()) == mon.evals && !mon.offgrid && !mon.bad_shape;
        vf::json_t why;
        if (!complete)
        {
            why.kv("steps", static_cast<long long>(steps.size()));
        }
        std::set<std::vector<int>> got;
        bool                       igrid_ok = true;
        for (size_t s = 0; s < steps.size() && complete; ++s)
        {
            const auto& step = steps[s];
            if (step.m_param.size() != static_cast<tensor_size_t>(d))
            {
                complete = false;
                why.kv("step", static_cast<long long>(s)).kv("param_size", static_cast<long long>(step.m_param.size()));
                break;
            }
            std::vector<int> idx(static_cast<size_t>(d));
            for (int k = 0; k < d; ++k)
            {
                idx[static_cast<size_t>(k)] = grid_index(grids[static_cast<size_t>(k)], step.m_param(k));
            }
            const auto it = mon.seen.find(idx);
            if (it == mon.seen.end() || !same_bits(it->second, step.m_value) || !got.insert(idx).second)
            {
                complete = false;
                why.kv("step", static_cast<long long>(s)).kv("value", step.m_value).arr("grid_index", idx.data(), idx.size());
                if (it != mon.seen.end())
                {
                    why.kv("callback_value", it->second);
                }
                break;
            }
            if (step.m_igrid.size() != static_cast<tensor_size_t>(d))
            {
                igrid_ok = false;
            }
            for (int k = 0; k < d && igrid_ok; ++k)
            {
                igrid_ok = step.m_igrid(k) == idx[static_cast<size_t>(k)];
            }
        }
        if (!complete && !mon.repeated)
        {
            c.violation("C13|steps-incomplete|" + id, witness(mon).kv("why", why));
        }
        c.count("steps_igrid_checks");
        if (!igrid_ok)
        {
            c.violation("C13|steps-igrid|" + id, witness(mon));
        }
        // ... sorted by value ...
        c.count("steps_sorted_checks");
        for (size_t s = 1; s < steps.size(); ++s)
        {
            if (!(steps[s - 1].m_value <= steps[s].m_value))
            {
                c.violation("C13|steps-unsorted|" + id, witness(mon)
                                                             .kv("position", static_cast<long long>(s))
                                                             .kv("previous", steps[s - 1].m_value)
                                                             .kv("value", steps[s].m_value));
                break;
            }
        }
        // ... the first being the minimum observed
        c.count("first_is_minimum_checks");
        if (steps.empty() || !(steps.front().m_value == mon.minv))
        {
            c.violation("C13|first-not-minimum|" + id,
                        witness(mon).kv("first", steps.empty() ? std::nan("") : steps.front().m_value).kv("minimum_observed", mon.minv));
        }
    }

    // run 2: the same landscape answers one evaluation with NaN / +inf / -inf => optimize must throw
    if (mon.evals > 0 && !mon.bad_shape)
    {
        const auto      at = 1 + static_cast<int64_t>(std::floor(inj_u * static_cast<double>(mon.evals)));
        tuner_monitor_t mon2{grids, land};
        mon2.inject_at    = std::min(at, mon.evals);
        mon2.inject_value = inj_kind == 0   ? std::numeric_limits<double>::quiet_NaN()
                            : inj_kind == 1 ? std::numeric_limits<double>::infinity()
                                            : -std::numeric_limits<double>::infinity();
        bool threw        = false;
        try
        {
            const auto ignored = tuner->optimize(spaces, [&](const tensor2d_t& p) { return mon2(p); }, make_null_logger());
            static_cast<void>(ignored);
        }
        catch (const std::exception&)
        {
            threw = true;
        }
        judge_trace(mon2);
        if (mon2.injected)
        {
            c.count("nonfinite_rejected_checks");
            c.count(inj_kind == 0 ? "nonfinite:nan" : inj_kind == 1 ? "nonfinite:+inf" : "nonfinite:-inf");
            if (!threw)
            {
                c.violation("C13|nonfinite-accepted|" + id, witness(mon2)
                                                                .kv("injected_at_evaluation", static_cast<long long>(mon2.inject_at))
                                                                .kv("injected", mon2.inject_value));
            }
        }
        else if (returned)
        {
            // the same deterministic run must reach the same evaluation again
            c.count("nonfinite_not_reached");
        }
    }

    // non-trivial: the tuner went beyond the initial point (>= 2 callbacks, >= 4 evaluations) and returned
    uint64_t h = vf::mix(vf::hash_str(id.c_str()), static_cast<uint64_t>(max_evals));
    h          = hash_grids(grids, h);
    for (const auto& [idx, value] : mon.trace)
    {
        h = vf::hash_bytes(idx.data(), idx.size() * sizeof(int), h);
        h = vf::hash_double(value, h);
    }
    if (returned && mon.callbacks >= 2 && mon.evals >= 4)
    {
        c.nontrivial(h);
    }
    if (c.want_sample())
    {
        auto j = witness(mon);
        j.kv("returned", returned).kv("steps", static_cast<long long>(steps.size())).kv("minimum_observed", mon.minv);
        std::string t = "[";
        for (size_t i = 0; i < mon.trace.size() && i < 12; ++i)
        {
            t += (i ? "," : "");
            t += vf::json_t().arr("grid_index", mon.trace[i].first.data(), mon.trace[i].first.size()).kv("value", mon.trace[i].second).str();
        }
        j.raw("first_evaluations", t + "]");
        c.sample(j);
    }
}

// ------------------------------------------------------------------------------------------------------------------
// mode "mltune": per-thread call logs and delay injection (no mutex, relaxed atomics only: see DESIGN 2.4)

struct call_t
{
    std::vector<double> params;
    int                 group{-1}; ///< smallest fold with exactly these (train, valid) indices, -1: no such fold
    int64_t             train_size{0}, valid_size{0};
    int64_t             t_begin{0}, t_end{0};
    int                 slot{0};
};

struct slot_t
{
    std::vector<call_t> calls;
    uint64_t            rng{0};
    int64_t             delays{0};
};

constexpr int         max_slots = 128;
slot_t                g_slots[max_slots];
std::atomic<int>      g_nslots{0};
std::atomic<int>      g_epoch{1};
std::atomic<int>      g_delay_mode{0};
std::atomic<uint64_t> g_case_seed{0};

thread_local int     t_epoch = 0;
thread_local int     t_slot  = -1;
thread_local slot_t* t_log   = nullptr;

slot_t& my_slot()
{
    const int epoch = g_epoch.load(RLX);
    if (t_epoch != epoch)
    {
        t_epoch = epoch;
        t_slot  = g_nslots.fetch_add(1, RLX);
        if (t_slot >= max_slots)
        {
            std::fprintf(stderr, "harness: too many threads\n");
            _exit(3);
        }
        t_log      = &g_slots[t_slot];
        t_log->rng = vf::mix(g_case_seed.load(RLX), static_cast<uint64_t>(t_slot) + 17U);
    }
    return *t_log;
}

int64_t now_ns()
{
    return std::chrono::duration_cast<std::chrono::nanoseconds>(std::chrono::steady_clock::now().time_since_epoch()).count();
}

void pool_hook(const int point, const void*)
{
    using namespace nano::verif;
    const int mode = g_delay_mode.load(RLX);
    if (mode == 0)
    {
        return;
    }
    // never inside the queue mutex: a delay there adds no interleavings
    if (point == enqueue_pushed || point == map_pushed || point == worker_woke || point == worker_popped ||
        point == worker_saw_stop || point == dtor_stop_set)
    {
        return;
    }
    auto&          l = my_slot();
    const uint64_t r = vf::splitmix64(l.rng);
    if ((r & 3U) >= static_cast<uint64_t>(mode))
    {
        return;
    }
    ++l.delays;
    if (((r >> 2U) & 3U) == 0U)
    {
        std::this_thread::yield();
    }
    else
    {
        std::this_thread::sleep_for(std::chrono::microseconds((r >> 8U) % (mode == 1 ? 40U : 200U)));
    }
}

struct valspec_t
{
    uint64_t salt{0};
    bool     structured{false}; ///< validation error follows a bowl over the parameters, training error its mirror image
    double   amp{1.0};          ///< amplitude of the per-sample part
    int      err_levels{0};     ///< 0: continuous, n: quantised to multiples of 1/n
    int      loss_levels{0};
    double   scale{1.0}, offset{0.0};
    bool     arbitrary_len{false}; ///< tensor lengths unrelated to the number of indices
    std::vector<double> centre;
};

uint64_t pair_hash(const valspec_t& vs, const std::vector<double>& params, const int group)
{
    uint64_t h = vf::mix(vs.salt, static_cast<uint64_t>(group) + 1U);
    for (const auto x : params)
    {
        h = vf::mix(h, bits_of(x));
    }
    return h;
}

// per-sample values the model callback returns for (parameters, fold group, split, value type)
std::vector<double> gen_values(const valspec_t& vs, const std::vector<grid_t>& grids, const std::vector<double>& params,
                               const int group, const int split, const int type, const int64_t indices)
{
    const auto h    = vf::mix(pair_hash(vs, params, group), static_cast<uint64_t>(split * 2 + type) + 101U);
    size_t     size = static_cast<size_t>(indices);
    if (vs.arbitrary_len)
    {
        size = 1U + static_cast<size_t>(vf::mix(h, 7U) % 64U);
    }
    double base = 0.0;
    if (vs.structured)
    {
        for (size_t k = 0; k < params.size() && k < grids.size(); ++k)
        {
            const double t = axis_position(grids[k], params[k]) - vs.centre[k];
            base += t * t;
        }
        base = (split == 1) ? base : (1.0 - base);
    }
    const int           levels = type == 0 ? vs.err_levels : vs.loss_levels;
    const double        amp    = vs.amp * (type == 0 ? 1.0 : 10.0);
    std::vector<double> values(size);
    for (size_t i = 0; i < size; ++i)
    {
        double r = unit(vf::mix(h, static_cast<uint64_t>(i) + 1000U));
        if (levels > 0)
        {
            r = std::floor(r * static_cast<double>(levels + 1)) / static_cast<double>(levels);
        }
        const double v = vs.offset + vs.scale * (base + amp * r);
        values[i]      = std::isfinite(v) ? v : 0.0;
    }
    return values;
}

double ref_percentile(const std::vector<double>& sorted, const double p)
{
    const auto   n   = static_cast<double>(sorted.size());
    const double pos = p * (n - 1.0) / 100.0;
    const auto   lo  = static_cast<size_t>(std::floor(pos));
    const auto   hi  = static_cast<size_t>(std::ceil(pos));
    return lo == hi ? sorted[lo] : (sorted[lo] + sorted[hi]) / 2;
}

long double ref_mean(const std::vector<double>& values)
{
    long double sum = 0;
    for (const auto v : values)
    {
        sum += v;
    }
    return sum / static_cast<long double>(values.size());
}

void mltune_case(vf::ctx_t& c)
{
    auto&      rng      = c.rng;
    const bool thorough = c.args.thorough();
    nano::verif::rng_seed().store(c.seed | 1U);

    // samples, splitter
    const auto folds = static_cast<int>(rng.chance(0.15) ? (rng.chance(0.5) ? 2 : 10) : rng.integer(2, 10));
    const auto n     = static_cast<tensor_size_t>(rng.chance(0.15) ? rng.integer(12, 30) : rng.integer(20, 220));
    std::set<tensor_size_t> uniq;
    while (static_cast<tensor_size_t>(uniq.size()) < n)
    {
        uniq.insert(static_cast<tensor_size_t>(rng.integer(0, 9999)));
    }
    indices_t samples(n);
    {
        std::vector<tensor_size_t> order(uniq.begin(), uniq.end());
        if (rng.chance(0.5))
        {
            for (size_t i = order.size(); i > 1; --i)
            {
                std::swap(order[i - 1], order[static_cast<size_t>(rng.integer(0, static_cast<int64_t>(i) - 1))]);
            }
        }
        for (tensor_size_t i = 0; i < n; ++i)
        {
            samples(i) = order[static_cast<size_t>(i)];
        }
    }
    const std::string splitter_id = rng.chance(0.5) ? "k-fold" : "random";
    auto              splitter    = splitter_t::all().get(splitter_id);
    const auto        split_seed  = rng.integer(0, 1024);
    splitter->parameter("splitter::folds") = folds;
    splitter->parameter("splitter::seed")  = split_seed;
    if (splitter_id == "random")
    {
        splitter->parameter("splitter::random::train_per") = rng.integer(10, 90);
    }

    // hyper-parameter grids, tuner
    const auto          rd = rng.integer(0, 99);
    const int           d  = rd < 10 ? 0 : rd < 45 ? 1 : rd < 80 ? 2 : 3;
    std::vector<grid_t> grids;
    for (int i = 0; i < d; ++i)
    {
        grids.push_back(make_grid(rng, rng.chance(0.7) ? 8 : 31));
    }
    const std::string tuner_id  = rng.chance(0.5) ? "local-search" : "surrogate";
    int64_t           max_evals = rng.chance(0.3) ? 10 : static_cast<int64_t>(rng.loguniform(10.0, 120.0));
    if (rng.chance(thorough ? 0.05 : 0.02))
    {
        max_evals = rng.integer(120, thorough ? 1000 : 300);
    }

    // what the model callback returns
    valspec_t vs;
    vs.salt          = rng.next();
    vs.structured    = rng.chance(0.6);
    vs.amp           = rng.pick(std::vector<double>{0.0, 0.01, 0.1, 1.0, 1.0});
    vs.err_levels    = static_cast<int>(rng.pick(std::vector<int64_t>{0, 0, 1, 3}));
    vs.loss_levels   = static_cast<int>(rng.pick(std::vector<int64_t>{0, 0, 4}));
    vs.scale         = rng.pick(std::vector<double>{1.0, 1.0, 1.0, 1e-6, 1e6, -1.0});
    vs.offset        = rng.pick(std::vector<double>{0.0, 0.0, 5.0, -1e3});
    vs.arbitrary_len = rng.chance(0.2);
    for (int i = 0; i < d; ++i)
    {
        vs.centre.push_back(rng.uniform(-0.2, 1.2));
    }

    // schedule: pool size (hook 2), delays in the callback and at the unlocked schedule points of the pool (hook 1)
    std::vector<int64_t> pools{1, 2, 16};
    if (thorough)
    {
        pools.insert(pools.end(), {3, 4, 8});
    }
    const auto pool_size  = static_cast<size_t>(rng.pick(pools));
    const int  delay_mode = static_cast<int>(rng.integer(0, 2));
    const int  cb_delay   = static_cast<int>(rng.integer(0, 3)); // 0 none, 1 random, 2 early tasks slow, 3 one fold slow
    const auto slow_fold  = static_cast<int>(rng.integer(0, folds - 1));

    auto fit_params = ml::params_t{};
    fit_params.splitter(*splitter);
    {
        auto tuner                           = tuner_t::all().get(tuner_id);
        tuner->parameter("tuner::max_evals") = max_evals;
        fit_params.tuner(*tuner);
    }

    // the folds of the splitter (the statement takes them as given; their correctness is C12) and groups of equal folds
    const auto       splits = splitter->split(samples);
    std::vector<int> group(splits.size());
    for (size_t f = 0; f < splits.size(); ++f)
    {
        group[f] = static_cast<int>(f);
        for (size_t g = 0; g < f; ++g)
        {
            if (splits[g].first.size() == splits[f].first.size() && splits[g].second.size() == splits[f].second.size() &&
                std::equal(splits[g].first.begin(), splits[g].first.end(), splits[f].first.begin()) &&
                std::equal(splits[g].second.begin(), splits[g].second.end(), splits[f].second.begin()))
            {
                group[f] = static_cast<int>(g);
                break;
            }
        }
    }

    const auto witness = [&]()
    {
        vf::json_t j;
        j.kv("samples", static_cast<long long>(n)).kv("folds", folds).kv("splitter", splitter_id).kv("splitter_seed", static_cast<long long>(split_seed));
        j.kv("tuner", tuner_id).kv("max_evals", static_cast<long long>(max_evals)).kv("d", d).raw("grids", describe_grids(grids));
        j.kv("pool", static_cast<long long>(pool_size)).kv("delay_mode", delay_mode).kv("callback_delay", cb_delay);
        j.kv("structured", vs.structured).kv("amp", vs.amp).kv("err_levels", vs.err_levels).kv("scale", vs.scale).kv("offset", vs.offset).kv("arbitrary_len", vs.arbitrary_len);
        return j;
    };

    // reset the per-thread logs (the worker threads of this case do not exist yet)
    const int used = g_nslots.load(RLX);
    for (int s = 0; s < used && s < max_slots; ++s)
    {
        g_slots[s].calls.clear();
        g_slots[s].delays = 0;
    }
    g_nslots.store(0, RLX);
    g_case_seed.store(c.seed, RLX);
    g_delay_mode.store(delay_mode, RLX);
    g_epoch.fetch_add(1, RLX);
    nano::verif::pool_max_size().store(pool_size);
    nano::verif::pool_hook().store(&pool_hook);

    const auto callback = [&](const indices_t& tr, const indices_t& vd, tensor1d_cmap_t p, const std::any&, const logger_t&)
    {
        auto&  log = my_slot();
        call_t call;
        call.t_begin = now_ns();
        call.slot    = t_slot;
        call.params.assign(p.begin(), p.end());
        call.train_size = tr.size();
        call.valid_size = vd.size();
        for (size_t f = 0; f < splits.size(); ++f)
        {
            if (splits[f].first.size() == tr.size() && splits[f].second.size() == vd.size() &&
                std::equal(tr.begin(), tr.end(), splits[f].first.begin()) &&
                std::equal(vd.begin(), vd.end(), splits[f].second.begin()))
            {
                call.group = group[f];
                break;
            }
        }
        const auto h = pair_hash(vs, call.params, call.group);
        if (cb_delay == 1)
        {
            std::this_thread::sleep_for(std::chrono::microseconds(vf::mix(h, 3U) % 300U));
        }
        else if (cb_delay == 2)
        {
            std::this_thread::sleep_for(std::chrono::microseconds(call.group == 0 ? 400U : (vf::mix(h, 3U) % 20U)));
        }
        else if (cb_delay == 3 && call.group == slow_fold)
        {
            std::this_thread::sleep_for(std::chrono::microseconds(300U));
        }
        tensor2d_t trv, vdv;
        for (int split = 0; split < 2; ++split)
        {
            const auto errors = gen_values(vs, grids, call.params, call.group, split, 0, split == 0 ? tr.size() : vd.size());
            const auto losses = gen_values(vs, grids, call.params, call.group, split, 1, split == 0 ? tr.size() : vd.size());
            auto&      out    = split == 0 ? trv : vdv;
            // errors and losses of one split have the same length (one tensor with two rows)
            const auto size = static_cast<tensor_size_t>(std::min(errors.size(), losses.size()));
            out.resize(2, size);
            for (tensor_size_t i = 0; i < size; ++i)
            {
                out(0, i) = errors[static_cast<size_t>(i)];
                out(1, i) = losses[static_cast<size_t>(i)];
            }
        }
        call.t_end = now_ns();
        log.calls.push_back(std::move(call));
        return std::make_tuple(std::move(trv), std::move(vdv), std::any{h});
    };

    ml::result_t result;
    bool         returned = false;
    std::string  what;
    try
    {
        result   = ml::tune("verif", samples, fit_params, make_spaces(grids), callback);
        returned = true;
    }
    catch (const std::exception& e)
    {
        what = e.what();
    }
    nano::verif::pool_hook().store(nullptr);
    g_delay_mode.store(0, RLX);

    // ---- offline oracle (all worker threads have been joined by ml::tune)
    std::vector<const call_t*> calls;
    const int                  nslots = std::min(g_nslots.load(RLX), max_slots);
    int                        threads_used = 0;
    int64_t                    delays       = 0;
    for (int s = 0; s < nslots; ++s)
    {
        threads_used += g_slots[s].calls.empty() ? 0 : 1;
        delays += g_slots[s].delays;
        for (const auto& call : g_slots[s].calls)
        {
            calls.push_back(&call);
        }
    }
    c.count(std::string("runs:") + tuner_id);
    c.count("pool:" + std::to_string(pool_size));
    c.count("model_calls", static_cast<int64_t>(calls.size()));
    c.count("injected_delays", delays);
    c.maxc("threads_used", threads_used);

    // every call carries exactly one fold's training and validation indices
    c.count("fold_indices_checks", static_cast<int64_t>(calls.size()));
    for (const auto* call : calls)
    {
        if (call->group < 0)
        {
            c.violation("C13|mltune-fold-indices|callback", witness()
                                                                 .kv("train_size", static_cast<long long>(call->train_size))
                                                                 .kv("valid_size", static_cast<long long>(call->valid_size))
                                                                 .arr("params", call->params.data(), call->params.size()));
            break;
        }
    }

    if (!returned)
    {
        if (tuner_id == "surrogate" && is_surrogate_fit_failure(what))
        {
            c.inconclusive("surrogate-fit-failed");
        }
        else
        {
            c.violation("C13|mltune-unexpected-throw|" + tuner_id, witness().kv("what", what.substr(0, 300)));
        }
        return;
    }

    const auto trials = result.trials();
    c.maxc("trials_per_run", trials);
    c.count("shape_checks");
    if (result.folds() != folds || trials < 1 || static_cast<int64_t>(calls.size()) != trials * folds)
    {
        c.violation("C13|mltune-call-count|tune", witness()
                                                      .kv("calls", static_cast<long long>(calls.size()))
                                                      .kv("trials", static_cast<long long>(trials))
                                                      .kv("result_folds", static_cast<long long>(result.folds())));
    }
    if (result.folds() != folds || trials < 1)
    {
        return;
    }

    // exactly once per (trial, fold): trials are identified by their parameters, folds by their indices
    std::map<std::pair<std::vector<double>, int>, int64_t> ncalls, expected;
    for (const auto* call : calls)
    {
        ncalls[{call->params, call->group}] += 1;
    }
    std::vector<std::vector<double>> trial_params(static_cast<size_t>(trials));
    for (tensor_size_t trial = 0; trial < trials; ++trial)
    {
        const auto p = result.params(trial);
        trial_params[static_cast<size_t>(trial)].assign(p.begin(), p.end());
        for (int fold = 0; fold < folds; ++fold)
        {
            expected[{trial_params[static_cast<size_t>(trial)], group[static_cast<size_t>(fold)]}] += 1;
        }
    }
    c.count("exactly_once_checks", trials * folds);
    bool once = true;
    for (const auto& [key, count] : expected)
    {
        const auto it = ncalls.find(key);
        if (it == ncalls.end() || it->second != count)
        {
            once = false;
            c.violation("C13|mltune-exactly-once|tune", witness()
                                                            .arr("params", key.first.data(), key.first.size())
                                                            .kv("fold", key.second)
                                                            .kv("calls", static_cast<long long>(it == ncalls.end() ? 0 : it->second))
                                                            .kv("expected", static_cast<long long>(count)));
            break;
        }
    }
    for (const auto& [key, count] : ncalls)
    {
        if (once && key.second >= 0 && expected.find(key) == expected.end())
        {
            once = false;
            c.violation("C13|mltune-exactly-once|tune", witness()
                                                            .arr("params", key.first.data(), key.first.size())
                                                            .kv("fold", key.second)
                                                            .kv("calls", static_cast<long long>(count))
                                                            .kv("expected", 0));
            break;
        }
    }

    // stored statistics (and model data) of (trial, fold) = those of what the callback returned for that pair
    static const double pers[] = {1, 5, 10, 20, 50, 80, 90, 95, 99};
    static const char*  pnames[] = {"per01", "per05", "per10", "per20", "per50", "per80", "per90", "per95", "per99"};
    std::vector<long double> valid_error(static_cast<size_t>(trials), 0.0L);
    double                   valid_amax = 0.0;
    bool                     stats_ok = true, extra_ok = true;
    for (tensor_size_t trial = 0; trial < trials; ++trial)
    {
        const auto& params = trial_params[static_cast<size_t>(trial)];
        for (int fold = 0; fold < folds; ++fold)
        {
            const auto  grp = group[static_cast<size_t>(fold)];
            const auto& spl = splits[static_cast<size_t>(fold)];
            c.count("extra_slot_checks");
            const auto* extra = std::any_cast<uint64_t>(&result.extra(trial, fold));
            if (extra_ok && (extra == nullptr || *extra != pair_hash(vs, params, grp)))
            {
                extra_ok = false;
                c.violation("C13|mltune-extra-slot|result_t", witness().kv("trial", static_cast<long long>(trial)).kv("fold", fold).kv("empty", extra == nullptr));
            }
            for (int split = 0; split < 2; ++split)
            {
                const auto indices = split == 0 ? spl.first.size() : spl.second.size();
                const auto errors  = gen_values(vs, grids, params, grp, split, 0, indices);
                const auto losses  = gen_values(vs, grids, params, grp, split, 1, indices);
                const auto size    = std::min(errors.size(), losses.size());
                for (int type = 0; type < 2; ++type)
                {
                    std::vector<double> values(type == 0 ? errors : losses);
                    values.resize(size);
                    const auto mean = ref_mean(values);
                    double     amax = 1e-300;
                    for (const auto v : values)
                    {
                        amax = std::max(amax, std::fabs(v));
                    }
                    if (split == 1 && type == 0)
                    {
                        valid_error[static_cast<size_t>(trial)] += mean;
                        valid_amax = std::max(valid_amax, amax);
                    }
                    std::sort(values.begin(), values.end());
                    const auto st = result.stats(trial, fold, split == 0 ? ml::split_type::train : ml::split_type::valid,
                                                 type == 0 ? ml::value_type::errors : ml::value_type::losses);
                    c.count("stats_slot_checks");
                    const double got[] = {st.m_per01, st.m_per05, st.m_per10, st.m_per20, st.m_per50, st.m_per80, st.m_per90, st.m_per95, st.m_per99};
                    const char*  bad   = nullptr;
                    double       g = 0, e = 0;
                    if (!(std::fabs(st.m_mean - static_cast<double>(mean)) <= 1e-12 * amax))
                    {
                        bad = "mean", g = st.m_mean, e = static_cast<double>(mean);
                    }
                    else if (st.m_count != static_cast<double>(size))
                    {
                        bad = "count", g = st.m_count, e = static_cast<double>(size);
                    }
                    for (int i = 0; i < 9 && bad == nullptr; ++i)
                    {
                        const double ep = ref_percentile(values, pers[i]);
                        if (!(got[i] == ep))
                        {
                            bad = pnames[i], g = got[i], e = ep;
                        }
                    }
                    if (bad != nullptr && stats_ok)
                    {
                        stats_ok = false;
                        c.violation("C13|mltune-stats-slot|result_t", witness()
                                                                          .kv("trial", static_cast<long long>(trial))
                                                                          .kv("fold", fold)
                                                                          .kv("split", split == 0 ? "train" : "valid")
                                                                          .kv("type", type == 0 ? "errors" : "losses")
                                                                          .kv("statistic", bad)
                                                                          .kv("got", g)
                                                                          .kv("expected", e)
                                                                          .arr("params", params.data(), params.size()));
                    }
                }
            }
        }
        valid_error[static_cast<size_t>(trial)] /= static_cast<long double>(folds);
    }

    // optimum = an arg-min of the mean validation error across folds (any, on ties up to rounding)
    c.count("optimum_checks");
    const auto  optimum = result.optimum_trial();
    long double best    = valid_error[0];
    for (const auto v : valid_error)
    {
        best = std::min(best, v);
    }
    const double tolerance = 1e-12 * std::max(valid_amax, 1e-300);
    if (optimum < 0 || optimum >= trials || !(valid_error[static_cast<size_t>(optimum)] <= best + static_cast<long double>(tolerance)))
    {
        c.violation("C13|mltune-optimum|optimum_trial",
                    witness()
                        .kv("optimum_trial", static_cast<long long>(optimum))
                        .kv("its_mean_validation_error", (optimum >= 0 && optimum < trials) ? static_cast<double>(valid_error[static_cast<size_t>(optimum)]) : std::nan(""))
                        .kv("smallest_mean_validation_error", static_cast<double>(best))
                        .kv("trials", static_cast<long long>(trials)));
    }

    // schedule evidence: did (trial, fold) tasks run on several threads / overlap in time / end out of index order?
    bool overlap = false;
    {
        std::vector<std::pair<int64_t, int64_t>> spans;
        for (const auto* call : calls)
        {
            spans.emplace_back(call->t_begin, call->t_end);
        }
        std::sort(spans.begin(), spans.end());
        for (size_t i = 1; i < spans.size() && !overlap; ++i)
        {
            overlap = spans[i].first < spans[i - 1].second;
        }
    }
    c.count(threads_used >= 2 ? "runs_multi_threaded" : "runs_single_threaded");
    c.count(overlap ? "runs_with_overlapping_tasks" : "runs_without_overlap");

    // non-trivial: the tuner made at least one round beyond the initial trial (>= 2 trials, hence >= 4 tasks)
    if (trials >= 2)
    {
        uint64_t h = vf::mix(vf::hash_str(tuner_id.c_str()) ^ vf::hash_str(splitter_id.c_str()), static_cast<uint64_t>(max_evals));
        h          = vf::mix(h, static_cast<uint64_t>(split_seed) * 1000003U + static_cast<uint64_t>(folds) * 101U + pool_size);
        h          = vf::hash_bytes(samples.data(), static_cast<size_t>(samples.size()) * sizeof(tensor_size_t), h);
        h          = hash_grids(grids, h);
        h          = vf::mix(h, vs.salt);
        for (const auto& p : trial_params)
        {
            h = vf::hash_bytes(p.data(), p.size() * sizeof(double), h);
        }
        c.nontrivial(h);
    }
    if (c.want_sample())
    {
        auto j = witness();
        j.kv("trials", static_cast<long long>(trials)).kv("model_calls", static_cast<long long>(calls.size()));
        j.kv("threads_used", threads_used).kv("overlapping_tasks", overlap).kv("optimum_trial", static_cast<long long>(optimum));
        j.kv("optimum_mean_validation_error", static_cast<double>(valid_error[static_cast<size_t>(optimum)]));
        j.arr("optimum_params", trial_params[static_cast<size_t>(optimum)].data(), trial_params[static_cast<size_t>(optimum)].size());
        c.sample(j);
    }
}
} // namespace

int main(int argc, char** argv)
{
    const auto args = vf::parse_args(argc, argv);
    if (args.mode == "mltune")
    {
        return vf::run(args, "C13",
                       "case = one ml::tune call: 12..220 samples, k-fold|random splitter with 2..10 folds, 0..3 grids of 2..31 "
                       "values, local-search|surrogate tuner, internal pool of 1|2|16 threads, injected delays; non-trivial: the "
                       "call returned with >= 2 trials (every clause evaluated on >= 4 (trial, fold) tasks); distinct by "
                       "hash(samples, splitter, grids, tuner, pool, value salt, evaluated parameters)",
                       mltune_case);
    }
    return vf::run(args, "C13",
                   "case = one tuner_t::optimize call (local-search|surrogate) on 1..3 grids of 2..31 values (linear|log10) with "
                   "one of 12 landscapes (bowls, plateaus, ties, corners, needles, hashes) and max_evals 10..1000, plus a re-run "
                   "with one non-finite answer; non-trivial: optimize returned after >= 2 callbacks and >= 4 evaluations; distinct "
                   "by hash(tuner, max_evals, grids, evaluated points and values)",
                   tuner_case);
}
