// C17 - thread pool: every task exactly once, completes, shuts down cleanly.
//
// The real nano::parallel::pool_t is driven through hostile scenarios (1..4 concurrent submitters, index and chunk
// maps, throwing tasks, enqueue bursts, destruction while idle/busy/queued) while the NANO_VERIF schedule-point hook
// (a) records an event trace per thread and (b) injects pseudo-random delays at the schedule points where no pool lock
// is held.  After the scenario is quiescent (all threads joined, pool destroyed) the merged trace and the task-body
// events are judged by a trace checker: exactly-once, tiling, worker ids, no overlap per (call, worker id), barrier,
// re-throw, shutdown (workers exited, futures ready, at-most-once for queued tasks).  A watchdog thread decides
// deadlocks on progress counters + thread states, never on wall-clock alone.  In the tsan flavour the monitor only uses
// per-thread buffers and relaxed atomics (no synchronisation that could hide a race of the pool).
#include "common/vf.h"
#include <algorithm>
#include <atomic>
#include <chrono>
#include <dirent.h>
#include <fstream>
#include <memory>
#include <nano/core/parallel.h>
#include <set>
#include <sstream>
#include <stdexcept>
#include <sys/syscall.h>
#include <thread>

using namespace nano;
using namespace nano::parallel;

namespace
{
#if defined(__SANITIZE_THREAD__)
constexpr bool is_tsan = true;
constexpr auto MO      = std::memory_order_relaxed;
#else
constexpr bool is_tsan = false;
constexpr auto MO      = std::memory_order_seq_cst;
#endif
constexpr auto RLX = std::memory_order_relaxed;

enum kind_t : int
{
    k_point = 0, ///< a = point id
    k_task_begin,
    k_task_end, ///< a = call, b = begin, c = end, d = tnum
    k_map_call,
    k_map_ret, ///< a = call, b = threw
    k_enq_call,
    k_enq_ret, ///< a = burst task id
    k_btask_begin,
    k_btask_end, ///< a = burst task id, d = tnum
    k_dtor_call,
    k_dtor_ret
};

struct event_t
{
    uint64_t clock;
    int      slot;
    int      kind;
    int      a;
    int64_t  b, c, d;
};

struct log_t
{
    std::vector<event_t> events;
    uint64_t             rng{0};
    int64_t              delays{0};
    bool                 is_worker{false};
};

constexpr int max_logs = 256;
log_t                 g_logs[max_logs];
std::atomic<int>      g_nlogs{0};
std::atomic<int>      g_epoch{1};
std::atomic<uint64_t> g_clock{0};
std::atomic<uint64_t> g_progress{0};
std::atomic<int>      g_phase{0};
std::atomic<int>      g_delay_mode{0};
std::atomic<uint64_t> g_case_seed{0};
std::atomic<int>      g_slow_slot{-1};
std::atomic<int64_t>  g_case_index{-1};

thread_local int    t_epoch = 0;
thread_local int    t_slot  = -1;
thread_local log_t* t_log   = nullptr;

log_t& mylog()
{
    const int epoch = g_epoch.load(RLX);
    if (t_epoch != epoch)
    {
        t_epoch = epoch;
        t_slot  = g_nlogs.fetch_add(1, RLX);
        if (t_slot >= max_logs)
        {
            std::fprintf(stderr, "harness: too many threads\n");
            _exit(3);
        }
        t_log      = &g_logs[t_slot];
        t_log->rng = vf::mix(g_case_seed.load(RLX), static_cast<uint64_t>(t_slot) + 17U);
    }
    return *t_log;
}

inline void record(int kind, int a, int64_t b = 0, int64_t c = 0, int64_t d = 0)
{
    auto& l = mylog();
    g_progress.fetch_add(1, RLX);
    l.events.push_back(event_t{g_clock.fetch_add(1, MO), t_slot, kind, a, b, c, d});
}

bool locked_point(int p)
{
    using namespace nano::verif;
    return p == enqueue_pushed || p == map_pushed || p == worker_woke || p == worker_popped || p == worker_saw_stop ||
           p == dtor_stop_set;
}

void do_delay(log_t& l, uint64_t r, unsigned max_us)
{
    ++l.delays;
    if ((r & 7U) == 0U)
    {
        std::this_thread::yield();
    }
    else
    {
        std::this_thread::sleep_for(std::chrono::microseconds((r >> 8U) % max_us));
    }
}

void hook(int point, const void*)
{
    using namespace nano::verif;
    record(k_point, point);
    auto& l = *t_log;
    if (point >= worker_before_wait && point <= worker_exit)
    {
        l.is_worker = true;
    }
    if (locked_point(point))
    {
        return; // a delay inside the queue mutex adds no interleavings
    }
    const int      mode = g_delay_mode.load(RLX);
    const uint64_t r    = vf::splitmix64(l.rng);
    switch (mode)
    {
    case 0: break;
    case 1: // light, uniform
        if ((r & 3U) == 0U)
        {
            do_delay(l, r >> 2U, 50);
        }
        break;
    case 2: // heavy, uniform
        if ((r & 1U) == 0U)
        {
            do_delay(l, r >> 2U, 300);
        }
        break;
    case 3: // one slow thread
        if (t_slot == g_slow_slot.load(RLX))
        {
            do_delay(l, r >> 2U, 400);
        }
        break;
    case 4: // slow notifier: widen the window between push/stop and notify
        if (point == enqueue_before_notify || point == map_before_notify || point == dtor_before_notify)
        {
            do_delay(l, (r >> 2U) | 1U, 500);
        }
        break;
    case 5: // slow submitter
        if (point == map_before_lock || point == map_before_block || point == block_before_get || point == enqueue_before_lock ||
            point == enqueue_done)
        {
            do_delay(l, r >> 2U, 200);
        }
        break;
    case 6: // workers slow to (re)enter the wait and to pick up work
        if (point == worker_before_wait || point == worker_before_run || point == worker_after_run)
        {
            do_delay(l, r >> 2U, 300);
        }
        break;
    case 7: // slow shutdown path
        if (point >= dtor_before_lock && point <= dtor_after_joins)
        {
            do_delay(l, (r >> 2U) | 1U, 400);
        }
        else if ((r & 7U) == 0U)
        {
            do_delay(l, r >> 3U, 50);
        }
        break;
    default: break;
    }
}

int count_threads()
{
    int  n = 0;
    DIR* d = opendir("/proc/self/task");
    if (d == nullptr)
    {
        return -1;
    }
    while (const auto* e = readdir(d))
    {
        n += (e->d_name[0] != '.') ? 1 : 0;
    }
    closedir(d);
    return n;
}

// all threads but the caller sleeping (state S) ?
bool all_other_threads_sleeping()
{
    DIR* d = opendir("/proc/self/task");
    if (d == nullptr)
    {
        return false;
    }
    const auto self = static_cast<long>(::syscall(SYS_gettid));
    bool       all  = true;
    while (const auto* e = readdir(d))
    {
        if (e->d_name[0] == '.')
        {
            continue;
        }
        if (std::atol(e->d_name) == self)
        {
            continue;
        }
        std::ifstream in(std::string("/proc/self/task/") + e->d_name + "/stat");
        std::string   line;
        std::getline(in, line);
        const auto pos = line.rfind(')');
        if (pos == std::string::npos || pos + 2 >= line.size())
        {
            continue;
        }
        const char state = line[pos + 2];
        if (state != 'S')
        {
            all = false;
        }
    }
    closedir(d);
    return all;
}

const char* phase_name(int p)
{
    switch (p)
    {
    case 1: return "construct";
    case 2: return "map";
    case 3: return "burst-enqueue";
    case 4: return "await-futures";
    case 5: return "destroy";
    case 6: return "post-destroy";
    default: return "idle";
    }
}

void watchdog()
{
    uint64_t last  = ~0ULL;
    int      still = 0, sleeping = 0;
    while (true)
    {
        std::this_thread::sleep_for(std::chrono::milliseconds(200));
        const auto p = g_progress.load(RLX);
        if (g_phase.load(RLX) == 0 || p != last)
        {
            last     = p;
            still    = 0;
            sleeping = 0;
            continue;
        }
        ++still;
        sleeping = all_other_threads_sleeping() ? sleeping + 1 : 0;
        if (still >= 25 && sleeping >= 10)
        {
            // no event for 5 s and every thread blocked: deadlock (a loaded machine shows runnable threads instead)
            vf::json_t j;
            j.kv("phase", phase_name(g_phase.load(RLX))).kv("threads", count_threads()).kv("progress", static_cast<unsigned long long>(p));
            j.kv("delay_mode", g_delay_mode.load(RLX));
            vf::json_t w;
            w.kv("case", static_cast<long long>(g_case_index.load(RLX)));
            w.kv("mode", "default");
            w.kv("details", j);
            vf::out_t::line(std::string("V C17|deadlock|") + phase_name(g_phase.load(RLX)) + "\t" + w.str());
            _exit(77);
        }
    }
}

struct call_t
{
    bool    chunked{false};
    int64_t elements{0};
    int64_t chunk{1};
    bool    raise{true};
    int     throwing{0}; ///< 0 none, 1 first, 2 last, 3 all, 4 one random
    int64_t throw_at{-1};
    int     submitter{0};
    bool    threw{false};
    bool    threw_expected_type{true};
    // online barrier clause (relaxed counters, read by the submitter right after map returned)
    std::atomic<int64_t> started{0}, ended{0};
    int64_t              started_at_ret{0}, ended_at_ret{0};
};

struct boom_t : std::runtime_error
{
    using std::runtime_error::runtime_error;
};

const char* point_name(int p)
{
    using namespace nano::verif;
    switch (p)
    {
    case enqueue_before_lock: return "enq.before_lock";
    case enqueue_pushed: return "enq.pushed";
    case enqueue_before_notify: return "enq.before_notify";
    case enqueue_done: return "enq.done";
    case map_before_lock: return "map.before_lock";
    case map_pushed: return "map.pushed";
    case map_before_notify: return "map.before_notify";
    case map_before_block: return "map.before_block";
    case map_after_block: return "map.after_block";
    case map_serial: return "map.serial";
    case worker_before_wait: return "w.before_wait";
    case worker_woke: return "w.woke";
    case worker_popped: return "w.popped";
    case worker_before_run: return "w.before_run";
    case worker_after_run: return "w.after_run";
    case worker_saw_stop: return "w.saw_stop";
    case worker_exit: return "w.exit";
    case dtor_before_lock: return "dtor.before_lock";
    case dtor_stop_set: return "dtor.stop_set";
    case dtor_before_notify: return "dtor.before_notify";
    case dtor_before_join: return "dtor.before_join";
    case dtor_after_joins: return "dtor.after_joins";
    case block_before_get: return "block.before_get";
    case block_after_get: return "block.after_get";
    default: return "?";
    }
}

// A different workload shape: rapid create / use / destroy of small pools.  Shutdown races whose window lies inside
// `condition_variable::wait(lock, predicate)` (between the predicate and the sleep) cannot be widened by a schedule-point
// delay; they are only reachable by volume: a pool is destroyed a few hundred nanoseconds after its last task ended, or
// right after construction, thousands of times.  The deadlock watchdog decides (phase "destroy").
void run_churn(vf::ctx_t& c)
{
    auto& rng = c.rng;
    // NB: the log slots of the previous case are given back (and cleared) by the first round below
    g_clock.store(0, RLX);
    g_case_seed.store(c.seed, RLX);
    g_case_index.store(c.index, RLX);
    g_delay_mode.store(static_cast<int>(rng.integer(0, 1)), RLX); // none or light: the point is timing, not delays

    const int  rounds         = 150;
    const int  threads_before = count_threads();
    int64_t    ran_total      = 0;
    const auto size           = static_cast<size_t>(rng.chance(0.7) ? 1 : rng.integer(2, 3));
    for (int round = 0; round < rounds; ++round)
    {
        // every round is its own epoch: the (already joined) threads of the previous round give their log slots back
        for (int i = 0, n = std::min(g_nlogs.load(RLX), max_logs); i < n; ++i)
        {
            g_logs[i].events.clear();
        }
        g_nlogs.store(0, RLX);
        g_epoch.fetch_add(1, RLX);
        const int variant = static_cast<int>(rng.integer(0, 3));
        const int spin    = static_cast<int>(rng.integer(0, 1500));
        g_phase.store(1, RLX);
        auto             pool = std::make_unique<pool_t>(size);
        std::atomic<int> ran{0};
        future_t         future;
        g_phase.store(3, RLX);
        if (variant != 0)
        {
            future = pool->enqueue([&ran](size_t) { ran.fetch_add(1, RLX); });
        }
        if (variant == 1)
        {
            g_phase.store(4, RLX);
            future.wait();
        }
        else if (variant == 2)
        {
            g_phase.store(4, RLX);
            while (ran.load(RLX) == 0)
            {
                g_progress.fetch_add(1, RLX);
            }
        }
        for (volatile int k = 0; k < spin; ++k)
        {
        }
        g_phase.store(5, RLX);
        pool.reset(); // a lost stop request hangs here: the watchdog reports C17|deadlock|destroy
        g_phase.store(6, RLX);
        const int r = ran.load(RLX);
        ran_total += r;
        c.count("churn_pools");
        if (r > 1 || ((variant == 1 || variant == 2) && r != 1))
        {
            c.violation("C17|churn|task-count", vf::json_t().kv("ran", r).kv("variant", variant).kv("pool", size));
        }
        if (variant != 0 && future.valid() && future.wait_for(std::chrono::seconds(0)) != std::future_status::ready)
        {
            c.violation("C17|shutdown|future-never-ready", vf::json_t().kv("variant", variant).kv("pool", size).kv("scenario", "churn"));
        }
    }
    g_phase.store(0, RLX);
    int threads_after = count_threads();
    for (int i = 0; i < 200 && threads_after != threads_before; ++i)
    {
        std::this_thread::sleep_for(std::chrono::milliseconds(1));
        threads_after = count_threads();
    }
    if (threads_after != threads_before)
    {
        c.violation("C17|shutdown|threads-alive", vf::json_t().kv("before", threads_before).kv("after", threads_after).kv("scenario", "churn"));
    }
    c.count("churn_cases");
    c.count("churn_tasks_run", ran_total);
}

void run_case(vf::ctx_t& c)
{
    if (c.rng.chance(0.12))
    {
        run_churn(c);
        return;
    }
    auto& rng = c.rng;

    // ---- reset the monitor ------------------------------------------------------------------------------------
    const int nlogs_before = g_nlogs.load(RLX);
    for (int i = 0; i < std::min(nlogs_before, max_logs); ++i)
    {
        g_logs[i] = log_t{};
    }
    for (int i = std::min(nlogs_before, max_logs); i < max_logs; ++i)
    {
        if (!g_logs[i].events.empty())
        {
            std::fprintf(stderr, "harness: stale events in log slot %d\n", i);
            _exit(3);
        }
    }
    g_nlogs.store(0, RLX);
    g_epoch.fetch_add(1, RLX);
    g_clock.store(0, RLX);
    g_case_seed.store(c.seed, RLX);
    g_case_index.store(c.index, RLX);

    // ---- the scenario -----------------------------------------------------------------------------------------
    const auto   want_threads = static_cast<size_t>(rng.chance(0.15) ? 1 : rng.integer(1, 16));
    const int    delay_mode   = static_cast<int>(rng.integer(0, 7));
    const int    nsub         = static_cast<int>(rng.integer(1, 4));
    const int    shutdown     = static_cast<int>(rng.integer(0, 4)); // 0 idle, 1 await-then-destroy, 2 queued, 3 busy, 4 throwing-await
    const int    burst        = shutdown == 0 ? 0 : static_cast<int>(rng.integer(1, 40));
    const int    nenq         = (burst > 4 && rng.chance(0.4)) ? 2 : 1;
    const bool   mixed        = rng.chance(0.3); // bursts overlap with the map calls
    g_delay_mode.store(delay_mode, RLX);
    g_slow_slot.store(static_cast<int>(rng.integer(1, 8)), RLX);

    // calls of every submitter
    std::vector<std::unique_ptr<call_t>> calls;
    std::vector<std::vector<int>>        calls_of(static_cast<size_t>(nsub));
    for (int s = 0; s < nsub; ++s)
    {
        const auto ncalls = rng.integer(1, 3);
        for (int64_t k = 0; k < ncalls; ++k)
        {
            auto call      = std::make_unique<call_t>();
            call->chunked  = rng.chance(0.5);
            const auto big = rng.chance(0.04);
            call->elements = rng.chance(0.08) ? rng.integer(0, 1) : (big ? rng.integer(1000, 5000) : rng.integer(2, 300));
            call->chunk    = rng.chance(0.1) ? call->elements + 1 : rng.integer(1, std::max<int64_t>(1, call->elements));
            if (big && call->chunked)
            {
                call->chunk = std::max<int64_t>(call->chunk, 3);
            }
            call->raise     = rng.chance(0.6);
            call->throwing  = rng.chance(0.3) ? static_cast<int>(rng.integer(1, 4)) : 0;
            call->throw_at  = call->elements > 0 ? rng.integer(0, call->elements - 1) : -1;
            call->submitter = s;
            calls_of[static_cast<size_t>(s)].push_back(static_cast<int>(calls.size()));
            calls.push_back(std::move(call));
        }
    }

    const int threads_before = count_threads();
    g_phase.store(1, RLX);
    auto         pool  = std::make_unique<pool_t>(want_threads);
    const size_t psize = pool->size();
    if (psize != std::min<size_t>(want_threads, pool_t::max_size()))
    {
        c.violation("C17|size|clamp", vf::json_t().kv("wanted", want_threads).kv("got", psize));
    }

    // burst bookkeeping
    std::vector<std::atomic<int>> ran(static_cast<size_t>(burst));
    std::vector<future_t>         futures(static_cast<size_t>(burst));
    const auto                    burst_sleep_us = shutdown == 3 ? rng.integer(50, 400) : 0;
    const auto                    enqueue_range  = [&](int from, int to)
    {
        for (int k = from; k < to; ++k)
        {
            record(k_enq_call, k);
            futures[static_cast<size_t>(k)] = pool->enqueue(
                [&ran, k, burst_sleep_us, shutdown](size_t tnum)
                {
                    record(k_btask_begin, k, 0, 0, static_cast<int64_t>(tnum));
                    ran[static_cast<size_t>(k)].fetch_add(1, RLX);
                    if (burst_sleep_us > 0)
                    {
                        std::this_thread::sleep_for(std::chrono::microseconds(burst_sleep_us));
                    }
                    else
                    {
                        std::this_thread::yield();
                    }
                    record(k_btask_end, k, 0, 0, static_cast<int64_t>(tnum));
                    if (shutdown == 4 && (k % 3) == 0)
                    {
                        throw boom_t("burst");
                    }
                });
            record(k_enq_ret, k);
        }
    };

    // ---- phase A: concurrent map calls ------------------------------------------------------------------------
    g_phase.store(2, RLX);
    std::vector<std::thread> submitters;
    for (int s = 0; s < nsub; ++s)
    {
        submitters.emplace_back(
            [&, s]()
            {
                for (const int id : calls_of[static_cast<size_t>(s)])
                {
                    auto&      call = *calls[static_cast<size_t>(id)];
                    const auto body = [&call, id](int64_t b, int64_t e, size_t tnum)
                    {
                        call.started.fetch_add(1, RLX);
                        record(k_task_begin, id, b, e, static_cast<int64_t>(tnum));
                        if ((b % 5) == 0)
                        {
                            std::this_thread::yield();
                        }
                        record(k_task_end, id, b, e, static_cast<int64_t>(tnum));
                        call.ended.fetch_add(1, RLX);
                        const bool boom = (call.throwing == 1 && b == 0) || (call.throwing == 2 && e == call.elements) ||
                                          (call.throwing == 3) || (call.throwing == 4 && b <= call.throw_at && call.throw_at < e);
                        if (boom)
                        {
                            throw boom_t("task");
                        }
                    };
                    record(k_map_call, id);
                    try
                    {
                        if (call.chunked)
                        {
                            pool->map(call.elements, call.chunk, [&body](int64_t b, int64_t e, size_t tnum) { body(b, e, tnum); }, call.raise);
                        }
                        else
                        {
                            pool->map(call.elements, [&body](int64_t i, size_t tnum) { body(i, i + 1, tnum); }, call.raise);
                        }
                    }
                    catch (const boom_t&)
                    {
                        call.threw = true;
                    }
                    catch (...)
                    {
                        call.threw               = true;
                        call.threw_expected_type = false;
                    }
                    call.started_at_ret = call.started.load(RLX);
                    call.ended_at_ret   = call.ended.load(RLX);
                    record(k_map_ret, id, call.threw ? 1 : 0);
                }
            });
    }
    std::vector<std::thread> enqueuers;
    const auto               start_bursts = [&]()
    {
        if (burst > 0)
        {
            const int half = nenq == 2 ? burst / 2 : burst;
            enqueuers.emplace_back([&, half]() { enqueue_range(0, half); });
            if (nenq == 2)
            {
                enqueuers.emplace_back([&, half]() { enqueue_range(half, burst); });
            }
        }
    };
    if (mixed)
    {
        start_bursts();
    }
    for (auto& t : submitters)
    {
        t.join();
    }

    // ---- phase B: enqueue bursts, then destruction in one of the variants -------------------------------------
    g_phase.store(3, RLX);
    if (!mixed)
    {
        start_bursts();
    }
    for (auto& t : enqueuers)
    {
        t.join();
    }
    int rethrown = 0;
    if (shutdown == 1 || shutdown == 4)
    {
        g_phase.store(4, RLX);
        for (int k = 0; k < burst; ++k)
        {
            try
            {
                futures[static_cast<size_t>(k)].get();
            }
            catch (const boom_t&)
            {
                ++rethrown;
            }
            g_progress.fetch_add(1, RLX);
        }
    }
    g_phase.store(5, RLX);
    record(k_dtor_call, 0);
    pool.reset();
    record(k_dtor_ret, 0);
    g_phase.store(6, RLX);

    int threads_after = count_threads();
    for (int i = 0; i < 200 && threads_after != threads_before; ++i)
    {
        std::this_thread::sleep_for(std::chrono::milliseconds(1));
        threads_after = count_threads();
    }

    // futures after destruction: ready (value, the task's exception or broken promise), each task at most once
    int broken = 0, notready = 0;
    for (int k = 0; k < burst; ++k)
    {
        auto&      f = futures[static_cast<size_t>(k)];
        const bool ready = f.valid() && f.wait_for(std::chrono::seconds(0)) == std::future_status::ready;
        bool       brk = false, exc = false;
        if (!ready)
        {
            ++notready;
        }
        else
        {
            try
            {
                f.get();
            }
            catch (const std::future_error&)
            {
                brk = true;
                ++broken;
            }
            catch (const boom_t&)
            {
                exc = true;
            }
        }
        const int r = ran[static_cast<size_t>(k)].load(RLX);
        c.count("clause_shutdown_future");
        const bool must_run = (shutdown == 1 || shutdown == 4);
        if (!ready || r > 1 || (r == 0 && !brk) || (r == 1 && brk) || (must_run && r != 1) ||
            (shutdown == 4 && r == 1 && ((k % 3) == 0) != exc))
        {
            vf::json_t j;
            j.kv("task", k).kv("ran", r).kv("ready", ready).kv("broken_promise", brk).kv("exception", exc).kv("variant", shutdown);
            c.violation(!ready ? "C17|shutdown|future-never-ready" : (r > 1 ? "C17|enqueue|ran-twice" : "C17|shutdown|future-state"), j);
            break;
        }
    }
    g_phase.store(0, RLX);

    // ---- the trace checker (quiescent: every other thread of the scenario is gone) ---------------------------
    const int            nlogs = std::min(g_nlogs.load(RLX), max_logs);
    std::vector<event_t> trace;
    int64_t              delays = 0;
    int                  nworkers_seen = 0;
    for (int i = 0; i < nlogs; ++i)
    {
        trace.insert(trace.end(), g_logs[i].events.begin(), g_logs[i].events.end());
        delays += g_logs[i].delays;
        nworkers_seen += g_logs[i].is_worker ? 1 : 0;
    }
    std::sort(trace.begin(), trace.end(), [](const event_t& a, const event_t& b) { return a.clock < b.clock; });
    c.count("events", static_cast<int64_t>(trace.size()));
    c.count("delays_injected", delays);

    const auto base = [&](const char* clause)
    {
        vf::json_t j;
        j.kv("clause", clause).kv("pool", psize).kv("submitters", nsub).kv("delay_mode", delay_mode).kv("shutdown", shutdown).kv("burst", burst);
        return j;
    };

    if (threads_after != threads_before)
    {
        c.violation("C17|shutdown|threads-alive", base("threads").kv("before", threads_before).kv("after", threads_after));
    }
    c.count("clause_shutdown_threads");

    // per call
    bool   multi_worker_call = false;
    size_t tasks_total       = 0;
    for (size_t id = 0; id < calls.size(); ++id)
    {
        const auto& call = *calls[id];
        struct task_t
        {
            int64_t  b, e, tnum;
            uint64_t t0, t1;
            int      slot;
            bool     ended;
        };

        std::vector<task_t> tasks;
        uint64_t            ret_clock = 0, call_clock = 0;
        for (const auto& ev : trace)
        {
            if (ev.a != static_cast<int>(id))
            {
                continue;
            }
            if (ev.kind == k_task_begin)
            {
                tasks.push_back(task_t{ev.b, ev.c, ev.d, ev.clock, 0, ev.slot, false});
            }
            else if (ev.kind == k_task_end)
            {
                for (auto it = tasks.rbegin(); it != tasks.rend(); ++it)
                {
                    if (it->slot == ev.slot && it->b == ev.b && !it->ended)
                    {
                        it->t1    = ev.clock;
                        it->ended = true;
                        break;
                    }
                }
            }
            else if (ev.kind == k_map_ret)
            {
                ret_clock = ev.clock;
            }
            else if (ev.kind == k_map_call)
            {
                call_clock = ev.clock;
            }
        }
        tasks_total += tasks.size();
        const auto J = [&](const char* clause)
        {
            auto j = base(clause);
            j.kv("chunked", call.chunked).kv("elements", static_cast<long long>(call.elements)).kv("chunk", static_cast<long long>(call.chunk));
            j.kv("raise", call.raise).kv("throwing", call.throwing).kv("tasks_run", tasks.size());
            return j;
        };
        const bool    serial  = psize == 1 || (call.chunked ? call.chunk >= call.elements : call.elements <= 1);
        const int64_t step    = call.chunked ? call.chunk : 1;
        const int64_t ntasks  = call.elements <= 0 ? 0 : (call.elements + step - 1) / step;
        // would a task throw?
        bool any_throw = false;
        if (call.elements > 0)
        {
            any_throw = call.throwing != 0;
        }

        // exactly once / at most once
        std::vector<int> hits(static_cast<size_t>(std::max<int64_t>(call.elements, 0)), 0);
        bool             shape_ok = true;
        for (const auto& t : tasks)
        {
            if (t.b < 0 || t.e > call.elements || t.b >= t.e)
            {
                shape_ok = false;
                continue;
            }
            for (int64_t i = t.b; i < t.e; ++i)
            {
                ++hits[static_cast<size_t>(i)];
            }
            // tiling: every chunk starts on a multiple of the chunk size and has the full size except the last one
            if (t.b % step != 0 || t.e != std::min(t.b + step, call.elements))
            {
                shape_ok = false;
            }
        }
        c.count("clause_tiling");
        if (!shape_ok)
        {
            c.violation("C17|tiling|chunk-bounds", J("tiling"));
        }
        c.count(any_throw ? "clause_at_most_once" : "clause_exactly_once");
        for (int64_t i = 0; i < call.elements; ++i)
        {
            const int h = hits[static_cast<size_t>(i)];
            if (h > 1 || (h == 0 && !any_throw))
            {
                c.violation(h > 1 ? "C17|exactly-once|index-run-twice" : "C17|exactly-once|index-never-run", J("exactly-once").kv("index", static_cast<long long>(i)).kv("count", h));
                break;
            }
            // with throwing tasks on the parallel path the other tasks still run (their futures are awaited)
            if (h == 0 && any_throw && !serial)
            {
                c.violation("C17|exactly-once|index-never-run-parallel-throw", J("exactly-once").kv("index", static_cast<long long>(i)));
                break;
            }
        }
        if (!any_throw && static_cast<int64_t>(tasks.size()) != ntasks)
        {
            c.violation("C17|exactly-once|task-count", J("exactly-once").kv("expected_tasks", static_cast<long long>(ntasks)));
        }

        // worker ids
        c.count("clause_worker_id", static_cast<int64_t>(tasks.size()));
        std::set<int> slots;
        for (const auto& t : tasks)
        {
            slots.insert(t.slot);
            if (t.tnum < 0 || t.tnum >= static_cast<int64_t>(psize))
            {
                c.violation("C17|worker-id|out-of-range", J("worker-id").kv("tnum", static_cast<long long>(t.tnum)));
                break;
            }
        }
        multi_worker_call = multi_worker_call || slots.size() >= 2;

        // barrier (online part): when map returned, everything that started had ended
        c.count("clause_barrier");
        if (call.started_at_ret != call.ended_at_ret)
        {
            c.violation("C17|barrier|task-running-after-map-returned", J("barrier").kv("started", static_cast<long long>(call.started_at_ret)).kv("ended", static_cast<long long>(call.ended_at_ret)));
        }
        // nothing of this call may start after map returned either
        if (call.started.load(RLX) != call.started_at_ret)
        {
            c.violation("C17|barrier|task-started-after-map-returned", J("barrier"));
        }
        if (!is_tsan)
        {
            // clock-based clauses (the logical clock is sequentially consistent in this flavour)
            for (const auto& t : tasks)
            {
                if (!t.ended || t.t1 > ret_clock || t.t0 < call_clock)
                {
                    c.violation("C17|barrier|trace-order", J("barrier").kv("task_begin", static_cast<long long>(t.b)).kv("ended", t.ended));
                    break;
                }
            }
            // overlap: same worker id, same call, intersecting intervals
            c.count("clause_overlap", static_cast<int64_t>(tasks.size()));
            std::vector<const task_t*> sorted;
            for (const auto& t : tasks)
            {
                sorted.push_back(&t);
            }
            std::sort(sorted.begin(), sorted.end(), [](const task_t* a, const task_t* b) { return a->tnum != b->tnum ? a->tnum < b->tnum : a->t0 < b->t0; });
            for (size_t i = 1; i < sorted.size(); ++i)
            {
                if (sorted[i]->tnum == sorted[i - 1]->tnum && sorted[i]->t0 < sorted[i - 1]->t1)
                {
                    c.violation("C17|overlap|same-worker-id-concurrently", J("overlap").kv("tnum", static_cast<long long>(sorted[i]->tnum)));
                    break;
                }
            }
        }
        else
        {
            // without a synchronising clock: two tasks of one call with the same worker id must come from one thread
            c.count("clause_overlap", static_cast<int64_t>(tasks.size()));
            std::map<int64_t, int> slot_of;
            for (const auto& t : tasks)
            {
                const auto it = slot_of.find(t.tnum);
                if (it == slot_of.end())
                {
                    slot_of[t.tnum] = t.slot;
                }
                else if (it->second != t.slot)
                {
                    c.violation("C17|overlap|worker-id-shared-by-two-threads", J("overlap").kv("tnum", static_cast<long long>(t.tnum)));
                    break;
                }
            }
        }

        // re-throw
        if (any_throw && (call.raise || serial))
        {
            c.count("clause_rethrow");
        }
        if (!call.threw_expected_type)
        {
            c.violation("C17|rethrow|foreign-exception", J("rethrow"));
        }
        if (any_throw && call.raise && !call.threw)
        {
            c.violation("C17|rethrow|exception-swallowed", J("rethrow"));
        }
        if (!any_throw && call.threw)
        {
            c.violation("C17|rethrow|spurious-exception", J("rethrow"));
        }
    }

    // shutdown (trace part): every worker reported its exit before the joins were over, nothing ran after the destructor
    uint64_t dtor_ret = 0, dtor_call = 0;
    int      exits = 0;
    for (const auto& ev : trace)
    {
        if (ev.kind == k_dtor_ret)
        {
            dtor_ret = ev.clock;
        }
        else if (ev.kind == k_dtor_call)
        {
            dtor_call = ev.clock;
        }
        else if (ev.kind == k_point && ev.a == nano::verif::worker_exit)
        {
            ++exits;
        }
    }
    c.count("clause_shutdown_trace");
    if (exits != static_cast<int>(psize))
    {
        c.violation("C17|shutdown|worker-exit-count", base("shutdown").kv("exits", exits));
    }
    if (!is_tsan)
    {
        for (const auto& ev : trace)
        {
            if (ev.clock > dtor_ret && (ev.kind == k_btask_begin || ev.kind == k_btask_end || ev.kind == k_task_begin || ev.kind == k_point))
            {
                c.violation("C17|shutdown|activity-after-destructor", base("shutdown").kv("kind", ev.kind).kv("a", ev.a));
                break;
            }
        }
    }
    (void)dtor_call;

    // ---- coverage bookkeeping ---------------------------------------------------------------------------------
    std::map<int, int> order;
    uint64_t           sig = 1469598103934665603ULL;
    bool               seen_points[64] = {false};
    for (const auto& ev : trace)
    {
        const auto it   = order.find(ev.slot);
        const int  role = it == order.end() ? (order[ev.slot] = static_cast<int>(order.size())) : it->second;
        if (ev.kind == k_point)
        {
            sig = (sig ^ static_cast<uint64_t>(ev.a * 64 + role)) * 1099511628211ULL;
            if (ev.a >= 0 && ev.a < 64)
            {
                seen_points[ev.a] = true;
            }
        }
        else
        {
            sig = (sig ^ static_cast<uint64_t>(1000 + ev.kind * 64 + role)) * 1099511628211ULL;
        }
    }
    for (int p = 0; p < 64; ++p)
    {
        if (seen_points[p])
        {
            c.count(std::string("point_seen:") + point_name(p));
        }
    }
    c.count("tasks_run", static_cast<int64_t>(tasks_total));
    c.count("map_calls", static_cast<int64_t>(calls.size()));
    c.count("burst_tasks", burst);
    c.count("broken_promises", broken);
    c.count("burst_exceptions_rethrown", rethrown);
    c.count(std::string("shutdown_variant:") + std::to_string(shutdown));
    c.count(std::string("delay_mode:") + std::to_string(delay_mode));
    c.maxc("threads_in_one_scenario", nlogs);
    (void)notready;
    (void)nworkers_seen;

    if (multi_worker_call && delays > 0)
    {
        c.nontrivial(sig);
    }
    if (multi_worker_call && c.want_sample())
    {
        vf::json_t               j;
        std::vector<std::string> head;
        for (size_t i = 0; i < trace.size() && head.size() < 48; ++i)
        {
            const auto&        ev = trace[i];
            std::ostringstream s;
            s << "T" << order[ev.slot] << ":";
            switch (ev.kind)
            {
            case k_point: s << point_name(ev.a); break;
            case k_task_begin: s << "task.begin(call=" << ev.a << ",[" << ev.b << "," << ev.c << "),tnum=" << ev.d << ")"; break;
            case k_task_end: s << "task.end(call=" << ev.a << ",[" << ev.b << "," << ev.c << "))"; break;
            case k_map_call: s << "map.call(" << ev.a << ")"; break;
            case k_map_ret: s << "map.ret(" << ev.a << ",threw=" << ev.b << ")"; break;
            case k_enq_call: s << "enqueue.call(" << ev.a << ")"; break;
            case k_enq_ret: s << "enqueue.ret(" << ev.a << ")"; break;
            case k_btask_begin: s << "btask.begin(" << ev.a << ",tnum=" << ev.d << ")"; break;
            case k_btask_end: s << "btask.end(" << ev.a << ")"; break;
            case k_dtor_call: s << "pool.dtor.call"; break;
            case k_dtor_ret: s << "pool.dtor.ret"; break;
            default: break;
            }
            head.push_back(s.str());
        }
        j.kv("pool", psize).kv("submitters", nsub).kv("map_calls", calls.size()).kv("burst", burst).kv("shutdown_variant", shutdown);
        j.kv("delay_mode", delay_mode).kv("events", trace.size()).kv("delays", static_cast<long long>(delays));
        j.strs("trace_head", head);
        c.sample(j);
    }
}
} // namespace

int main(int argc, char** argv)
{
    const auto args = vf::parse_args(argc, argv);
    nano::verif::pool_hook().store(&hook);
    std::thread(watchdog).detach();
    return vf::run(args, "C17",
                   "scenario = (pool size 1..16, 1..4 submitters x 1..3 map calls (index|chunk, 0..5000 elements, throwing pattern, raise), "
                   "enqueue burst 0..40 from 1..2 threads, shutdown variant idle|await|queued|busy|throwing, delay pattern 0..7 at the unlocked "
                   "schedule points); non-trivial: >= 2 threads ran tasks of one map call and >= 1 delay was injected; distinct by the "
                   "interleaving signature (hash of the merged order of (schedule point | task event, thread role))",
                   run_case);
}
