// C14 - feature scaling is invertible; the un-scaled linear model is the same predictor.
//
// Monitor: the harness owns the data (a shadow of every feature value and of every missing entry), builds a real
// datasource/dataset from it and observes, at the API boundary,
//   scalar_stats_t::make_flatten_stats / make_targets_stats / make_feature_stats, scalar_stats_t::scale / upscale
//   (2d and 4d), flatten_iterator_t::loop (scaled inputs and targets, cached or not), nano::upscale(W, b),
//   linear::predict and linear_t::predict (model loaded from a stream that carries the converted W, b).
// Oracle: column statistics recomputed by the harness in long double (two passes, missing values ignored), the
// column kinds (categorical / continuous) from the harness' own layout of the flatten matrix, and the algebraic
// identities of the statement (round trip - also for held-out values the statistics were not computed from -,
// advertised range / mean / deviation, missing => 0, categorical untouched, prediction of the converted model on raw
// inputs == up-scaled prediction of the original model on scaled inputs).
// The library is never asked for an expected value.  Modes: `stats` (statistics + scaling), `model` (W, b conversion).
//
// Keys: C14|finite-statistics|<field>, C14|statistics|<samples|min|max|mean|stdev|size>,
//       C14|round-trip|<mode>|<where>, C14|missing-to-zero|<mode>|<where>, C14|categorical-rescaled|<mode>|<where>,
//       C14|scaled-not-finite|<mode>|<where>, C14|advertised|<mode>-<statistic>|<where>,
//       C14|model-algebra|<direct|linear_t>|inputs-<mode>|targets-<mode>
//       with <where> in flatten|targets|feature (+ "-heldout") | iterator-flatten | iterator-targets.
#include "common/vf.h"
#include <algorithm>
#include <limits>
#include <nano/core/stream.h>
#include <nano/dataset.h>
#include <nano/dataset/iterator.h>
#include <nano/dataset/stats.h>
#include <nano/generator/elemwise_identity.h>
#include <nano/linear.h>
#include <nano/linear/util.h>
#include <nano/tensor/stream.h>
#include <sstream>

using namespace nano;

namespace
{
constexpr double NaN = std::numeric_limits<double>::quiet_NaN();
constexpr double EPS = std::numeric_limits<double>::epsilon();

// the denominators of the library are guarded by max(., 1e-8) (documented: "numerically stable denominator"):
// the advertised range / deviation can only be expected from columns that are clear of the guard.
constexpr double GUARD = 2e-8;

const scaling_type MODES[4]      = {scaling_type::none, scaling_type::mean, scaling_type::minmax, scaling_type::standard};
const char* const  MODE_NAMES[4] = {"none", "mean", "minmax", "standard"};

// worst observed error in parts-per-million of the allowed one (reported as a maximum in the evidence)
int64_t ppm(double error, double tolerance)
{
    const double ratio = 1e6 * error / tolerance;
    return std::isfinite(ratio) ? static_cast<int64_t>(std::min(ratio, 1e15)) : (error == 0.0 ? 0 : static_cast<int64_t>(1e15));
}

// ---------------------------------------------------------------------------------------------------------------
// shadow data: what the harness put into the datasource

struct sfeature_t
{
    feature_t                        feature;
    int                              kind{0};  // 0 scalar, 1 sclass, 2 mclass, 3 struct
    int                              comps{1}; // scalar: 1, sclass/mclass: classes, struct: components
    std::vector<std::vector<double>> values;   // [sample][component]; empty => missing
    std::vector<std::string>         gens;     // how each component (or the labels) was generated
    std::string                      presence;

    int flatten_columns() const { return kind == 1 ? comps - 1 : comps; }

    int target_columns() const { return comps; }

    bool categorical() const { return kind == 1 || kind == 2; }
};

struct shadow_t
{
    int                     samples{0};
    std::vector<sfeature_t> features;
    int                     target{-1};
};

class shadow_ds_t final : public datasource_t
{
public:
    explicit shadow_ds_t(const shadow_t& shadow)
        : datasource_t("shadow")
        , m_shadow(shadow)
    {
    }

    rdatasource_t clone() const override { return std::make_unique<shadow_ds_t>(*this); }

private:
    void do_load() override
    {
        features_t features;
        for (const auto& f : m_shadow.features)
        {
            features.push_back(f.feature);
        }
        if (m_shadow.target >= 0)
        {
            resize(m_shadow.samples, features, static_cast<size_t>(m_shadow.target));
        }
        else
        {
            resize(m_shadow.samples, features);
        }
        for (tensor_size_t s = 0; s < m_shadow.samples; ++s)
        {
            for (size_t k = 0; k < m_shadow.features.size(); ++k)
            {
                const auto& f = m_shadow.features[k];
                const auto& v = f.values[static_cast<size_t>(s)];
                if (v.empty())
                {
                    continue;
                }
                const auto ik = static_cast<tensor_size_t>(k);
                if (f.kind == 1)
                {
                    set(s, ik, static_cast<int64_t>(v[0]));
                }
                else if (f.kind == 2)
                {
                    tensor_mem_t<int8_t, 1> hits(f.comps);
                    for (int c = 0; c < f.comps; ++c)
                    {
                        hits(c) = static_cast<int8_t>(v[static_cast<size_t>(c)]);
                    }
                    set(s, ik, hits);
                }
                else if (f.kind == 0)
                {
                    set(s, ik, v[0]);
                }
                else
                {
                    tensor_mem_t<double, 3> t(f.feature.dims());
                    for (int c = 0; c < f.comps; ++c)
                    {
                        t(c) = v[static_cast<size_t>(c)];
                    }
                    set(s, ik, t);
                }
            }
        }
    }

    const shadow_t& m_shadow;
};

// a dense row-major matrix of the harness (NaN = missing)
struct mat_t
{
    int                 rows{0}, cols{0};
    std::vector<double> data;

    mat_t() = default;

    mat_t(int r, int c)
        : rows(r)
        , cols(c)
        , data(static_cast<size_t>(r) * static_cast<size_t>(c), NaN)
    {
    }

    double& operator()(int r, int c) { return data[static_cast<size_t>(r) * static_cast<size_t>(cols) + static_cast<size_t>(c)]; }

    double operator()(int r, int c) const { return data[static_cast<size_t>(r) * static_cast<size_t>(cols) + static_cast<size_t>(c)]; }

    std::vector<double> column(int c) const
    {
        std::vector<double> v(static_cast<size_t>(rows));
        for (int r = 0; r < rows; ++r)
        {
            v[static_cast<size_t>(r)] = (*this)(r, c);
        }
        return v;
    }
};

struct colinfo_t
{
    bool        categorical{false};
    std::string gen;     // generator label of the column
    int         feature{-1}; // shadow feature index
};

// reference statistics of one column (present values only), two passes in long double
struct ref_t
{
    long   n{0};
    double min{0}, max{0}, mean{0}, stdev{0}, amax{0};
    bool   distinct2{false};

    double range() const { return max - min; }

    // the columns for which the single-pass variance of the library is meaningful and the guards are inactive
    bool judged_range() const { return n >= 2 && distinct2 && range() >= 1e-6 * amax && range() >= GUARD; }

    // NB: for the deviation the relative spread is measured on the deviation itself: with stdev < 1e-6 |values| the
    // one-pass variance (sum of squares - squared sum / N) has no correct digit left (it may even be clamped to 0).
    bool judged_stdev() const { return judged_range() && stdev >= GUARD && stdev >= 1e-6 * amax; }

    // worst-case relative error of a one-pass (sum, sum of squares) deviation in double precision, with margin
    double tol_stdev() const { return 1e-9 + 4.0 * static_cast<double>(n) * EPS * (1.0 + (mean / stdev) * (mean / stdev)); }

    double tol_mean() const { return 4.0 * static_cast<double>(n) * EPS * amax + 1e-300; }
};

ref_t make_ref(const std::vector<double>& column)
{
    ref_t       r;
    long double sum = 0;
    bool        first = true;
    for (const auto x : column)
    {
        if (!std::isfinite(x))
        {
            continue;
        }
        if (first)
        {
            r.min = r.max = x;
            first         = false;
        }
        r.min       = std::min(r.min, x);
        r.max       = std::max(r.max, x);
        r.amax      = std::max(r.amax, std::fabs(x));
        sum += x;
        ++r.n;
    }
    if (r.n > 0)
    {
        const long double mean = sum / static_cast<long double>(r.n);
        long double       ssq  = 0;
        for (const auto x : column)
        {
            if (std::isfinite(x))
            {
                ssq += (x - mean) * (x - mean);
            }
        }
        r.mean  = static_cast<double>(mean);
        r.stdev = r.n > 1 ? static_cast<double>(std::sqrt(ssq / static_cast<long double>(r.n - 1))) : 0.0;
    }
    r.distinct2 = r.min != r.max;
    return r;
}

// ---------------------------------------------------------------------------------------------------------------
// generators

std::vector<double> gen_values(vf::rng_t& rng, int n, std::string& label, bool integers_only)
{
    std::vector<double> v(static_cast<size_t>(n));
    const double        sign = rng.chance(0.5) ? 1.0 : -1.0;
    const double        amag = rng.loguniform(1e-6, 1e6);
    const double        mag  = sign * amag;
    auto                kind = rng.integer(0, 11);
    if (integers_only)
    {
        kind = rng.chance(0.7) ? 5 : 2;
    }
    switch (kind)
    {
    case 0:
    case 1:
        label = "centered";
        for (auto& x : v)
        {
            x = amag * rng.normal();
        }
        break;
    case 2:
    {
        label         = "constant";
        const auto r  = rng.integer(0, 5);
        double     cv = mag;
        if (integers_only || r == 0)
        {
            cv = std::round(sign * rng.loguniform(1.0, 1e6));
        }
        else if (r == 1)
        {
            cv = 0.0;
        }
        for (auto& x : v)
        {
            x = cv;
        }
        break;
    }
    case 3:
    {
        label             = "near-constant";
        const double noise = amag * std::pow(10.0, rng.uniform(-16.0, -6.0));
        for (auto& x : v)
        {
            x = mag + noise * rng.normal();
        }
        break;
    }
    case 4:
    {
        label          = "two-values";
        const double a = mag;
        const double b = rng.chance(0.5) ? mag * (1.0 + rng.loguniform(1e-12, 1.0)) : sign * rng.loguniform(1e-6, 1e6);
        for (auto& x : v)
        {
            x = rng.chance(0.5) ? a : b;
        }
        break;
    }
    case 5:
    {
        label        = "integer";
        const auto k = rng.pick(std::vector<int64_t>{1, 2, 10, 100, 100000});
        const auto o = rng.chance(0.3) ? rng.integer(-1000000, 1000000) : 0;
        for (auto& x : v)
        {
            x = static_cast<double>(o + rng.integer(-k, k));
        }
        break;
    }
    case 6:
    {
        label = "outlier";
        for (auto& x : v)
        {
            x = mag;
        }
        v[static_cast<size_t>(rng.integer(0, n - 1))] = mag + amag * rng.loguniform(1e-9, 1e3) * (rng.chance(0.5) ? 1.0 : -1.0);
        break;
    }
    case 7:
    {
        // range below the epsilon guard of the library
        label             = "tiny-range";
        const double base = sign * rng.loguniform(1e-6, 1e-2);
        const double w    = rng.loguniform(1e-13, 1e-8);
        for (auto& x : v)
        {
            x = base + w * rng.uniform(-1.0, 1.0);
        }
        break;
    }
    case 8:
    {
        // near-constant around a large offset: where the one-pass variance cancels catastrophically
        label              = "large-offset";
        const double base  = sign * rng.loguniform(1e3, 1e6);
        const double noise = rng.loguniform(1e-9, 1.0);
        for (auto& x : v)
        {
            x = base + noise * rng.normal();
        }
        break;
    }
    case 9:
    {
        label             = "uniform";
        const double lo   = mag;
        const double span = amag * rng.loguniform(1e-4, 10.0);
        for (auto& x : v)
        {
            x = lo + span * rng.u01();
        }
        break;
    }
    default:
    {
        label              = "offset";
        const double noise = amag * rng.loguniform(1e-3, 1.0);
        for (auto& x : v)
        {
            x = mag + noise * rng.normal();
        }
        break;
    }
    }
    return v;
}

// which samples of a feature are present
std::vector<char> gen_presence(vf::rng_t& rng, int n, std::string& label, double p_missing_feature)
{
    std::vector<char> p(static_cast<size_t>(n), 1);
    const auto        r = !rng.chance(p_missing_feature) ? 0 : rng.integer(7, 19);
    if (r < 7)
    {
        label = "full";
    }
    else if (r < 16)
    {
        label         = "random";
        const auto pm = rng.uniform(0.02, 0.6);
        for (auto& x : p)
        {
            x = rng.chance(pm) ? 0 : 1;
        }
    }
    else if (r < 18)
    {
        label = "single";
        std::fill(p.begin(), p.end(), 0);
        p[static_cast<size_t>(rng.integer(0, n - 1))] = 1;
    }
    else if (r < 19)
    {
        label = "all-missing";
        std::fill(p.begin(), p.end(), 0);
    }
    else
    {
        label = "two-present";
        std::fill(p.begin(), p.end(), 0);
        p[static_cast<size_t>(rng.integer(0, n - 1))] = 1;
        p[static_cast<size_t>(rng.integer(0, n - 1))] = 1;
    }
    return p;
}

// kind: 0 scalar, 1 sclass, 2 mclass, 3 struct; `comps` as in sfeature_t
sfeature_t gen_feature(vf::rng_t& rng, int n, const std::string& name, int kind, int comps, double p_missing_feature)
{
    sfeature_t f;
    f.kind  = kind;
    f.comps = comps;
    f.values.resize(static_cast<size_t>(n));
    const auto present = gen_presence(rng, n, f.presence, p_missing_feature);

    if (kind == 1)
    {
        f.feature          = feature_t{name}.sclass(static_cast<size_t>(comps));
        const bool constant = rng.chance(0.15);
        const auto label0   = rng.integer(0, comps - 1);
        f.gens.assign(1, constant ? "sclass-constant" : "sclass");
        for (int s = 0; s < n; ++s)
        {
            if (present[static_cast<size_t>(s)] != 0)
            {
                f.values[static_cast<size_t>(s)] = {static_cast<double>(constant ? label0 : rng.integer(0, comps - 1))};
            }
        }
    }
    else if (kind == 2)
    {
        f.feature = feature_t{name}.mclass(static_cast<size_t>(comps));
        f.gens.assign(1, "mclass");
        const auto p1 = rng.uniform(0.1, 0.9);
        for (int s = 0; s < n; ++s)
        {
            if (present[static_cast<size_t>(s)] != 0)
            {
                auto& v = f.values[static_cast<size_t>(s)];
                v.resize(static_cast<size_t>(comps));
                for (auto& x : v)
                {
                    x = rng.chance(p1) ? 1.0 : 0.0;
                }
            }
        }
    }
    else
    {
        // storage type: the shadow holds exactly what the storage can represent
        const auto st      = rng.integer(0, 19);
        const auto type    = st < 15 ? feature_type::float64 : st < 18 ? feature_type::float32 : feature_type::int32;
        const auto dims    = kind == 0 ? make_dims(1, 1, 1) : comps % 2 == 0 && comps > 2 ? make_dims(comps / 2, 2, 1) : make_dims(comps, 1, 1);
        f.feature          = feature_t{name}.scalar(type, dims);
        f.gens.resize(static_cast<size_t>(comps));
        std::vector<std::vector<double>> columns;
        for (int c = 0; c < comps; ++c)
        {
            columns.push_back(gen_values(rng, n, f.gens[static_cast<size_t>(c)], type == feature_type::int32));
            if (type == feature_type::float32)
            {
                for (auto& x : columns.back())
                {
                    x = static_cast<double>(static_cast<float>(x));
                }
                f.gens[static_cast<size_t>(c)] += "/f32";
            }
            else if (type == feature_type::int32)
            {
                f.gens[static_cast<size_t>(c)] += "/i32";
            }
        }
        for (int s = 0; s < n; ++s)
        {
            if (present[static_cast<size_t>(s)] != 0)
            {
                auto& v = f.values[static_cast<size_t>(s)];
                v.resize(static_cast<size_t>(comps));
                for (int c = 0; c < comps; ++c)
                {
                    v[static_cast<size_t>(c)] = columns[static_cast<size_t>(c)][static_cast<size_t>(s)];
                }
            }
        }
    }
    return f;
}

// 1..20 flatten columns of mixed kinds (+ optionally a target feature, placed at a random position)
// target_kind: -1 none, 0 continuous, 1 categorical; p_missing_feature: probability that a feature has missing values
shadow_t gen_shadow(vf::rng_t& rng, int target_kind, double p_missing_feature)
{
    shadow_t sh;
    sh.samples        = static_cast<int>(rng.chance(0.12) ? rng.integer(1, 3) : rng.integer(1, 300));
    const int columns = static_cast<int>(rng.chance(0.15) ? rng.integer(1, 2) : rng.integer(1, 20));
    const int flavour = static_cast<int>(rng.integer(0, 9)); // 0,1: continuous only; 2: mostly categorical; else mixed
    int       used    = 0;
    int       index   = 0;
    while (used < columns)
    {
        const int left = columns - used;
        int       kind = 0;
        const auto r   = rng.integer(0, 9);
        if (flavour <= 1)
        {
            kind = r < 7 ? 0 : 3;
        }
        else if (flavour == 2)
        {
            kind = r < 4 ? 1 : r < 8 ? 2 : 0;
        }
        else
        {
            kind = r < 5 ? 0 : r < 7 ? 3 : r < 9 ? 1 : 2;
        }
        int comps = 1;
        if (kind == 1)
        {
            comps = 1 + static_cast<int>(rng.integer(1, std::min(left, 4))); // classes - 1 columns
        }
        else if (kind == 2)
        {
            comps = static_cast<int>(rng.integer(1, std::min(left, 4)));
        }
        else if (kind == 3)
        {
            if (left < 2)
            {
                kind = 0;
            }
            else
            {
                comps = static_cast<int>(rng.integer(2, std::min(left, 6)));
            }
        }
        auto f = gen_feature(rng, sh.samples, "f" + std::to_string(index++), kind, comps, p_missing_feature);
        used += f.flatten_columns();
        sh.features.push_back(std::move(f));
    }
    if (target_kind >= 0)
    {
        int kind = 0, comps = 1;
        if (target_kind == 0)
        {
            comps = static_cast<int>(rng.integer(1, 5));
            kind  = comps == 1 ? 0 : 3;
        }
        else
        {
            kind  = rng.chance(0.5) ? 1 : 2;
            comps = static_cast<int>(kind == 1 ? rng.integer(2, 5) : rng.integer(1, 5));
        }
        // NB: the datasource rejects optional targets ("the target cannot be optional"): targets are always given
        auto       f   = gen_feature(rng, sh.samples, "target", kind, comps, 0.0);
        const auto pos = static_cast<size_t>(rng.integer(0, static_cast<int64_t>(sh.features.size())));
        sh.features.insert(sh.features.begin() + static_cast<std::ptrdiff_t>(pos), std::move(f));
        sh.target = static_cast<int>(pos);
    }
    return sh;
}

// ---------------------------------------------------------------------------------------------------------------
// the harness' own layout of the flatten matrix: generators in the order they were added, each forwarding the
// input features of its kind in datasource order

struct layout_t
{
    std::vector<int>       dataset_features; // dataset feature index -> shadow feature index
    std::vector<colinfo_t> columns;          // flatten column -> info
    std::vector<int>       column_comp;      // flatten column -> component within the feature
};

layout_t make_layout(const shadow_t& sh, const std::vector<int>& generator_order)
{
    layout_t l;
    for (const auto gkind : generator_order)
    {
        for (size_t k = 0; k < sh.features.size(); ++k)
        {
            const auto& f = sh.features[k];
            if (static_cast<int>(k) == sh.target || f.kind != gkind)
            {
                continue;
            }
            l.dataset_features.push_back(static_cast<int>(k));
            for (int c = 0; c < f.flatten_columns(); ++c)
            {
                colinfo_t info;
                info.categorical = f.categorical();
                info.gen         = (f.categorical() ? f.gens[0] : f.gens[static_cast<size_t>(c)]) + "|" + f.presence;
                info.feature     = static_cast<int>(k);
                l.columns.push_back(info);
                l.column_comp.push_back(c);
            }
        }
    }
    return l;
}

mat_t make_flatten(const shadow_t& sh, const layout_t& l, const std::vector<int>& samples)
{
    mat_t m(static_cast<int>(samples.size()), static_cast<int>(l.columns.size()));
    for (int i = 0; i < m.rows; ++i)
    {
        for (int col = 0; col < m.cols; ++col)
        {
            const auto& f = sh.features[static_cast<size_t>(l.columns[static_cast<size_t>(col)].feature)];
            const auto& v = f.values[static_cast<size_t>(samples[static_cast<size_t>(i)])];
            const auto  c = l.column_comp[static_cast<size_t>(col)];
            if (v.empty())
            {
                continue;
            }
            if (f.kind == 1)
            {
                m(i, col) = static_cast<int>(v[0]) == c ? +1.0 : -1.0;
            }
            else if (f.kind == 2)
            {
                m(i, col) = 2.0 * v[static_cast<size_t>(c)] - 1.0;
            }
            else
            {
                m(i, col) = v[static_cast<size_t>(c)];
            }
        }
    }
    return m;
}

mat_t make_targets(const shadow_t& sh, const std::vector<int>& samples)
{
    const auto& f = sh.features[static_cast<size_t>(sh.target)];
    mat_t       m(static_cast<int>(samples.size()), f.target_columns());
    for (int i = 0; i < m.rows; ++i)
    {
        const auto& v = f.values[static_cast<size_t>(samples[static_cast<size_t>(i)])];
        if (v.empty())
        {
            continue;
        }
        for (int c = 0; c < m.cols; ++c)
        {
            m(i, c) = f.kind == 1 ? (static_cast<int>(v[0]) == c ? +1.0 : -1.0) : f.kind == 2 ? 2.0 * v[static_cast<size_t>(c)] - 1.0 : v[static_cast<size_t>(c)];
        }
    }
    return m;
}

mat_t make_feature_values(const shadow_t& sh, int feature, const std::vector<int>& samples)
{
    const auto& f = sh.features[static_cast<size_t>(feature)];
    mat_t       m(static_cast<int>(samples.size()), f.comps);
    for (int i = 0; i < m.rows; ++i)
    {
        const auto& v = f.values[static_cast<size_t>(samples[static_cast<size_t>(i)])];
        for (int c = 0; c < m.cols && !v.empty(); ++c)
        {
            m(i, c) = v[static_cast<size_t>(c)];
        }
    }
    return m;
}

bool same(double a, double b)
{
    return (std::isnan(a) && std::isnan(b)) || a == b;
}

template <class ttensor>
bool same_matrix(const mat_t& m, const ttensor& t)
{
    if (t.size() != static_cast<tensor_size_t>(m.data.size()))
    {
        return false;
    }
    for (tensor_size_t i = 0; i < t.size(); ++i)
    {
        if (!same(t(i), m.data[static_cast<size_t>(i)]))
        {
            return false;
        }
    }
    return true;
}

tensor2d_t to_tensor(const mat_t& m)
{
    tensor2d_t t(m.rows, m.cols);
    for (tensor_size_t i = 0; i < t.size(); ++i)
    {
        t(i) = m.data[static_cast<size_t>(i)];
    }
    return t;
}

template <class ttensor>
mat_t to_mat(const ttensor& t, int rows, int cols)
{
    mat_t m(rows, cols);
    for (tensor_size_t i = 0; i < t.size(); ++i)
    {
        m.data[static_cast<size_t>(i)] = t(i);
    }
    return m;
}

indices_t to_indices(const std::vector<int>& samples)
{
    indices_t idx(static_cast<tensor_size_t>(samples.size()));
    for (size_t i = 0; i < samples.size(); ++i)
    {
        idx(static_cast<tensor_size_t>(i)) = samples[i];
    }
    return idx;
}

std::vector<int> gen_samples(vf::rng_t& rng, int n)
{
    std::vector<int> s;
    const auto       r = rng.integer(0, 9);
    if (r < 4)
    {
        for (int i = 0; i < n; ++i)
        {
            s.push_back(i);
        }
    }
    else if (r < 8)
    {
        const auto keep = rng.uniform(0.05, 0.95);
        for (int i = 0; i < n; ++i)
        {
            if (rng.chance(keep))
            {
                s.push_back(i);
            }
        }
        if (s.empty())
        {
            s.push_back(static_cast<int>(rng.integer(0, n - 1)));
        }
    }
    else
    {
        const auto l = rng.integer(1, std::min<int64_t>(300, 2 * n));
        for (int64_t i = 0; i < l; ++i)
        {
            s.push_back(static_cast<int>(rng.integer(0, n - 1)));
        }
    }
    return s;
}

// ---------------------------------------------------------------------------------------------------------------
// oracle clauses

struct view_t
{
    std::string            where; // flatten | targets | feature | iterator-flatten | iterator-targets
    const mat_t*           raw{nullptr};
    std::vector<colinfo_t> columns;
    std::vector<ref_t>     refs;   // reference statistics of the data the library's statistics were computed from
    bool                   heldout{false}; // `raw` holds other values than the ones the statistics come from
};

view_t make_view(const std::string& where, const mat_t& raw, std::vector<colinfo_t> columns)
{
    view_t v;
    v.where   = where;
    v.raw     = &raw;
    v.columns = std::move(columns);
    for (int c = 0; c < raw.cols; ++c)
    {
        v.refs.push_back(make_ref(raw.column(c)));
    }
    return v;
}

vf::json_t witness_column(const view_t& view, int col)
{
    const auto  values = view.raw->column(col);
    const auto& r      = view.refs[static_cast<size_t>(col)];
    vf::json_t  j;
    j.kv("where", view.where).kv("column", col).kv("columns", view.raw->cols).kv("rows", view.raw->rows);
    j.kv("column_kind", view.columns[static_cast<size_t>(col)].gen).kv("categorical", view.columns[static_cast<size_t>(col)].categorical);
    j.kv("ref_present", r.n).kv("ref_min", r.min).kv("ref_max", r.max).kv("ref_mean", r.mean).kv("ref_stdev", r.stdev);
    j.arr("values", values.data(), values.size(), 48);
    return j;
}

// every stored statistic is finite, counts/min/max/mean/stdev agree with the reference over the present values.
// returns false when the statistics are unusable (non-finite or of the wrong size): later clauses would only cascade.
bool check_stats(vf::ctx_t& c, const view_t& view, const scalar_stats_t& stats)
{
    const auto cols = static_cast<tensor_size_t>(view.raw->cols);
    c.count("stats_objects");
    if (stats.m_samples.size() != cols || stats.m_min.size() != cols || stats.m_max.size() != cols || stats.m_mean.size() != cols ||
        stats.m_stdev.size() != cols || stats.m_div_range.size() != cols || stats.m_mul_range.size() != cols ||
        stats.m_div_stdev.size() != cols || stats.m_mul_stdev.size() != cols)
    {
        c.violation("C14|statistics|size", vf::json_t().kv("where", view.where).kv("columns", static_cast<long long>(cols)).kv("got", static_cast<long long>(stats.m_min.size())));
        return false;
    }

    const tensor1d_t* const fields[] = {&stats.m_min, &stats.m_max, &stats.m_mean, &stats.m_stdev, &stats.m_div_range, &stats.m_mul_range, &stats.m_div_stdev, &stats.m_mul_stdev};
    const char* const       names[]  = {"min", "max", "mean", "stdev", "div_range", "mul_range", "div_stdev", "mul_stdev"};
    for (tensor_size_t col = 0; col < cols; ++col)
    {
        c.count("finite_statistics_columns");
        for (int f = 0; f < 8; ++f)
        {
            const auto value = (*fields[f])(col);
            if (!std::isfinite(value))
            {
                auto j = witness_column(view, static_cast<int>(col));
                j.kv("field", names[f]).kv("got", value);
                j.kv("lib_mean", stats.m_mean(col)).kv("lib_stdev", stats.m_stdev(col)).kv("lib_div_stdev", stats.m_div_stdev(col)).kv("lib_mul_stdev", stats.m_mul_stdev(col));
                c.violation(std::string("C14|finite-statistics|") + names[f], j);
                return false;
            }
        }
    }

    for (tensor_size_t col = 0; col < cols; ++col)
    {
        const auto& r    = view.refs[static_cast<size_t>(col)];
        const auto& info = view.columns[static_cast<size_t>(col)];
        const auto  bad  = [&](const char* what, double got, double expected, double tol)
        {
            auto j = witness_column(view, static_cast<int>(col));
            j.kv("statistic", what).kv("got", got).kv("expected", expected).kv("tolerance", tol);
            c.violation(std::string("C14|statistics|") + what, j);
        };
        // missing values do not count
        c.count("statistics_columns");
        if (stats.m_samples(col) != static_cast<tensor_size_t>(r.n))
        {
            bad("samples", static_cast<double>(stats.m_samples(col)), static_cast<double>(r.n), 0.0);
            continue;
        }
        if (info.categorical || r.n == 0)
        {
            // categorical: judged behaviourally (never rescaled); no present value: nothing the statement fixes
            continue;
        }
        if (stats.m_min(col) != r.min)
        {
            bad("min", stats.m_min(col), r.min, 0.0);
        }
        if (stats.m_max(col) != r.max)
        {
            bad("max", stats.m_max(col), r.max, 0.0);
        }
        c.maxc("ppm_of_tolerance_statistics_mean", ppm(std::fabs(stats.m_mean(col) - r.mean), r.tol_mean()));
        if (!(std::fabs(stats.m_mean(col) - r.mean) <= r.tol_mean()))
        {
            bad("mean", stats.m_mean(col), r.mean, r.tol_mean());
        }
        if (r.judged_stdev())
        {
            c.count("statistics_stdev_judged");
            c.maxc("ppm_of_tolerance_statistics_stdev", ppm(std::fabs(stats.m_stdev(col) / r.stdev - 1.0), r.tol_stdev()));
            if (!(std::fabs(stats.m_stdev(col) / r.stdev - 1.0) <= r.tol_stdev()))
            {
                bad("stdev", stats.m_stdev(col), r.stdev, r.tol_stdev());
            }
        }
    }
    return true;
}

// clauses on one scaled matrix (mode given): missing => exactly 0, finite stays finite, categorical untouched,
// advertised range / mean / deviation; then the round trip through `upscale`.
template <class tupscale>
void check_scaled(vf::ctx_t& c, const view_t& view, int imode, const mat_t& scaled, const tupscale& upscale)
{
    const auto&       raw  = *view.raw;
    const std::string mode = MODE_NAMES[imode];
    const std::string at   = mode + "|" + view.where;

    for (int col = 0; col < raw.cols; ++col)
    {
        const auto& info = view.columns[static_cast<size_t>(col)];
        const auto& r    = view.refs[static_cast<size_t>(col)];
        bool        ok   = true;
        for (int row = 0; row < raw.rows && ok; ++row)
        {
            const double x = raw(row, col), y = scaled(row, col);
            if (!std::isfinite(x))
            {
                c.count("missing_to_zero_values");
                if (!(y == 0.0))
                {
                    auto j = witness_column(view, col);
                    j.kv("mode", mode).kv("row", row).kv("scaled", y);
                    c.violation("C14|missing-to-zero|" + at, j);
                    ok = false;
                }
            }
            else if (info.categorical)
            {
                c.count("categorical_values");
                if (y != x)
                {
                    auto j = witness_column(view, col);
                    j.kv("mode", mode).kv("row", row).kv("raw", x).kv("scaled", y);
                    c.violation("C14|categorical-rescaled|" + at, j);
                    ok = false;
                }
            }
            else if (!std::isfinite(y))
            {
                auto j = witness_column(view, col);
                j.kv("mode", mode).kv("row", row).kv("raw", x).kv("scaled", y);
                c.violation("C14|scaled-not-finite|" + at, j);
                ok = false;
            }
            else if (imode == 0 && y != x)
            {
                auto j = witness_column(view, col);
                j.kv("mode", mode).kv("row", row).kv("raw", x).kv("scaled", y);
                c.violation("C14|advertised|none-changes-values|" + view.where, j);
                ok = false;
            }
        }
        if (!ok || info.categorical || imode == 0 || view.heldout)
        {
            continue;
        }
        if (!r.judged_range() || (imode == 3 && !r.judged_stdev()))
        {
            c.count(r.n >= 2 && r.distinct2 ? "advertised_skipped_guard_or_spread" : "advertised_skipped_degenerate");
            continue;
        }

        // advertised statistics of the scaled present values
        const auto ys = make_ref([&]
                                 {
                                     std::vector<double> v;
                                     for (int row = 0; row < raw.rows; ++row)
                                     {
                                         if (std::isfinite(raw(row, col)))
                                         {
                                             v.push_back(scaled(row, col));
                                         }
                                     }
                                     return v;
                                 }());
        const auto bad = [&](const char* what, double got, double expected, double tol)
        {
            auto j = witness_column(view, col);
            j.kv("mode", mode).kv("scaled_statistic", what).kv("got", got).kv("expected", expected).kv("tolerance", tol);
            j.kv("scaled_min", ys.min).kv("scaled_max", ys.max).kv("scaled_mean", ys.mean).kv("scaled_stdev", ys.stdev);
            c.violation(std::string("C14|advertised|") + mode + "-" + what + "|" + view.where, j);
        };
        const double n = static_cast<double>(r.n);
        c.count("advertised_columns_" + mode);
        if (imode == 2)
        {
            c.maxc("ppm_of_tolerance_advertised_minmax", ppm(std::max(std::fabs(ys.min), std::fabs(ys.max - 1.0)), 1e-9));
            if (!(std::fabs(ys.min) <= 1e-9))
            {
                bad("min", ys.min, 0.0, 1e-9);
            }
            if (!(std::fabs(ys.max - 1.0) <= 1e-9))
            {
                bad("max", ys.max, 1.0, 1e-9);
            }
        }
        else if (imode == 1)
        {
            const double tol = 1e-9 + 4.0 * n * EPS * r.amax / r.range();
            c.maxc("ppm_of_tolerance_advertised_mean_center", ppm(std::fabs(ys.mean), tol));
            c.maxc("ppm_of_tolerance_advertised_mean_range", ppm(std::fabs(ys.range() - 1.0), 1e-9));
            if (!(std::fabs(ys.mean) <= tol))
            {
                bad("mean", ys.mean, 0.0, tol);
            }
            if (!(std::fabs(ys.range() - 1.0) <= 1e-9))
            {
                bad("range", ys.range(), 1.0, 1e-9);
            }
        }
        else
        {
            const double tol = (1e-9 + 4.0 * n * EPS * r.amax / r.stdev) * (1.0 + r.tol_stdev());
            c.maxc("ppm_of_tolerance_advertised_standard_center", ppm(std::fabs(ys.mean), tol));
            c.maxc("ppm_of_tolerance_advertised_standard_stdev", ppm(std::fabs(ys.stdev - 1.0), r.tol_stdev()));
            if (!(std::fabs(ys.mean) <= tol))
            {
                bad("mean", ys.mean, 0.0, tol);
            }
            if (!(std::fabs(ys.stdev - 1.0) <= r.tol_stdev()))
            {
                bad("stdev", ys.stdev, 1.0, r.tol_stdev());
            }
        }
    }

    // round trip
    const mat_t back = upscale(scaled);
    for (int col = 0; col < raw.cols; ++col)
    {
        const auto& info = view.columns[static_cast<size_t>(col)];
        const auto& r    = view.refs[static_cast<size_t>(col)];
        for (int row = 0; row < raw.rows; ++row)
        {
            const double x = raw(row, col), z = back(row, col);
            if (!std::isfinite(x))
            {
                continue;
            }
            c.count(view.heldout ? "round_trip_values_heldout" : "round_trip_values");
            const double tol = (info.categorical || imode == 0) ? 0.0 : 1e-9 * std::max({std::fabs(x), std::fabs(r.mean), r.range()});
            c.maxc("ppm_of_tolerance_round_trip", ppm(std::fabs(z - x), tol));
            if (!(std::fabs(z - x) <= tol))
            {
                auto j = witness_column(view, col);
                j.kv("mode", mode).kv("row", row).kv("raw", x).kv("scaled", scaled(row, col)).kv("round_trip", z).kv("tolerance", tol);
                c.violation("C14|round-trip|" + at, j);
                break;
            }
        }
    }
}

// values the statistics were NOT computed from (what a model sees at prediction time): the statement promises the
// round trip, missing => 0 and untouched categorical columns for them as well
mat_t make_heldout(vf::rng_t& rng, const view_t& view)
{
    const auto& raw = *view.raw;
    mat_t       m(static_cast<int>(rng.integer(1, 6)), raw.cols);
    for (int col = 0; col < raw.cols; ++col)
    {
        const auto& r    = view.refs[static_cast<size_t>(col)];
        const auto& info = view.columns[static_cast<size_t>(col)];
        for (int row = 0; row < m.rows; ++row)
        {
            const auto k = rng.integer(0, 9);
            if (k == 0)
            {
                continue; // missing
            }
            if (info.categorical)
            {
                m(row, col) = rng.chance(0.5) ? +1.0 : -1.0;
            }
            else if (k < 4)
            {
                // around the column, a few ranges / deviations away
                m(row, col) = r.mean + rng.uniform(-3.0, 3.0) * std::max({r.range(), 1e-3 * std::fabs(r.mean), 1e-6});
            }
            else if (k < 7)
            {
                m(row, col) = (rng.chance(0.5) ? 1.0 : -1.0) * rng.loguniform(1e-6, 1e6);
            }
            else if (k < 9)
            {
                m(row, col) = r.n > 0 ? rng.uniform(r.min, r.max) : 0.0;
            }
            else
            {
                m(row, col) = 0.0;
            }
        }
    }
    return m;
}

view_t heldout_view(const view_t& view, const mat_t& heldout)
{
    view_t v  = view;
    v.raw     = &heldout;
    v.heldout = true;
    v.where   = view.where + "-heldout";
    return v;
}

// scale/upscale through the 2d interface
void check_scaling_2d(vf::ctx_t& c, const view_t& view, const scalar_stats_t& stats)
{
    if (!view.heldout)
    {
        const auto heldout = make_heldout(c.rng, view);
        check_scaling_2d(c, heldout_view(view, heldout), stats);
    }
    const auto& raw = *view.raw;
    for (int imode = 0; imode < 4; ++imode)
    {
        auto values = to_tensor(raw);
        stats.scale(MODES[imode], values.tensor());
        const auto scaled = to_mat(values, raw.rows, raw.cols);
        c.count(view.heldout ? "scale_calls_2d_heldout" : "scale_calls_2d");
        check_scaled(c, view, imode, scaled,
                     [&](const mat_t& m)
                     {
                         auto t = to_tensor(m);
                         stats.upscale(MODES[imode], t.tensor());
                         return to_mat(t, m.rows, m.cols);
                     });
    }
}

// scale/upscale through the 4d interface
void check_scaling_4d(vf::ctx_t& c, const view_t& view, const scalar_stats_t& stats, const tensor3d_dims_t& dims)
{
    if (!view.heldout)
    {
        const auto heldout = make_heldout(c.rng, view);
        check_scaling_4d(c, heldout_view(view, heldout), stats, dims);
    }
    const auto& raw = *view.raw;
    const auto  fill = [&](const mat_t& m)
    {
        tensor4d_t t(cat_dims(static_cast<tensor_size_t>(m.rows), dims));
        for (tensor_size_t i = 0; i < t.size(); ++i)
        {
            t(i) = m.data[static_cast<size_t>(i)];
        }
        return t;
    };
    for (int imode = 0; imode < 4; ++imode)
    {
        auto values = fill(raw);
        stats.scale(MODES[imode], values.tensor());
        const auto scaled = to_mat(values, raw.rows, raw.cols);
        c.count(view.heldout ? "scale_calls_4d_heldout" : "scale_calls_4d");
        check_scaled(c, view, imode, scaled,
                     [&](const mat_t& m)
                     {
                         auto t = fill(m);
                         stats.upscale(MODES[imode], t.tensor());
                         return to_mat(t, m.rows, m.cols);
                     });
    }
}

tensor3d_dims_t target_dims(const sfeature_t& f)
{
    return f.categorical() ? make_dims(f.comps, 1, 1) : f.feature.dims();
}

std::vector<colinfo_t> target_columns(const shadow_t& sh)
{
    const auto&            f = sh.features[static_cast<size_t>(sh.target)];
    std::vector<colinfo_t> columns;
    for (int col = 0; col < f.target_columns(); ++col)
    {
        colinfo_t info;
        info.categorical = f.categorical();
        info.gen         = (f.categorical() ? f.gens[0] : f.gens[static_cast<size_t>(col)]) + "|" + f.presence;
        info.feature     = sh.target;
        columns.push_back(info);
    }
    return columns;
}

// ---------------------------------------------------------------------------------------------------------------
// common set-up of a case

struct setup_t
{
    shadow_t                     shadow;
    std::unique_ptr<shadow_ds_t> datasource;
    std::unique_ptr<dataset_t>   dataset;
    layout_t                     layout;
    std::vector<int>             generator_order;
    std::vector<int>             samples;
    mat_t                        flatten; // expected raw flatten values of `samples`
    mat_t                        targets; // expected raw targets of `samples` (if any)
    size_t                       threads{1};
};

// returns false (inconclusive) when the dataset does not deliver what the shadow holds: that is C08's subject
bool make_setup(vf::ctx_t& c, setup_t& s, int target_kind, double p_missing_feature)
{
    auto& rng = c.rng;
    s.shadow  = gen_shadow(rng, target_kind, p_missing_feature);
    s.datasource = std::make_unique<shadow_ds_t>(s.shadow);
    s.datasource->load();
    s.threads = rng.chance(0.2) ? 2U : 1U;
    s.dataset = std::make_unique<dataset_t>(*s.datasource, s.threads);

    s.generator_order = {0, 1, 2, 3};
    for (size_t i = 3; i > 0; --i)
    {
        std::swap(s.generator_order[i], s.generator_order[static_cast<size_t>(rng.integer(0, static_cast<int64_t>(i)))]);
    }
    for (const auto g : s.generator_order)
    {
        switch (g)
        {
        case 0: s.dataset->add<scalar_identity_generator_t>(); break;
        case 1: s.dataset->add<sclass_identity_generator_t>(); break;
        case 2: s.dataset->add<mclass_identity_generator_t>(); break;
        default: s.dataset->add<struct_identity_generator_t>(); break;
        }
    }
    s.layout  = make_layout(s.shadow, s.generator_order);
    s.samples = gen_samples(rng, s.shadow.samples);
    s.flatten = make_flatten(s.shadow, s.layout, s.samples);

    const auto indices = to_indices(s.samples);
    if (s.dataset->columns() != static_cast<tensor_size_t>(s.layout.columns.size()) ||
        s.dataset->features() != static_cast<tensor_size_t>(s.layout.dataset_features.size()))
    {
        c.inconclusive("dataset-layout-differs-from-shadow");
        return false;
    }
    for (size_t i = 0; i < s.layout.dataset_features.size(); ++i)
    {
        if (s.dataset->feature(static_cast<tensor_size_t>(i)).name() != s.shadow.features[static_cast<size_t>(s.layout.dataset_features[i])].feature.name())
        {
            c.inconclusive("dataset-layout-differs-from-shadow");
            return false;
        }
    }
    tensor2d_t buffer;
    if (!same_matrix(s.flatten, s.dataset->flatten(indices, buffer)))
    {
        c.inconclusive("dataset-flatten-differs-from-shadow");
        return false;
    }
    if (s.shadow.target >= 0)
    {
        s.targets = make_targets(s.shadow, s.samples);
        tensor4d_t tbuffer;
        if (!same_matrix(s.targets, s.dataset->targets(indices, tbuffer)))
        {
            c.inconclusive("dataset-targets-differ-from-shadow");
            return false;
        }
    }
    return true;
}

uint64_t hash_setup(const setup_t& s)
{
    uint64_t h = vf::hash_bytes(s.flatten.data.data(), s.flatten.data.size() * sizeof(double));
    h          = vf::hash_bytes(s.targets.data.data(), s.targets.data.size() * sizeof(double), h);
    for (const auto& info : s.layout.columns)
    {
        h = vf::mix(h, info.categorical ? 1U : 2U);
    }
    return h;
}

vf::json_t describe(const setup_t& s)
{
    vf::json_t j;
    j.kv("dataset_samples", s.shadow.samples).kv("selected_samples", static_cast<long long>(s.samples.size()));
    j.kv("flatten_columns", s.flatten.cols).kv("threads", static_cast<long long>(s.threads));
    std::vector<std::string> kinds;
    for (const auto& info : s.layout.columns)
    {
        kinds.push_back(info.gen);
    }
    j.strs("column_kinds", kinds);
    if (s.shadow.target >= 0)
    {
        const auto& f = s.shadow.features[static_cast<size_t>(s.shadow.target)];
        j.kv("target", std::string(f.kind == 1 ? "sclass" : f.kind == 2 ? "mclass" : "continuous") + "/" + std::to_string(f.comps));
    }
    if (s.flatten.rows > 0 && s.flatten.cols > 0)
    {
        j.arr("first_row", s.flatten.data.data(), static_cast<size_t>(s.flatten.cols), 20);
    }
    return j;
}

const int64_t BATCHES[] = {1, 2, 3, 7, 10, 100, 1000};

// ---------------------------------------------------------------------------------------------------------------
// mode "stats": statistics, scaling, up-scaling (direct API and iterators)

void case_stats(vf::ctx_t& c)
{
    auto&      rng = c.rng;
    setup_t    s;
    const auto tr = rng.integer(0, 9);
    if (!make_setup(c, s, tr < 4 ? -1 : tr < 8 ? 0 : 1, rng.chance(0.15) ? 0.0 : 0.65))
    {
        return;
    }
    const auto& dataset = *s.dataset;
    const auto  indices = to_indices(s.samples);
    const auto  batch   = BATCHES[rng.integer(0, 6)];

    // flatten inputs: statistics + scaling through the 2d interface
    const auto fview = make_view("flatten", s.flatten, s.layout.columns);
    const auto fstats = scalar_stats_t::make_flatten_stats(dataset, indices, batch);
    if (!check_stats(c, fview, fstats))
    {
        return;
    }
    check_scaling_2d(c, fview, fstats);

    // targets: statistics + scaling through the 4d interface
    view_t tview;
    if (s.shadow.target >= 0)
    {
        tview             = make_view("targets", s.targets, target_columns(s.shadow));
        const auto tstats = scalar_stats_t::make_targets_stats(dataset, indices, batch);
        if (!check_stats(c, tview, tstats))
        {
            return;
        }
        check_scaling_4d(c, tview, tstats, target_dims(s.shadow.features[static_cast<size_t>(s.shadow.target)]));
    }

    // per-feature statistics of up to three continuous features
    {
        std::vector<int> continuous;
        for (size_t i = 0; i < s.layout.dataset_features.size(); ++i)
        {
            if (!s.shadow.features[static_cast<size_t>(s.layout.dataset_features[i])].categorical())
            {
                continuous.push_back(static_cast<int>(i));
            }
        }
        for (int k = 0; k < 3 && !continuous.empty(); ++k)
        {
            const auto  pos      = static_cast<size_t>(rng.integer(0, static_cast<int64_t>(continuous.size()) - 1));
            const auto  ifeature = continuous[pos];
            const auto  ishadow  = s.layout.dataset_features[static_cast<size_t>(ifeature)];
            const auto& f        = s.shadow.features[static_cast<size_t>(ishadow)];
            continuous.erase(continuous.begin() + static_cast<std::ptrdiff_t>(pos));

            const auto             values = make_feature_values(s.shadow, ishadow, s.samples);
            std::vector<colinfo_t> columns;
            for (int comp = 0; comp < f.comps; ++comp)
            {
                colinfo_t info;
                info.gen     = f.gens[static_cast<size_t>(comp)] + "|" + f.presence;
                info.feature = ishadow;
                columns.push_back(info);
            }
            const auto view  = make_view("feature", values, columns);
            const auto stats = scalar_stats_t::make_feature_stats(dataset, indices, ifeature, BATCHES[rng.integer(0, 6)]);
            c.count("feature_stats");
            if (!check_stats(c, view, stats))
            {
                return;
            }
            if (f.kind == 0)
            {
                check_scaling_2d(c, view, stats);
            }
            else
            {
                check_scaling_4d(c, view, stats, f.feature.dims());
            }
        }
    }

    // the iterator: its statistics and what it hands to the models (un-cached for the four modes, then cached)
    {
        auto iterator = flatten_iterator_t{dataset, indices};
        iterator.batch(BATCHES[rng.integer(0, 6)]);
        auto       iview  = fview;
        iview.where       = "iterator-flatten";
        auto itview       = tview;
        itview.where      = "iterator-targets";
        const bool target = s.shadow.target >= 0;
        if (!check_stats(c, iview, iterator.flatten_stats()) || (target && !check_stats(c, itview, iterator.targets_stats())))
        {
            return;
        }
        const auto cached_mode = static_cast<int>(rng.integer(0, 3));
        for (int pass = 0; pass < 5; ++pass)
        {
            const int imode = pass < 4 ? pass : cached_mode;
            iterator.scaling(MODES[imode]);
            if (pass == 4)
            {
                const auto all = std::numeric_limits<tensor_size_t>::max();
                if (!iterator.cache_flatten(all) || (target && !iterator.cache_targets(all)))
                {
                    c.count("iterator_cache_refused");
                    break;
                }
            }
            mat_t inputs(s.flatten.rows, s.flatten.cols), outputs(s.targets.rows, s.targets.cols);
            // NB: ranges handed to different workers are disjoint, no synchronisation is needed to collect them
            const auto store = [](mat_t& m, tensor_range_t range, const auto& values)
            {
                const auto cols = static_cast<tensor_size_t>(m.cols);
                for (tensor_size_t i = 0, size = range.size() * cols; i < size; ++i)
                {
                    m.data[static_cast<size_t>(range.begin() * cols + i)] = values(i);
                }
            };
            if (target)
            {
                iterator.loop([&](tensor_range_t range, size_t, tensor2d_cmap_t x, tensor4d_cmap_t y)
                              {
                                  store(inputs, range, x);
                                  store(outputs, range, y);
                              });
            }
            else
            {
                iterator.loop([&](tensor_range_t range, size_t, tensor2d_cmap_t x) { store(inputs, range, x); });
            }
            c.count(pass == 4 ? "iterator_loops_cached" : "iterator_loops");
            check_scaled(c, iview, imode, inputs,
                         [&](const mat_t& m)
                         {
                             auto t = to_tensor(m);
                             iterator.flatten_stats().upscale(MODES[imode], t.tensor());
                             return to_mat(t, m.rows, m.cols);
                         });
            if (target)
            {
                check_scaled(c, itview, imode, outputs,
                             [&](const mat_t& m)
                             {
                                 auto t = to_tensor(m);
                                 iterator.targets_stats().upscale(MODES[imode], t.tensor());
                                 return to_mat(t, m.rows, m.cols);
                             });
            }
        }
    }

    // non-trivial: a continuous column that is really rescaled next to something that must be left alone or is
    // degenerate (categorical column, missing value, constant / single-sample / all-missing / guarded column)
    bool rescaled = false, special = false;
    for (int col = 0; col < s.flatten.cols; ++col)
    {
        const auto& r    = fview.refs[static_cast<size_t>(col)];
        const auto& info = fview.columns[static_cast<size_t>(col)];
        rescaled         = rescaled || (!info.categorical && r.judged_stdev());
        special          = special || info.categorical || r.n < static_cast<long>(s.flatten.rows) || !r.judged_stdev();
    }
    if (rescaled && special)
    {
        c.nontrivial(hash_setup(s));
    }
    if (c.want_sample())
    {
        c.sample(describe(s));
    }
}

// ---------------------------------------------------------------------------------------------------------------
// mode "model": predictions of the converted (W, b) on raw inputs == up-scaled predictions of (W, b) on scaled inputs

tensor4d_t predict(const tensor2d_t& inputs, const tensor2d_t& weights, const tensor1d_t& bias)
{
    tensor4d_t outputs(inputs.size<0>(), bias.size(), 1, 1);
    linear::predict(inputs, weights, bias, outputs.tensor());
    return outputs;
}

double center_of(const ref_t& r, int imode)
{
    return imode == 0 ? 0.0 : imode == 2 ? r.min : r.mean;
}

struct algebra_t
{
    const view_t*         fview{nullptr};
    const view_t*         tview{nullptr};
    const scalar_stats_t* fstats{nullptr};
    const scalar_stats_t* tstats{nullptr};
    const mat_t*          raw{nullptr};    // evaluation rows (raw, NaN = missing)
    const tensor2d_t*     weights{nullptr};
    const tensor1d_t*     bias{nullptr};
};

// compares `lhs` (predictions of the converted model on raw inputs) with `rhs` (up-scaled predictions of the original
// model on the scaled inputs `scaled`), row by row, for the rows whose inputs are all finite.
// returns the number of judged rows.
int compare_predictions(vf::ctx_t& c, const algebra_t& a, int fmode, int tmode, const std::string& path, const tensor2d_t& cweights,
                        const tensor1d_t& cbias, const mat_t& scaled, const mat_t& lhs, const mat_t& rhs)
{
    const auto& raw    = *a.raw;
    const auto  tsize  = static_cast<int>(a.bias->size());
    int         judged = 0;
    for (int row = 0; row < raw.rows; ++row)
    {
        bool finite = true;
        for (int col = 0; col < raw.cols && finite; ++col)
        {
            finite = std::isfinite(raw(row, col));
        }
        if (!finite)
        {
            c.count("model_rows_with_missing_inputs");
            continue;
        }
        ++judged;
        for (int t = 0; t < tsize; ++t)
        {
            // magnitude of the summed terms on both sides (incl. the terms summed into the converted bias)
            const auto& tr  = a.tview->refs[static_cast<size_t>(t)];
            const bool  tc  = a.tview->columns[static_cast<size_t>(t)].categorical;
            const double mul = tmode == 0 || tc ? 1.0 : tmode == 3 ? a.tstats->m_mul_stdev(t) : a.tstats->m_mul_range(t);
            double      sum = std::fabs(cbias(t)) + std::fabs(tc ? 0.0 : center_of(tr, tmode)) + std::fabs(mul * (*a.bias)(t));
            for (int col = 0; col < raw.cols; ++col)
            {
                const auto& fr = a.fview->refs[static_cast<size_t>(col)];
                const bool  fc = a.fview->columns[static_cast<size_t>(col)].categorical;
                sum += std::fabs(cweights(t, col)) * (std::fabs(raw(row, col)) + std::fabs(fc ? 0.0 : center_of(fr, fmode)));
                sum += std::fabs(mul * (*a.weights)(t, col) * scaled(row, col));
            }
            const double tol = 1e-9 * sum;
            const double l = lhs(row, t), r = rhs(row, t);
            c.count("model_predictions_" + path);
            c.maxc("ppm_of_tolerance_model_" + path, ppm(std::fabs(l - r), tol));
            if (!(std::fabs(l - r) <= tol))
            {
                vf::json_t j;
                j.kv("path", path).kv("inputs_scaling", MODE_NAMES[fmode]).kv("targets_scaling", MODE_NAMES[tmode]);
                j.kv("row", row).kv("output", t).kv("converted_model_on_raw", l).kv("upscaled_original_on_scaled", r);
                j.kv("difference", l - r).kv("tolerance", tol).kv("sum_abs_terms", sum);
                j.kv("bias", (*a.bias)(t)).kv("converted_bias", cbias(t));
                j.arr("raw_row", &raw.data[static_cast<size_t>(row) * static_cast<size_t>(raw.cols)], static_cast<size_t>(raw.cols), 20);
                j.arr("scaled_row", &scaled.data[static_cast<size_t>(row) * static_cast<size_t>(raw.cols)], static_cast<size_t>(raw.cols), 20);
                j.arr("weights_row", a.weights->data() + static_cast<tensor_size_t>(t) * a.weights->cols(), static_cast<size_t>(raw.cols), 20);
                j.arr("converted_weights_row", cweights.data() + static_cast<tensor_size_t>(t) * cweights.cols(), static_cast<size_t>(raw.cols), 20);
                j.arr("inputs_mean", a.fstats->m_mean.data(), static_cast<size_t>(raw.cols), 20);
                j.arr("inputs_min", a.fstats->m_min.data(), static_cast<size_t>(raw.cols), 20);
                j.arr("inputs_div_range", a.fstats->m_div_range.data(), static_cast<size_t>(raw.cols), 20);
                j.arr("inputs_div_stdev", a.fstats->m_div_stdev.data(), static_cast<size_t>(raw.cols), 20);
                j.kv("target_mean", a.tstats->m_mean(t)).kv("target_min", a.tstats->m_min(t)).kv("target_mul_range", a.tstats->m_mul_range(t)).kv("target_mul_stdev", a.tstats->m_mul_stdev(t));
                std::vector<std::string> kinds;
                for (const auto& info : a.fview->columns)
                {
                    kinds.push_back(info.gen);
                }
                j.strs("column_kinds", kinds);
                c.violation("C14|model-algebra|" + path + "|inputs-" + MODE_NAMES[fmode] + "|targets-" + MODE_NAMES[tmode], j);
                return judged;
            }
        }
    }
    return judged;
}

void case_model(vf::ctx_t& c)
{
    auto&   rng = c.rng;
    setup_t s;
    // the algebra is judged on rows whose inputs are all finite: keep many of them
    const auto mr = rng.integer(0, 9);
    if (!make_setup(c, s, rng.chance(0.85) ? 0 : 1, mr < 4 ? 0.0 : mr < 8 ? 0.1 : 0.65))
    {
        return;
    }
    const auto& dataset = *s.dataset;
    const auto  indices = to_indices(s.samples);
    const auto  batch   = BATCHES[rng.integer(0, 6)];

    const auto fview  = make_view("flatten", s.flatten, s.layout.columns);
    const auto tview  = make_view("targets", s.targets, target_columns(s.shadow));
    const auto fstats = scalar_stats_t::make_flatten_stats(dataset, indices, batch);
    const auto tstats = scalar_stats_t::make_targets_stats(dataset, indices, batch);
    if (!check_stats(c, fview, fstats) || !check_stats(c, tview, tstats))
    {
        return;
    }

    // evaluation rows: every sample of the dataset (the statistics come from the selected ones only)
    std::vector<int> everyone;
    for (int i = 0; i < s.shadow.samples; ++i)
    {
        everyone.push_back(i);
    }
    const auto raw   = make_flatten(s.shadow, s.layout, everyone);
    const int  isize = raw.cols, tsize = s.targets.cols;

    // any weights and bias
    tensor2d_t   weights(tsize, isize);
    tensor1d_t   bias(tsize);
    const double wmag   = rng.loguniform(1e-3, 1e3);
    const double sparse = rng.chance(0.3) ? rng.uniform(0.1, 0.8) : 0.0;
    for (tensor_size_t i = 0; i < weights.size(); ++i)
    {
        weights(i) = rng.chance(sparse) ? 0.0 : wmag * rng.normal();
    }
    for (tensor_size_t i = 0; i < bias.size(); ++i)
    {
        bias(i) = rng.chance(0.1) ? 0.0 : rng.loguniform(1e-3, 1e3) * rng.normal();
    }

    algebra_t a;
    a.fview   = &fview;
    a.tview   = &tview;
    a.fstats  = &fstats;
    a.tstats  = &tstats;
    a.raw     = &raw;
    a.weights = &weights;
    a.bias    = &bias;

    // raw inputs as the models see them (missing => 0 by the `none` scaling)
    auto raw0 = to_tensor(raw);
    fstats.scale(scaling_type::none, raw0.tensor());

    int judged = 0;
    for (int fmode = 0; fmode < 4; ++fmode)
    {
        auto scaled = to_tensor(raw);
        fstats.scale(MODES[fmode], scaled.tensor());
        const auto scaled_mat = to_mat(scaled, raw.rows, raw.cols);
        const auto original   = predict(scaled, weights, bias);
        for (int tmode = 0; tmode < 4; ++tmode)
        {
            auto rhs = original;
            tstats.upscale(MODES[tmode], rhs.tensor());

            auto cweights = weights;
            auto cbias    = bias;
            ::nano::upscale(fstats, MODES[fmode], tstats, MODES[tmode], cweights.tensor(), cbias.tensor());
            const auto lhs = predict(raw0, cweights, cbias);
            c.count("model_conversions");

            judged = compare_predictions(c, a, fmode, tmode, "direct", cweights, cbias, scaled_mat, to_mat(lhs, raw.rows, tsize), to_mat(rhs, raw.rows, tsize));
            if (c.violations() > 0)
            {
                return; // one witness per case: the other scaling pairs would mostly repeat it
            }
        }
    }

    // the way linear_t does it: statistics and scaled inputs from the iterator (one scaling for both sides),
    // conversion, then linear_t::predict of a model that carries the converted parameters
    int judged_model = 0;
    {
        const auto imode = static_cast<int>(rng.integer(0, 3));
        auto iterator    = flatten_iterator_t{dataset, indices};
        iterator.batch(BATCHES[rng.integer(0, 6)]);
        iterator.scaling(MODES[imode]);
        if (rng.chance(0.5))
        {
            iterator.cache_flatten(std::numeric_limits<tensor_size_t>::max());
            iterator.cache_targets(std::numeric_limits<tensor_size_t>::max());
        }
        auto iview  = fview;
        iview.where = "iterator-flatten";
        auto itview = tview;
        itview.where = "iterator-targets";
        if (!check_stats(c, iview, iterator.flatten_stats()) || !check_stats(c, itview, iterator.targets_stats()))
        {
            return;
        }

        tensor2d_t scaled(s.flatten.rows, isize);
        iterator.loop([&](tensor_range_t range, size_t, tensor2d_cmap_t x) { scaled.slice(range) = x; });
        auto rhs = predict(scaled, weights, bias);
        iterator.targets_stats().upscale(iterator.scaling(), rhs.tensor());

        auto cweights = weights;
        auto cbias    = bias;
        ::nano::upscale(iterator.flatten_stats(), iterator.scaling(), iterator.targets_stats(), iterator.scaling(), cweights.tensor(), cbias.tensor());

        auto model = linear_t::all().get("ordinary");
        {
            features_t inputs;
            for (tensor_size_t i = 0; i < dataset.features(); ++i)
            {
                inputs.push_back(dataset.feature(i));
            }
            std::ostringstream os;
            static_cast<const configurable_t&>(*model).configurable_t::write(os);
            if (!::nano::write(os, inputs) || !::nano::write(os, dataset.target()) || !::nano::write(os, cbias) || !::nano::write(os, cweights))
            {
                c.inconclusive("cannot-serialize-the-model");
                return;
            }
            std::istringstream is(os.str());
            model->read(is);
        }
        if (!same_matrix(to_mat(cweights, tsize, isize), model->weights()) || !same_matrix(to_mat(cbias, 1, tsize), model->bias()))
        {
            c.inconclusive("model-stream-did-not-carry-the-parameters");
            return;
        }
        model->parameter("linear::batch") = BATCHES[rng.integer(4, 6)];
        const auto lhs = model->predict(dataset, indices);
        c.count("model_linear_predict_calls");

        algebra_t b = a;
        b.raw       = &s.flatten;
        b.fstats    = &iterator.flatten_stats();
        b.tstats    = &iterator.targets_stats();
        judged_model = compare_predictions(c, b, imode, imode, "linear_t", cweights, cbias, to_mat(scaled, s.flatten.rows, isize),
                                           to_mat(lhs, s.flatten.rows, tsize), to_mat(rhs, s.flatten.rows, tsize));
    }

    // non-trivial: rows were judged on both paths, a really rescaled input column carries weight and the target is
    // really rescaled
    bool weighted = false, target_rescaled = false;
    for (int col = 0; col < isize; ++col)
    {
        bool nonzero = false;
        for (int t = 0; t < tsize; ++t)
        {
            nonzero = nonzero || weights(t, col) != 0.0;
        }
        weighted = weighted || (nonzero && !fview.columns[static_cast<size_t>(col)].categorical && fview.refs[static_cast<size_t>(col)].judged_stdev());
    }
    for (int t = 0; t < tsize; ++t)
    {
        target_rescaled = target_rescaled || (!tview.columns[static_cast<size_t>(t)].categorical && tview.refs[static_cast<size_t>(t)].judged_stdev());
    }
    c.count("model_rows_judged", judged + judged_model);
    if (judged > 0 && judged_model > 0 && weighted && target_rescaled)
    {
        uint64_t h = hash_setup(s);
        h          = vf::hash_bytes(weights.data(), static_cast<size_t>(weights.size()) * sizeof(double), h);
        h          = vf::hash_bytes(bias.data(), static_cast<size_t>(bias.size()) * sizeof(double), h);
        c.nontrivial(h);
    }
    if (c.want_sample())
    {
        auto j = describe(s);
        j.kv("outputs", tsize).kv("rows_judged", judged).kv("rows_judged_linear_t", judged_model);
        j.arr("weights", weights.data(), static_cast<size_t>(weights.size()), 20).arr("bias", bias.data(), static_cast<size_t>(bias.size()), 5);
        c.sample(j);
    }
}
} // namespace

int main(int argc, char** argv)
{
    const auto args = vf::parse_args(argc, argv);
    if (args.mode == "model")
    {
        return vf::run(args, "C14",
                       "case = one dataset (1..300 samples, 1..20 flatten columns of mixed continuous/categorical features with "
                       "missing values, magnitudes 1e-6..1e6, constant/near-constant/single-sample/all-missing columns; continuous "
                       "target of 1..5 outputs or a class target) + statistics from a random sample list + random W (1..5 x 1..20), b; "
                       "all 4x4 scaling pairs through nano::upscale and one through flatten_iterator_t + linear_t::predict; "
                       "non-trivial: >= 1 row with all inputs finite judged on both paths, >= 1 really rescaled continuous input "
                       "column (>= 2 distinct values, relative spread >= 1e-6, clear of the 1e-8 guard) with a non-zero weight and "
                       ">= 1 really rescaled target column; distinct by hash(flatten, targets, column kinds, W, b)",
                       case_model);
    }
    return vf::run(args, "C14",
                   "case = one dataset (1..300 samples, 1..20 flatten columns of mixed continuous/categorical features with missing "
                   "values, magnitudes 1e-6..1e6, constant/near-constant/single-sample/all-missing/below-guard columns, optional "
                   "continuous or class target) + a random sample list; flatten/targets/feature statistics, 4 scaling modes "
                   "through the 2d/4d interfaces and through flatten_iterator_t (cached or not); non-trivial: >= 1 really "
                   "rescaled continuous column (>= 2 distinct values, relative spread >= 1e-6, clear of the 1e-8 guard) together "
                   "with >= 1 categorical, partly missing or degenerate column; distinct by hash(flatten, targets, column kinds)",
                   case_stats);
}
