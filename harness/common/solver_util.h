// Shared helpers of the solver harnesses (C02, C03): counting wrapper with a logical evaluation budget,
// parameter-domain fuzzer, harness-owned test functions with analytically known properties.
#pragma once

#include "common/vf.h"
#include <Eigen/Dense>
#include <nano/function.h>
#include <nano/solver.h>

namespace vfs
{
using namespace nano;

struct budget_exceeded_t
{
};

///
/// \brief wraps a function, counts the evaluations itself (one per call, plus one when the gradient is requested),
///     and throws once a hard cap is exceeded: "does not terminate within its budget" is decided in evaluations.
///
class counting_function_t final : public function_t
{
public:
    counting_function_t(const function_t& inner, int64_t cap)
        : function_t("vf-counting", inner.size())
        , m_inner(inner.clone())
        , m_cap(cap)
    {
        convex(inner.convex() ? convexity::yes : convexity::no);
        smooth(inner.smooth() ? smoothness::yes : smoothness::no);
        strong_convexity(inner.strong_convexity());
    }

    counting_function_t(const counting_function_t& o)
        : function_t(o)
        , m_inner(o.m_inner->clone())
        , m_cap(o.m_cap)
    {
    }

    rfunction_t clone() const override { return std::make_unique<counting_function_t>(*this); }

    scalar_t do_vgrad(vector_cmap_t x, vector_map_t gx) const override
    {
        ++m_f;
        if (gx.size() == x.size())
        {
            ++m_g;
        }
        if (m_f + m_g > m_cap)
        {
            throw budget_exceeded_t{};
        }
        const auto fx = m_inner->vgrad(x, gx);
        if (std::isfinite(fx))
        {
            m_max_abs_f = std::max(m_max_abs_f, std::fabs(fx));
        }
        return fx;
    }

    rfunction_t      m_inner;
    int64_t          m_cap;
    mutable int64_t  m_f{0}, m_g{0};
    mutable scalar_t m_max_abs_f{0}; ///< largest finite |f| the solver has seen
};

///
/// \brief draw every (selected) parameter of a configurable from its own declared domain:
///     log-uniform inside wide ranges, boundary values every few draws.
/// returns a short description of what was set.
///
inline std::string fuzz_parameters(configurable_t& c, vf::rng_t& rng, const std::function<bool(const string_t&)>& skip,
                                   double p_touch = 0.5, int64_t int_span_cap = 2000)
{
    std::string desc;
    for (const auto& p : c.parameters())
    {
        const auto name = p.name();
        if (skip(name) || !rng.chance(p_touch))
        {
            continue;
        }
        std::visit(overloaded{[&](const parameter_t::irange_t& r)
                              {
                                  int64_t lo = r.m_min + (std::holds_alternative<LT_t>(r.m_mincomp) ? 1 : 0);
                                  int64_t hi = r.m_max - (std::holds_alternative<LT_t>(r.m_maxcomp) ? 1 : 0);
                                  hi         = std::min<int64_t>(hi, lo + int_span_cap);
                                  const auto k = rng.integer(0, 7);
                                  const auto v = k == 0 ? lo : (k == 1 ? hi : (k == 2 ? std::min(hi, lo + rng.integer(0, 5)) : rng.integer(lo, hi)));
                                  c.parameter(name) = v;
                                  desc += name + "=" + std::to_string(v) + " ";
                              },
                              [&](const parameter_t::frange_t& r)
                              {
                                  const double lo = r.m_min, hi = std::min(r.m_max, 1e12);
                                  double       v  = 0;
                                  if (lo > 0 && hi / lo > 1e3)
                                  {
                                      v = rng.loguniform(lo, hi);
                                  }
                                  else if (lo == 0 && hi > 1e3)
                                  {
                                      v = std::pow(10.0, rng.uniform(-12.0, std::log10(hi)));
                                  }
                                  else if (lo == 0)
                                  {
                                      v = rng.chance(0.5) ? hi * rng.u01() : hi * std::pow(10.0, -12 * rng.u01());
                                  }
                                  else
                                  {
                                      v = rng.uniform(lo, hi);
                                  }
                                  const auto k = rng.integer(0, 15);
                                  if (k == 0 && std::holds_alternative<LE_t>(r.m_mincomp))
                                  {
                                      v = lo;
                                  }
                                  if (k == 1 && std::holds_alternative<LE_t>(r.m_maxcomp) && r.m_max <= 1e12)
                                  {
                                      v = hi;
                                  }
                                  try
                                  {
                                      c.parameter(name) = v;
                                      desc += name + "=" + vf::json_t::num(v) + " ";
                                  }
                                  catch (const std::exception&)
                                  {
                                  }
                              },
                              [&](const parameter_t::fprange_t& r)
                              {
                                  const double lo = r.m_min, hi = std::min(r.m_max, 1e12);
                                  double       a = rng.uniform(lo, hi), b = rng.uniform(lo, hi);
                                  if (lo == 0 && rng.chance(0.5))
                                  {
                                      a = hi * std::pow(10.0, -8 * rng.u01());
                                      b = hi * std::pow(10.0, -8 * rng.u01());
                                  }
                                  if (a > b)
                                  {
                                      std::swap(a, b);
                                  }
                                  try
                                  {
                                      c.parameter(name) = std::make_tuple(a, b);
                                      desc += name + "=(" + vf::json_t::num(a) + "," + vf::json_t::num(b) + ") ";
                                  }
                                  catch (const std::exception&)
                                  {
                                  }
                              },
                              [&](const parameter_t::enum_t& e)
                              {
                                  const auto& v = e.m_domain[static_cast<size_t>(rng.integer(0, static_cast<int64_t>(e.m_domain.size()) - 1))];
                                  c.parameter(name) = v;
                                  desc += name + "=" + v + " ";
                              },
                              [&](const auto&) {}},
                   p.storage());
    }
    return desc;
}

inline Eigen::MatrixXd random_orthogonal(int n, vf::rng_t& rng)
{
    Eigen::MatrixXd M(n, n);
    for (int i = 0; i < n; ++i)
    {
        for (int j = 0; j < n; ++j)
        {
            M(i, j) = rng.normal();
        }
    }
    Eigen::MatrixXd Q = Eigen::HouseholderQR<Eigen::MatrixXd>(M).householderQ();
    return Q;
}

///
/// \brief harness-owned functions (pure, deterministic, known class).
///
class harness_function_t final : public function_t
{
public:
    enum class kind
    {
        quadratic,     ///< 0.5 x'Ax + a'x, A SPD
        logquadratic,  ///< log(1 + (x-c)'A(x-c)), A SPD: smooth, non-convex, bounded below
        maxaffine,     ///< max_k (a_k'x + b_k) + 1e-3 |x|^2/2 ... convex piecewise-linear (+ tiny quadratic: bounded below)
        l1,            ///< |A(x - c)|_1 : convex, non-smooth
        linf,          ///< |A(x - c)|_inf : convex, non-smooth
        l1quad,        ///< |A(x-c)|_1 + mu/2 |x-c|^2
        linfquad,      ///< |A(x-c)|_inf + mu/2 |x-c|^2
        walled,        ///< quadratic inside a ball, +inf outside
        nanwalled      ///< quadratic inside a ball, NaN outside
    };

    harness_function_t(kind k, int n, vf::rng_t& rng, double smin = 1.0)
        : function_t("vf-harness", n)
        , m_kind(k)
        , m_A(n, n)
        , m_a(n)
        , m_c(n)
    {
        const auto Q1 = random_orthogonal(n, rng);
        const auto Q2 = random_orthogonal(n, rng);
        const auto kappa = rng.loguniform(1.0, k == kind::quadratic || k == kind::logquadratic ? 1e3 : 30.0);
        Eigen::VectorXd s(n);
        for (int i = 0; i < n; ++i)
        {
            s(i) = smin * std::pow(kappa, rng.u01());
        }
        s(0) = smin;
        for (int i = 0; i < n; ++i)
        {
            m_c(i) = rng.uniform(-3.0, 3.0);
        }
        switch (k)
        {
        case kind::quadratic:
        case kind::logquadratic:
        case kind::walled:
        case kind::nanwalled:
            m_A = Q1 * s.asDiagonal() * Q1.transpose();
            m_A = 0.5 * (m_A + m_A.transpose().eval());
            m_a = -m_A * m_c;
            break;
        case kind::maxaffine:
            m_K = static_cast<int>(rng.integer(2, 3 * n + 2));
            m_A = Eigen::MatrixXd(m_K, n);
            m_a = Eigen::VectorXd(m_K);
            for (int r = 0; r < m_K; ++r)
            {
                for (int j = 0; j < n; ++j)
                {
                    m_A(r, j) = rng.normal();
                }
                m_a(r) = rng.normal();
            }
            break;
        default: m_A = Q1 * s.asDiagonal() * Q2.transpose(); break;
        }
        m_mu     = (k == kind::l1quad || k == kind::linfquad) ? rng.loguniform(1e-2, 10.0) : 0.0;
        m_radius = 20.0;
        const bool cvx = k != kind::logquadratic && k != kind::walled && k != kind::nanwalled;
        const bool smo = k == kind::quadratic || k == kind::logquadratic;
        convex(cvx ? convexity::yes : convexity::no);
        smooth(smo ? smoothness::yes : smoothness::no);
        strong_convexity(k == kind::quadratic ? s.minCoeff() : (k == kind::maxaffine ? 1e-3 : m_mu));
    }

    rfunction_t clone() const override { return std::make_unique<harness_function_t>(*this); }

    const Eigen::VectorXd& center() const { return m_c; }

    kind what() const { return m_kind; }

    double mu() const { return m_mu; }

    scalar_t do_vgrad(vector_cmap_t x, vector_map_t gx) const override
    {
        const auto      n  = static_cast<int>(size());
        const bool      wg = gx.size() == x.size();
        Eigen::VectorXd g  = Eigen::VectorXd::Zero(n);
        double          f  = 0;
        switch (m_kind)
        {
        case kind::quadratic:
        {
            const Eigen::VectorXd Ax = m_A * x.vector();
            f                        = 0.5 * x.vector().dot(Ax) + m_a.dot(x.vector());
            g                        = Ax + m_a;
            break;
        }
        case kind::walled:
        case kind::nanwalled:
        {
            if (x.vector().norm() > m_radius)
            {
                if (wg)
                {
                    gx.vector().setConstant(std::numeric_limits<double>::quiet_NaN());
                }
                return m_kind == kind::walled ? std::numeric_limits<double>::infinity() : std::numeric_limits<double>::quiet_NaN();
            }
            const Eigen::VectorXd Ax = m_A * x.vector();
            f                        = 0.5 * x.vector().dot(Ax) + m_a.dot(x.vector());
            g                        = Ax + m_a;
            break;
        }
        case kind::logquadratic:
        {
            const Eigen::VectorXd d  = x.vector() - m_c;
            const Eigen::VectorXd Ad = m_A * d;
            const double          q  = d.dot(Ad);
            f                        = std::log1p(q);
            g                        = 2.0 * Ad / (1.0 + q);
            break;
        }
        case kind::maxaffine:
        {
            const Eigen::VectorXd r = m_A * x.vector() + m_a;
            int                   k = 0;
            f                       = r.maxCoeff(&k) + 0.5e-3 * x.vector().squaredNorm();
            g                       = m_A.row(k).transpose() + 1e-3 * x.vector();
            break;
        }
        default:
        {
            const Eigen::VectorXd d = x.vector() - m_c;
            const Eigen::VectorXd r = m_A * d;
            if (m_kind == kind::l1 || m_kind == kind::l1quad)
            {
                f                       = r.cwiseAbs().sum();
                const Eigen::VectorXd s = r.unaryExpr([](double v) { return v > 0 ? 1.0 : (v < 0 ? -1.0 : 0.0); });
                g                       = m_A.transpose() * s;
            }
            else
            {
                int k = 0;
                f     = r.cwiseAbs().maxCoeff(&k);
                g     = m_A.row(k).transpose() * (r(k) > 0 ? 1.0 : (r(k) < 0 ? -1.0 : 0.0));
            }
            f += 0.5 * m_mu * d.squaredNorm();
            g += m_mu * d;
            break;
        }
        }
        if (wg)
        {
            gx.vector() = g;
        }
        return f;
    }

private:
    kind            m_kind;
    Eigen::MatrixXd m_A;
    Eigen::VectorXd m_a;
    Eigen::VectorXd m_c;
    int             m_K{0};
    double          m_mu{0};
    double          m_radius{20};
};

inline const char* kind_name(harness_function_t::kind k)
{
    using K = harness_function_t::kind;
    switch (k)
    {
    case K::quadratic: return "quadratic";
    case K::logquadratic: return "log-quadratic";
    case K::maxaffine: return "max-affine";
    case K::l1: return "l1";
    case K::linf: return "linf";
    case K::l1quad: return "l1+quad";
    case K::linfquad: return "linf+quad";
    case K::walled: return "inf-walled-quadratic";
    case K::nanwalled: return "nan-walled-quadratic";
    }
    return "?";
}

inline const char* status_name(solver_status s)
{
    switch (s)
    {
    case solver_status::converged: return "converged";
    case solver_status::max_iters: return "max_iters";
    case solver_status::failed: return "failed";
    case solver_status::unfeasible: return "unfeasible";
    case solver_status::unbounded: return "unbounded";
    }
    return "invalid";
}
} // namespace vfs
